"""Verification tasks for the path properties of error objects (C06): absolute_path,
absolute_schema_path, json_path, and the parent links set by _Error.__init__."""
import z3

from pyvc import smt, extract
from pyvc.smt import V, kind, K_INT, K_STR
from pyvc.values import *      # noqa
from pyvc.interp import State, Ctx, Interp, lift, Raised, branch
from pyvc.loops import LoopInv, IterSpec
from contracts import core
from contracts.tasks_core import CoreTask

PathSort = z3.SeqSort(V)
int_to_str = z3.Function("py_str_of_int", smt.I, smt.S)       # str(i)
render = z3.Function("render_prefix", smt.I, smt.S)  # '$' + rendering of the first k elements of the path
path_at = z3.Function("abs_path_at", smt.I, V)        # the elements of the absolute path (json_path task)
path_len = z3.Int("abs_path_len")
seq_rev = z3.Function("seq_reverse", PathSort, PathSort)


class SeqV:
    """a deque / sequence of path elements as an SMT sequence"""
    def __init__(self, t):
        self.t = t


class RevV:
    def __init__(self, t):
        self.t = t


class AbsErrObj:
    def __init__(self, name, has_parent):
        self.name, self.has_parent = name, has_parent


class FnPath:
    """a path given by an element function and a length"""


class RenderInv(LoopInv):
    def at(self, I, st, k, spec):
        el = path_at(k)
        step = z3.If(smt.is_kind(el, K_INT, smt.K_BOOL),
                     z3.Concat(z3.StringVal("["), int_to_str(z3.If(kind(el) == K_INT, smt.ival(el), z3.If(smt.bval(el), 1, 0))), z3.StringVal("]")),
                     z3.Concat(z3.StringVal("."), smt.sval(el)))
        return {"env": {"path": SStr(render(k))}, "formula": k >= 0,
                "axiom_instances": [render(0) == z3.StringVal("$"), z3.Implies(k >= 0, render(k + 1) == z3.Concat(render(k), step)),
                                    # instance of the precondition (every path element is an int or a str)
                                    z3.Implies(z3.And(0 <= k, k < path_len), smt.is_kind(el, K_INT, K_STR))]}


class ErrorPathTask(CoreTask):
    def __init__(self, root, which, timeout_ms=10000):
        CoreTask.__init__(self, root, 7, which, timeout_ms)
        self.name = "errors:%s" % which
        self.weight = 1

    def cache_key(self):
        from pyvc import driver
        return "errpath|%s|%s|%s" % (self.name, self.timeout_ms, driver.dep_hash(self.root, modules=("exceptions",)))

    def run(self):
        res = CoreTask.run(self)
        res["draft"] = 7
        if res["status"] != "ok" or any(o["status"] != "discharged" for o in res["obligations"]):
            # directed search on the real error objects (absolute paths, parent links, json_path)
            from pyvc import driver
            fails, tried = [], 0
            try:
                r = driver.rt_call("pyvc.rt_kw", {"cmd": "search_nested", "root": self.root, "limit": 1}, self.root, timeout=600)
                fails += r["failures"]
                tried += r["tried"]
            except Exception as e:      # noqa
                res.setdefault("search_error", str(e)[-300:])
            for k in () if fails else ("items", "properties", "anyOf", "dependencies"):
                try:
                    r = driver.rt_call("pyvc.rt_kw", {"cmd": "search", "mode": "errors", "root": self.root, "draft": 7, "keyword": k, "limit": 1}, self.root, timeout=3000)
                    fails += r["failures"]
                    tried += r["tried"]
                except Exception as e:      # noqa
                    res.setdefault("search_error", str(e)[-300:])
                if fails:
                    break
            res["search"] = {"failures": fails, "tried": tried}
        return res

    def _hooks(self, ctx, rel, parent_abs, field):
        me = AbsErrObj("self", True)

        def getattr_hook(I, st, obj, attr):
            if isinstance(obj, AbsErrObj):
                if attr == "parent":
                    if obj.name == "self":
                        return [(st, st.ghost["parent_val"])]
                if attr in ("relative_path", "relative_schema_path", "path", "schema_path"):
                    return [(st, SeqV(rel))]
                if attr in ("absolute_path", "absolute_schema_path"):
                    if obj.name == "parent":
                        return [(st, SeqV(parent_abs))]      # recursive call: by contract
                    key = "exceptions:_Error.%s" % attr
                    return I.call_func(st, FuncRef(key), [obj], {}, None)
            if isinstance(obj, SeqV):
                return [(st, BoundMethod(obj, attr))]
            return None

        def builtin_hook(I, st, name, a, k, node):
            if name == "collections.deque":
                return [(st, SeqV(a[0].t))] if isinstance(a[0], SeqV) else None
            if name == "reversed" and isinstance(a[0], SeqV):
                return [(st, RevV(a[0].t))]
            if name == "str" and isinstance(a[0], SV):
                t = a[0].t
                return [(st, SStr(int_to_str(z3.If(kind(t) == K_INT, smt.ival(t), z3.If(smt.bval(t), 1, 0)))))]
            return None

        def method_hook(I, st, obj, name, a, k, node):
            if isinstance(obj, SeqV) and name == "extendleft" and isinstance(a[0], RevV):
                # deque contract (assumed): d.extendleft(reversed(q)) makes d == q ++ d
                obj.t = z3.Concat(a[0].t, obj.t)
                return [(st, lift(None))]
            if isinstance(obj, SeqV) and name == "extendleft" and isinstance(a[0], SeqV):
                # d.extendleft(q) prepends the elements of q one by one: d == reverse(q) ++ d
                obj.t = z3.Concat(seq_rev(a[0].t), obj.t)
                return [(st, lift(None))]
            if isinstance(obj, SeqV) and name == "extend" and isinstance(a[0], SeqV):
                obj.t = z3.Concat(obj.t, a[0].t)
                return [(st, lift(None))]
            return None

        def is_hook(I, st, x, y):
            for p, q in ((x, y), (y, x)):
                if isinstance(p, AbsErrObj) and isinstance(q, SV) and q.known and q.conc is None:
                    return SB(False)
            return None

        def iter_hook(I, st, it):
            if isinstance(it, FnPath):
                return [(st, IterSpec(n=path_len, elem=lambda i: SV(path_at(i))))]
            if isinstance(it, SeqV):
                t = it.t
                return [(st, IterSpec(n=z3.Length(t), elem=lambda i: SV(t[i])))]
            return None
        ctx.config.update(getattr_hook=getattr_hook, builtin_hook=builtin_hook, method_hook=method_hook, is_hook=is_hook, iter_hook=iter_hook)
        return me

    def _run_absolute(self, res):
        """absolute_path == parent's absolute path ++ relative path (the error's own relative path when
        it has no parent); likewise absolute_schema_path.  deque(...) copies; extendleft(reversed(q)) == q ++ d (assumed)."""
        repo = extract.Repo(self.root)
        res["function"] = "exceptions:_Error.absolute_path+absolute_schema_path"
        hashes = ""
        for attr in ("absolute_path", "absolute_schema_path"):
            for has_parent in (True, False):
                ctx = Ctx(repo, contracts={}, config={})
                rel, pabs = z3.Const("relative", PathSort), z3.Const("parent_absolute", PathSort)
                me = self._hooks(ctx, rel, pabs, attr)
                I = Interp(ctx)
                unit = repo.unit("exceptions:_Error.%s" % attr)
                hashes += unit.source_hash()
                st = State()
                st.unit = unit
                st.ghost["parent_val"] = AbsErrObj("parent", False) if has_parent else lift(None)
                outs = I.run_unit(unit, st, [me], {})
                res["paths"] += len(outs)
                obls = list(ctx.obligations)
                for n, (s, ctl) in enumerate(outs):
                    nm = "%s/F/%s.%s#%d" % (self.name, attr, "child" if has_parent else "top-level", n + 1)
                    if ctl[0] != "return" or not isinstance(ctl[1], SeqV):
                        obls.append(core.Obligation(nm, "F", s.pc, z3.BoolVal(False), note="returns a path"))
                        continue
                    want = z3.Concat(pabs, rel) if has_parent else rel
                    obls.append(core.Obligation(nm, "F", s.pc, ctl[1].t == want,
                                                note="%s == %s" % (attr, "parent's absolute path ++ own relative path" if has_parent else "own relative path")))
                self.finish(res, ctx, obls)
        res["source_hash"] = hashes

    def _run_json_path(self, res):
        """json_path == '$' followed, for every element of the absolute path in order, by '[i]' for an
        integer and '.name' otherwise (loop invariant over the rendered prefix)"""
        repo = extract.Repo(self.root)
        ctx = Ctx(repo, contracts={"exceptions:_Error.absolute_path": AbsPathC()}, config={})
        seq = z3.Const("unused_path", PathSort)
        me = self._hooks(ctx, seq, seq, "json_path")
        unit = repo.unit("exceptions:_Error.json_path")
        res["function"], res["source_hash"] = unit.key, unit.source_hash()
        from pyvc.loops import loop_ordinal
        import ast as _ast
        loops = [n for n in _ast.walk(unit.node) if isinstance(n, _ast.For)]
        ctx.config["loop_invs"] = {(unit.key, loop_ordinal(unit, l)): RenderInv() for l in loops}
        I = Interp(ctx)
        st = State()
        st.unit = unit
        j = z3.Int("jj")
        st.pc.append(path_len >= 0)
        st.pc.append(z3.ForAll([j], z3.Implies(z3.And(0 <= j, j < path_len), smt.is_kind(path_at(j), K_INT, K_STR))))
        st.ghost["parent_val"] = lift(None)
        outs = I.run_unit(unit, st, [me], {})
        res["paths"] = len(outs)
        obls = list(ctx.obligations)
        for n, (s, ctl) in enumerate(outs):
            nm = "%s/F/render#%d" % (self.name, n + 1)
            if ctl[0] == "raise":
                obls.append(core.Obligation("%s/S/raise:%s#%d" % (self.name, ctl[1].cls, n + 1), "S", s.pc, False, note="json_path raises"))
                continue
            r = ctl[1]
            obls.append(core.Obligation(nm, "F", s.pc, (r.t == render(path_len)) if isinstance(r, SStr) else z3.BoolVal(False),
                                        note="json_path is the rendering of the whole absolute path"))
        self.finish(res, ctx, obls)


# ---------------------------------------------------------------------------------------------
# _Error.__init__: fields and parent links

ctx_elem = z3.Function("context_elem", smt.I, smt.I)     # object identity of the i-th context error
ctx_len = z3.Int("context_len")
ParSort = z3.ArraySort(smt.I, smt.I)                     # object identity -> identity of its `parent`


class HeapErr:
    """an existing error object, by identity"""
    def __init__(self, ident):
        self.ident = ident


class CtxSeq:
    """the `context` argument: a sequence of existing error objects"""


class CtxCopy:
    """list(context): a new list with the same elements in the same order"""


class SuperProxy:
    pass


class ParentInv(LoopInv):
    """after k iterations: the first k context errors have parent == self; every other object's parent
    is what it was"""
    def __init__(self, self_id, par0):
        self.self_id, self.par0 = self_id, par0

    def at(self, I, st, k, spec):
        j, o = z3.Int("jp"), z3.Int("op")
        me, par0 = self.self_id, self.par0

        def formula(s):
            par = s.ghost["par"]
            return z3.And(z3.ForAll([j], z3.Implies(z3.And(0 <= j, j < k), par[ctx_elem(j)] == me)),
                          z3.ForAll([o], z3.Or(par[o] == par0[o], par[o] == me)))

        def havoc(s):
            s.ghost["par"] = smt.fresh("par", ParSort)
        return {"env": {}, "formula": formula, "havoc": havoc}


FIELDS = ("message", "validator", "path", "cause", "context", "validator_value", "instance", "schema", "schema_path", "parent")


def _run_init(self, res):
    """_Error.__init__: every field holds the argument given for it (path / schema_path as fresh
    deques with the same elements, context as a list copy), relative_path is path, relative_schema_path
    is schema_path, and every error of `context` has parent == the new error afterwards; no other
    object's parent changes"""
    import ast as _ast
    from pyvc.loops import loop_ordinal
    repo = extract.Repo(self.root)
    unit = repo.unit("exceptions:_Error.__init__")
    res["function"], res["source_hash"] = unit.key, unit.source_hash()
    ctx = Ctx(repo, contracts={}, config={})
    st = State()
    st.unit = unit
    me = ObjVal("_Error", ctx.new_oid())
    self_id = z3.Int("self_id")
    par0 = z3.Const("par0", ParSort)
    st.ghost["par"] = par0
    j = z3.Int("jf")
    st.pc.append(ctx_len >= 0)
    st.pc.append(z3.ForAll([j], ctx_elem(j) != self_id))      # the new object is none of the existing ones
    args = {"message": Opaque("message", []), "validator": SV(z3.Const("a_validator", V)), "path": SeqV(z3.Const("a_path", PathSort)),
            "cause": Opaque("cause", []), "context": CtxSeq(), "validator_value": SV(z3.Const("a_validator_value", V)),
            "instance": SV(z3.Const("a_instance", V)), "schema": SV(z3.Const("a_schema", V)),
            "schema_path": SeqV(z3.Const("a_schema_path", PathSort)), "parent": HeapErr(z3.Int("a_parent"))}

    def builtin_hook(I, s, name, a, k, node):
        if name == "super":
            return [(s, SuperProxy())]
        if name == "collections.deque" and isinstance(a[0], SeqV):
            return [(s, SeqV(a[0].t))]
        if name == "list" and a and isinstance(a[0], CtxSeq):
            return [(s, CtxCopy())]
        return None

    def getattr_hook(I, s, obj, attr):
        if isinstance(obj, SuperProxy):
            return [(s, BoundMethod(obj, attr))]
        return None

    def method_hook(I, s, obj, name, a, k, node):
        if isinstance(obj, SuperProxy) and name == "__init__":
            return [(s, lift(None))]      # Exception.__init__ stores its arguments in .args only (trusted)
        return None

    def setattr_hook(I, s, obj, attr, v):
        if isinstance(obj, HeapErr):
            if attr != "parent" or not (isinstance(v, ObjVal) and v.oid == me.oid):
                raise OutOfSubset("write of %s on an existing error" % attr)
            s2 = s.fork()
            s2.ghost["par"] = z3.Store(s.ghost["par"], obj.ident, self_id)
            return [(s2, ("next", None))]
        return None

    def iter_hook(I, s, it):
        if isinstance(it, CtxSeq):
            return [(s, IterSpec(n=ctx_len, elem=lambda i: HeapErr(ctx_elem(i))))]
        return None
    loops = [n for n in _ast.walk(unit.node) if isinstance(n, _ast.For)]
    ctx.config.update(builtin_hook=builtin_hook, getattr_hook=getattr_hook, method_hook=method_hook, setattr_hook=setattr_hook, iter_hook=iter_hook,
                      loop_invs={(unit.key, loop_ordinal(unit, l)): ParentInv(self_id, par0) for l in loops})
    I = Interp(ctx)
    names, _ = unit.params()
    outs = I.run_unit(unit, st, [me] + [args[n] for n in names[1:]], {})
    res["paths"] = len(outs)
    obls = list(ctx.obligations)

    def same(got, want):
        if isinstance(want, SV):
            return isinstance(got, SV) and got.t.eq(want.t)
        if isinstance(want, SeqV):
            return isinstance(got, SeqV) and got is not want and got.t.eq(want.t)
        if isinstance(want, CtxSeq):
            return isinstance(got, CtxCopy)
        if isinstance(want, HeapErr):
            return isinstance(got, HeapErr) and got.ident.eq(want.ident)
        return got is want
    for n, (s, ctl) in enumerate(outs):
        if ctl[0] == "raise":
            obls.append(core.Obligation("%s/S/raise:%s#%d" % (self.name, ctl[1].cls, n + 1), "S", s.pc, False, note="_Error.__init__ raises"))
            continue
        for f in FIELDS:
            got = s.heap.get((me.oid, f))
            ok = got is not None and same(got, args[f])
            obls.append(core.Obligation("%s/F/field:%s#%d" % (self.name, f, n + 1), "F", s.pc, z3.BoolVal(bool(ok)),
                                        note="self.%s holds the %s argument%s" % (f, f, " (as a fresh copy)" if f in ("path", "schema_path", "context") else "")))
        for f, g in (("relative_path", "path"), ("relative_schema_path", "schema_path")):
            ok = s.heap.get((me.oid, f)) is s.heap.get((me.oid, g)) and s.heap.get((me.oid, f)) is not None
            obls.append(core.Obligation("%s/F/field:%s#%d" % (self.name, f, n + 1), "F", s.pc, z3.BoolVal(bool(ok)), note="self.%s is self.%s" % (f, g)))
        par = s.ghost["par"]
        i, o = z3.Int("ii"), z3.Int("oo")
        obls.append(core.Obligation("%s/F/parent-links#%d" % (self.name, n + 1), "F", s.pc,
                                    z3.ForAll([i], z3.Implies(z3.And(0 <= i, i < ctx_len), par[ctx_elem(i)] == self_id)),
                                    note="every error of context has parent == the new error"))
        obls.append(core.Obligation("%s/W/parent-frame#%d" % (self.name, n + 1), "W", s.pc,
                                    z3.ForAll([o], z3.Or(par[o] == par0[o], par[o] == self_id)),
                                    note="no object's parent changes except to the new error"))
    self.finish(res, ctx, obls)


ErrorPathTask._run_init = _run_init


class AbsPathC(core.Contract):
    key = "exceptions:_Error.absolute_path"
    seq = None

    def apply(self, I, st, args, kwargs, fref):
        return [(st, FnPath())]


def error_path_tasks(root, timeout_ms=10000):
    return [ErrorPathTask(root, "absolute", timeout_ms), ErrorPathTask(root, "json_path", timeout_ms), ErrorPathTask(root, "init", timeout_ms)]
