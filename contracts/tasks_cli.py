"""Verification tasks for the command line (C19): cli.run and cli._validate_instance over an abstract
outputter / file system; library calls through their contracts."""
import time
import traceback

import z3

from pyvc import smt, extract, tables as tables_mod
from pyvc.smt import V, kind, K_STR, K_NONE
from pyvc.values import *      # noqa
from pyvc.interp import State, Ctx, Interp, lift, Raised, branch, truth, add_lemma, EXC_PARENTS
from pyvc.loops import LoopInv, IterSpec
from contracts import core
from contracts.tasks_core import CoreTask
from contracts.tasks_entry import ClassVal, entry_hooks

fs_json = z3.Function("fs_is_json", V, smt.B)       # FS(path) = json(v): the file exists and parses
fs_value = z3.Function("fs_value", V, V)            # ... and v
path_at = z3.Function("instance_path_at", smt.I, V)


STDIN = z3.Const("stdin_content", V)


class AbsOutputter:
    pass


class AbsArgs:
    def __init__(self, explicit_cls, has_instances, has_base_uri):
        self.explicit_cls, self.has_instances, self.has_base_uri = explicit_cls, has_instances, has_base_uri


class AbsInstances:
    pass


def cli_hooks(ctx, vm, args, d):
    g0, m0, c0 = entry_hooks(ctx, vm, None)
    schema_path = SV(z3.Const("schema_path", V))
    n_inst = z3.Int("n_instances")

    def subscript_hook(I, st, obj, key):
        if isinstance(obj, AbsArgs):
            k = key.conc
            cur = st.ghost.get("args_set", {}).get(k)
            if cur is not None:
                return [(st, cur)]
            if k == "schema":
                return [(st, schema_path)]
            if k == "validator":
                return [(st, ClassVal(d) if obj.explicit_cls else lift(None))]
            if k == "instances":
                return [(st, AbsInstances() if obj.has_instances else lift(None))]
            if k == "base_uri":
                return [(st, SV(z3.Const("base_uri", V)) if obj.has_base_uri else lift(None))]
            if k in ("output", "error_format"):
                return [(st, SV(z3.Const("arg_" + k, V)))]
        return None

    def setitem_hook(I, st, obj, k, v):
        if isinstance(obj, AbsArgs):
            s = st.fork()
            a = dict(s.ghost.get("args_set", {}))
            a[k.conc] = v
            s.ghost["args_set"] = a
            return [(s, ("next", None))]
        return None

    def getattr_hook(I, st, obj, attr):
        if isinstance(obj, AbsOutputter):
            return [(st, BoundMethod(obj, attr))]
        if isinstance(obj, Builtin) and obj.name == "jsonschema.cli._Outputter":
            return [(st, BoundMethod(obj, attr))]
        return g0(I, st, obj, attr)

    def load_contract(I, st, path):
        ok = fs_json(path.t)
        s1, s2 = st.fork(), st.fork()
        s2.ghost["stderr_writes"] = s2.ghost.get("stderr_writes", ()) + (("diagnostic", path),)
        from pyvc.interp import assume
        outs = []
        a = assume(I.ctx, s1, ok)
        if a is not None:
            add_lemma(a, smt.isjson(fs_value(path.t)))
            outs.append((a, SV(fs_value(path.t))))
        b = assume(I.ctx, s2, z3.Not(ok))
        if b is not None:
            outs.append((b, Raised(ExcVal("_CannotLoadFile", {}, origin="load"))))
        return outs

    def method_hook(I, st, obj, name, args_, kwargs, node):
        if isinstance(obj, ClassRef) and obj.name == "_Outputter" and name == "from_arguments":
            return [(st, AbsOutputter())]
        if isinstance(obj, AbsOutputter):
            if name == "load":
                return load_contract(I, st, args_[0] if args_ else kwargs["path"])
            if name in ("validation_error", "validation_success", "parsing_error", "filenotfound_error"):
                s = st.fork()
                stream = "stdout_writes" if name == "validation_success" else "stderr_writes"
                s.ghost[stream] = s.ghost.get(stream, ()) + ((name, kwargs.get("instance_path"), kwargs.get("error")),)
                return [(s, lift(None))]
        return m0(I, st, obj, name, args_, kwargs, node)

    def call_hook(I, st, f, a, k, n):
        if isinstance(f, BoundMethod) and isinstance(f.obj, ClassRef) and f.obj.name == "_Outputter" and f.name == "from_arguments":
            return [(st, AbsOutputter())]
        if isinstance(f, ClassRef) and f.name == "RefResolver":
            s = st.fork()
            s.ghost["events"] = s.ghost.get("events", ()) + ("resolver-with-base-uri",)
            return [(s, ObjVal("RefResolver", I.ctx.new_oid()))]
        r = c0(I, st, f, a, k, n)
        if r is not None:
            return r
        base = I.ctx.config.get("call_hook_base")
        return base(I, st, f, a, k, n) if base else None

    def builtin_hook(I, st, name, a, k, node):
        if name == "json.load":
            # reading the single instance from standard input
            s1, s2 = st.fork(), st.fork()
            s1.ghost["events"] = s1.ghost.get("events", ()) + ("stdin",)
            s2.ghost["events"] = s2.ghost.get("events", ()) + ("stdin",)
            from pyvc.interp import assume
            outs = []
            x = assume(I.ctx, s1, fs_json(STDIN))
            if x is not None:
                add_lemma(x, smt.isjson(fs_value(STDIN)))
                outs.append((x, SV(fs_value(STDIN))))
            y = assume(I.ctx, s2, z3.Not(fs_json(STDIN)))
            if y is not None:
                outs.append((y, Raised(ExcVal("JSONDecodeError", {}, origin="json.load(stdin)"))))
            return outs
        if name == "sys.exc_info":
            return [(st, Opaque("exc_info"))]
        return None

    def iter_hook(I, st, it):
        if isinstance(it, AbsInstances):
            return [(st, IterSpec(n=n_inst, elem=lambda i: SV(path_at(i))))]
        return None

    def obj_truth(ctx_, st, x):
        return None

    ctx.config.update(subscript_hook=subscript_hook, setitem_hook=setitem_hook, getattr_hook=getattr_hook, method_hook=method_hook,
                      iter_hook=iter_hook, builtin_hook=builtin_hook)
    def construct_hook(I, st, cls, a, k, node):
        if cls == "RefResolver":
            s = st.fork()
            ok = set(k) == {"base_uri", "referrer"} and not a
            s.ghost["events"] = s.ghost.get("events", ()) + ("resolver-with-base-uri" if ok else "resolver-other",)
            return [(s, ObjVal("RefResolver", I.ctx.new_oid()))]
        return None
    ctx.config["construct_hook"] = construct_hook
    ctx.config["call_hook_base"] = ctx.config.get("call_hook")
    ctx.config["call_hook"] = call_hook
    return schema_path, n_inst


import pyvc.interp as _pi      # noqa: E402
_orig_truth = _pi.truth


def _truth(ctx, st, x):
    if isinstance(x, AbsInstances):
        return z3.Int("n_instances") > 0
    return _orig_truth(ctx, st, x)


class ExitInv(LoopInv):
    """exit_code == 1 iff some instance among the first k could not be loaded or was invalid"""

    def __init__(self, bad):
        self.bad = bad

    def at(self, I, st, k, spec):
        j = smt.fresh("j", smt.I)
        anybad = z3.Exists([j], z3.And(0 <= j, j < k, self.bad(j)))
        return {"env": {"exit_code": SV(smt.mk_int(z3.If(anybad, 1, 0)))}, "formula": k >= 0}


class CliTask(CoreTask):
    def __init__(self, root, which, timeout_ms=10000):
        CoreTask.__init__(self, root, 7, which, timeout_ms)
        self.name = "cli:%s" % which
        self.weight = 2

    def cache_key(self):
        from pyvc import driver
        extra = ""
        if self.which == "main":
            import hashlib
            import os as _os
            try:
                extra = hashlib.sha256(open(_os.path.join(self.root, "jsonschema", "__main__.py"), "rb").read()).hexdigest()[:12]
            except OSError:
                extra = "missing"
        return "cli|%s%s|%s|%s" % (self.name, extra, self.timeout_ms, driver.dep_hash(self.root, modules=("cli", "validators", "exceptions")))

    def _run_validate_instance(self, res):
        """_validate_instance: one validation_error call per error of iter_errors(instance), a
        validation_success call iff there is none; returns whether there was an error."""
        repo, ctx, st, vm, validator, I = self.setup()
        cli_hooks(ctx, vm, AbsArgs(True, True, False), 7)
        unit = repo.unit("cli:_validate_instance")
        res["function"], res["source_hash"] = unit.key, unit.source_hash()
        inst, ipath = SV(z3.Const("instance", V)), SV(z3.Const("instance_path", V))
        st.unit = unit
        st.pc.extend([smt.isjson(inst.t), core.WF[7](st.heap[(validator.oid, "schema")].t)])
        B = st.ghost["scope"]
        out = AbsOutputter()
        _pi.truth = _truth
        try:
            outs = I.run_unit(unit, st, [], {"instance_path": ipath, "instance": inst, "validator": validator, "outputter": out})
        finally:
            _pi.truth = _orig_truth
        res["paths"] = len(outs)
        obls = list(ctx.obligations)
        v = core.Vp(B, st.heap[(validator.oid, "schema")].t, inst.t)
        n = 0
        for s, ctl in outs:
            n += 1
            if ctl[0] == "raise":
                obls.append(core.Obligation("%s/S/raise:%s#%d" % (self.name, ctl[1].cls, n), "S", s.pc, False, note="_validate_instance raises"))
                continue
            succ = s.ghost.get("stdout_writes", ())
            obls.append(core.Obligation("%s/F/returns-invalid#%d" % (self.name, n), "F", s.pc, truth(ctx, s, ctl[1]) == z3.Not(v),
                                        note="returns True exactly when iter_errors(instance) is non-empty"))
            obls.append(core.Obligation("%s/F/success-iff-valid#%d" % (self.name, n), "F", s.pc, z3.BoolVal(len(succ) == 1) == v if len(succ) <= 1 else z3.BoolVal(False),
                                        note="validation_success is written exactly once when there is no error, never otherwise"))
        # one validation_error per error: structural (the loop body calls outputter.validation_error with the loop's error, unconditionally)
        import ast as _ast
        loops = [n_ for n_ in _ast.walk(unit.node) if isinstance(n_, _ast.For)]
        ok = len(loops) == 1 and _ast.unparse(loops[0].iter) == "validator.iter_errors(instance)" and \
            any(isinstance(b, _ast.Expr) and _ast.unparse(b.value) == "outputter.validation_error(instance_path=instance_path, error=error)" for b in loops[0].body) and \
            not any(isinstance(x, (_ast.Break, _ast.Continue, _ast.Return, _ast.If)) for b in loops[0].body for x in _ast.walk(b))
        obls.append(core.Obligation("%s/F/one-report-per-error" % self.name, "F", [], z3.BoolVal(bool(ok)),
                                    note="the loop over validator.iter_errors(instance) reports every error through outputter.validation_error, unconditionally"))
        self.finish(res, ctx, obls)

    def _run_run(self, res):
        """run(): status 0 iff the schema loads, passes check_schema, and every instance loads and is valid;
        schema problems return 1 before any instance is touched; every listed instance is processed."""
        d = 7
        n_total = 0
        for explicit, has_inst, has_base in ((True, True, False), (False, True, False), (True, True, True)):
            repo, ctx, st, vm, validator, I = self.setup()
            from contracts.tasks_entry import ValidatorForC
            # with --validator given, whatever validator_for would select is a different class: it must not be used
            ctx.contracts[ValidatorForC.key] = ValidatorForC(4 if explicit else d)
            schema_path, n_inst = cli_hooks(ctx, vm, AbsArgs(explicit, has_inst, has_base), d)
            unit = repo.unit("cli:run")
            res["function"], res["source_hash"] = unit.key, unit.source_hash()
            st.unit = unit
            st.pc.append(n_inst >= 0)
            if has_base:
                st.pc.append(kind(z3.Const("base_uri", V)) == K_STR)
            B = st.ghost["scope"]
            schema_t = fs_value(schema_path.t)

            def bad(j, schema_t=schema_t, B=B):
                p = path_at(j)
                return z3.Or(z3.Not(fs_json(p)), z3.Not(core.Vp(B, schema_t, fs_value(p))))
            from pyvc.loops import loop_ordinal
            import ast as _ast
            main_loops = [n_ for n_ in _ast.walk(unit.node) if isinstance(n_, _ast.For)]
            ctx.config["loop_invs"] = {(unit.key, loop_ordinal(unit, l)): ExitInv(bad) for l in main_loops}
            args = AbsArgs(explicit, has_inst, has_base)
            _pi.truth = _truth
            import pyvc.loops as _pl
            _pl.truth = _truth
            try:
                outs = I.run_unit(unit, st, [args], {"stdout": Opaque("stdout"), "stderr": Opaque("stderr"), "stdin": Opaque("stdin")})
            finally:
                _pi.truth = _orig_truth
                _pl.truth = _orig_truth
            res["paths"] += len(outs)
            obls = list(ctx.obligations)
            tag = "%s-cls%s" % ("explicit" if explicit else "selected", "+base-uri" if has_base else "")
            schema_ok = z3.And(fs_json(schema_path.t), core.WF[d](schema_t))
            j = smt.fresh("j", smt.I)
            all_good = z3.Not(z3.Exists([j], z3.And(0 <= j, j < n_inst, bad(j))))
            for s, ctl in outs:
                n_total += 1
                if ctl[0] == "raise":
                    obls.append(core.Obligation("%s/S/%s.raise:%s@%s#%d" % (self.name, tag, ctl[1].cls, getattr(ctl[1], "origin", ""), n_total), "S", s.pc, False,
                                                note="run() lets %s escape" % ctl[1].cls))
                    continue
                code = ctl[1]
                from pyvc.interp import to_sv
                ct = to_sv(code).t
                zero = z3.And(smt.is_numeric(ct), smt.num(ct) == 0)
                ev = s.ghost.get("events", ())
                good = all_good
                if "stdin" in ev:
                    good = z3.And(n_inst == 0, fs_json(STDIN), core.Vp(B, schema_t, fs_value(STDIN)))
                elif "construct" in ev:
                    good = z3.And(n_inst > 0, all_good)
                obls.append(core.Obligation("%s/F/%s.status#%d" % (self.name, tag, n_total), "F", s.pc, zero == z3.And(schema_ok, good),
                                            note="exit status 0 exactly when the schema loads, passes check_schema, and every instance loads and is valid"))
                if "construct" not in ev:
                    obls.append(core.Obligation("%s/F/%s.early-exit#%d" % (self.name, tag, n_total), "F", s.pc, z3.And(z3.Not(schema_ok), z3.Not(zero)),
                                                note="a return before the validator is constructed happens only for a missing/unparsable/invalid schema, with a non-zero status"))
                if "construct" in ev:
                    obls.append(core.Obligation("%s/F/%s.class#%d" % (self.name, tag, n_total), "F", s.pc, z3.BoolVal(s.ghost.get("constructed_d") == d),
                                                note="instances are validated with the class given by --validator, or else the one selected from $schema"))
                if has_base:
                    obls.append(core.Obligation("%s/F/%s.base-uri#%d" % (self.name, tag, n_total), "F", s.pc,
                                                z3.BoolVal("construct" not in ev or "resolver-with-base-uri" in ev),
                                                note="--base-uri builds the resolver with that base URI and the schema as referrer"))
            # every listed instance is processed: the loop over instances has no break / return and catches _CannotLoadFile inside
            for l in main_loops:
                ok = not any(isinstance(x, (_ast.Break, _ast.Return)) for b in l.body for x in _ast.walk(b))
                obls.append(core.Obligation("%s/F/%s.no-early-exit-from-loop" % (self.name, tag), "F", [], z3.BoolVal(ok),
                                            note="the loop over the instances has no break or return: every listed instance is processed"))
            self.finish(res, ctx, obls)


def cli_tasks(root, timeout_ms=10000):
    return [CliTask(root, "validate_instance", timeout_ms), CliTask(root, "run", timeout_ms)]


# ---- _Outputter (the contract assumed by cli.run above, proved of the real methods) ------------------
class AbsStream:
    def __init__(self, name):
        self.name = name


class AbsFormatter:
    pass


class FileV:
    def __init__(self, path):
        self.path = path


def outputter_task_run(self, res):
    """_Outputter.load(path): FS(path)=json(v) -> returns v; file missing (ENOENT) -> exactly one
    filenotfound diagnostic on stderr, then _CannotLoadFile; not JSON -> exactly one parsing diagnostic
    on stderr, then _CannotLoadFile; any other OSError propagates.  validation_error / parsing_error /
    filenotfound_error write exactly one formatter result to stderr, validation_success to stdout."""
    repo = extract.Repo(self.root)
    res["function"] = "cli:_Outputter.{load,validation_error,validation_success,parsing_error,filenotfound_error}"
    hashes = ""
    fs_missing = z3.Function("fs_missing", V, smt.B)
    for meth in ("load", "validation_error", "validation_success", "parsing_error", "filenotfound_error"):
        ctx = Ctx(repo, contracts={}, config={})
        this = ObjVal("_Outputter", ctx.new_oid())
        path = SV(z3.Const("path", V))

        def getattr_hook(I, st, obj, attr):
            if isinstance(obj, ObjVal) and obj.cls == "_Outputter":
                if attr == "_stderr":
                    return [(st, AbsStream("stderr"))]
                if attr == "_stdout":
                    return [(st, AbsStream("stdout"))]
                if attr == "_formatter":
                    return [(st, AbsFormatter())]
                return [(st, BoundMethod(obj, attr))]
            if isinstance(obj, (AbsStream, AbsFormatter)):
                return [(st, BoundMethod(obj, attr))]
            if isinstance(obj, ModuleRef) and obj.name == "errno" and attr == "ENOENT":
                return [(st, lift(2))]
            return None

        def method_hook(I, st, obj, name, a, k, node):
            if isinstance(obj, AbsFormatter):
                return [(st, Opaque("formatted:" + name, list(k.values())))]
            if isinstance(obj, AbsStream) and name == "write":
                s = st.fork()
                s.ghost["stream_writes"] = s.ghost.get("stream_writes", ()) + ((obj.name, a[0]),)
                return [(s, lift(None))]
            return None

        def builtin_hook(I, st, name, a, k, node):
            if name == "open":
                p = a[0]
                outs = []
                from pyvc.interp import assume
                ok = assume(I.ctx, st.fork(), z3.Not(fs_missing(p.t)))
                if ok is not None:
                    outs.append((ok, FileV(p)))
                    other = ok.fork()
                    outs.append((other, Raised(ExcVal("OSError", {"errno": SV(z3.Const("other_errno", V))}, origin="open: other OS error"))))
                miss = assume(I.ctx, st.fork(), fs_missing(p.t))
                if miss is not None:
                    outs.append((miss, Raised(ExcVal("OSError", {"errno": lift(2)}, origin="open: ENOENT"))))
                return outs
            if name == "json.load":
                f = a[0]
                from pyvc.interp import assume
                outs = []
                x = assume(I.ctx, st.fork(), fs_json(f.path.t))
                if x is not None:
                    outs.append((x, SV(fs_value(f.path.t))))
                y = assume(I.ctx, st.fork(), z3.Not(fs_json(f.path.t)))
                if y is not None:
                    outs.append((y, Raised(ExcVal("JSONDecodeError", {}, origin="json.load"))))
                return outs
            if name == "sys.exc_info":
                return [(st, Opaque("exc_info"))]
            return None

        def with_hook(I, node, st):
            outs = []
            for s, v in I.eval(node.items[0].context_expr, st):
                for s2, ctl in I.exec_block(node.body, s):
                    s3 = s2.fork()
                    s3.ghost["closed"] = s3.ghost.get("closed", 0) + 1
                    outs.append((s3, ctl))
            return outs
        ctx.config.update(getattr_hook=getattr_hook, method_hook=method_hook, builtin_hook=builtin_hook, with_hook=with_hook)
        I = Interp(ctx)
        unit = repo.unit("cli:_Outputter.%s" % meth)
        hashes += unit.source_hash()
        st = State()
        st.unit = unit
        st.pc.extend([kind(path.t) == K_STR, kind(z3.Const("other_errno", V)) == smt.K_INT, smt.ival(z3.Const("other_errno", V)) != 2])
        if meth == "load":
            outs = I.run_unit(unit, st, [this, path], {})
        else:
            kw = {"instance_path": path, "error": Opaque("error")} if meth.startswith("validation") else {"path": path, "exc_info": Opaque("exc_info")}
            if meth == "validation_success":
                kw = {"instance_path": path}
            outs = I.run_unit(unit, st, [this], kw)
        res["paths"] += len(outs)
        obls = list(ctx.obligations)
        n = 0
        for s, ctl in outs:
            n += 1
            w = s.ghost.get("stream_writes", ())
            nm = "%s/F/%s#%d" % (self.name, meth, n)
            if meth != "load":
                stream = "stdout" if meth == "validation_success" else "stderr"
                ok = ctl[0] == "return" and len(w) == 1 and w[0][0] == stream and isinstance(w[0][1], Opaque) and w[0][1].tag == "formatted:" + meth
                obls.append(core.Obligation(nm, "F", s.pc, z3.BoolVal(bool(ok)), note="%s writes exactly the formatter's %s text to %s" % (meth, meth, stream)))
                continue
            if ctl[0] == "return":
                r = ctl[1]
                obls.append(core.Obligation(nm, "F", s.pc, z3.And(z3.Not(fs_missing(path.t)), fs_json(path.t), r.t == fs_value(path.t), z3.BoolVal(len(w) == 0 and s.ghost.get("closed", 0) == 1))
                                            if isinstance(r, SV) else z3.BoolVal(False), note="returns the parsed value, writes nothing, closes the file"))
            elif ctl[1].cls == "_CannotLoadFile":
                one = len(w) == 1 and w[0][0] == "stderr"
                tag = w[0][1].tag if one and isinstance(w[0][1], Opaque) else ""
                goal = z3.And(z3.BoolVal(bool(one)), z3.If(fs_missing(path.t), z3.BoolVal(tag == "formatted:filenotfound_error"),
                                                           z3.And(z3.Not(fs_json(path.t)), z3.BoolVal(tag == "formatted:parsing_error" and s.ghost.get("closed", 0) == 1))))
                obls.append(core.Obligation(nm, "F", s.pc, goal, note="_CannotLoadFile after exactly one diagnostic on stderr: file-not-found for a missing file, parsing error for unparsable content"))
            else:
                obls.append(core.Obligation(nm, "F", s.pc, z3.And(z3.BoolVal(ctl[1].cls == "OSError" and len(w) == 0), z3.Not(fs_missing(path.t))),
                                            note="only an OS error other than ENOENT propagates (no diagnostic)"))
        self.finish(res, ctx, obls)
    res["source_hash"] = hashes


CliTask._run_outputter = outputter_task_run
_old_cli_tasks = cli_tasks


def cli_tasks(root, timeout_ms=10000):      # noqa: F811
    return _old_cli_tasks(root, timeout_ms) + [CliTask(root, "outputter", timeout_ms)]


# ---------------------------------------------------------------------------------------------------
# cli.main: the process exit status is what run() returns

class _ParsedArgs:
    pass


def main_task_run(self, res):
    """main(args): parse_args(args) is handed to run() and the process exits through sys.exit with exactly the status run()
    returns (never returns normally, never swallows the status); __main__.py does nothing but call main()"""
    import ast as _ast
    repo = extract.Repo(self.root)
    unit = repo.unit("cli:main")
    res["function"], res["source_hash"] = unit.key, unit.source_hash()
    ctx = Ctx(repo, contracts={}, config={})
    code = SV(z3.Const("status_of_run", V))
    parsed = _ParsedArgs()
    given = SV(z3.Const("argv", V))
    calls = []

    class RunC(core.Contract):
        key = "cli:run"

        def apply(self, I, st, a, k, fref):
            calls.append(("run", a, k))
            return [(st, code)]

    class ParseC(core.Contract):
        key = "cli:parse_args"

        def apply(self, I, st, a, k, fref):
            calls.append(("parse_args", a, k))
            return [(st, parsed)]
    ctx.contracts[RunC.key], ctx.contracts[ParseC.key] = RunC(), ParseC()

    def builtin_hook(I, st, name, a, k, node):
        if name == "sys.exit":
            v = a[0] if a else lift(None)
            return [(st, Raised(ExcVal("SystemExit", {"code": v}, origin="sys.exit")))]
        return None
    ctx.config["builtin_hook"] = builtin_hook
    I = Interp(ctx)
    st = State()
    st.unit = unit
    outs = I.run_unit(unit, st, [given], {})
    res["paths"] = len(outs)
    obls = list(ctx.obligations)
    for n, (s, ctl) in enumerate(outs):
        nm = "%s/F/exit#%d" % (self.name, n + 1)
        ok = ctl[0] == "raise" and ctl[1].cls == "SystemExit" and ctl[1].fields.get("code") is code
        runs = [c for c in calls if c[0] == "run"]
        parses = [c for c in calls if c[0] == "parse_args"]
        ok = ok and len(runs) == 1 and len(parses) == 1
        if ok:
            ra = list(runs[0][1]) + list(runs[0][2].values())
            pa = list(parses[0][1]) + list(parses[0][2].values())
            ok = len(ra) == 1 and ra[0] is parsed and len(pa) == 1 and pa[0] is given
        obls.append(core.Obligation(nm, "F", s.pc, z3.BoolVal(bool(ok)),
                                    note="main exits through sys.exit(run(parse_args(args))): the status is exactly what run returned"))
    self.finish(res, ctx, obls)
    # __main__.py (module-level code, not a function): imports main and calls it
    try:
        import os as _os
        src = open(_os.path.join(self.root, "jsonschema", "__main__.py")).read()
        body = [n for n in _ast.parse(src).body if not (isinstance(n, _ast.Expr) and isinstance(n.value, _ast.Constant))]
        ok = len(body) == 2 and _ast.unparse(body[0]) == "from jsonschema.cli import main" and _ast.unparse(body[1]) == "main()"
    except Exception:      # noqa
        ok = False
    res["obligations"].append({"name": "%s/T/__main__" % self.name, "kind": "T", "status": "discharged" if ok else "failed", "solver": "tables",
                               "note": "python -m jsonschema runs cli.main() and nothing else"})


CliTask._run_main = main_task_run
_old_cli_tasks2 = cli_tasks


def cli_tasks(root, timeout_ms=10000):      # noqa: F811
    return _old_cli_tasks2(root, timeout_ms) + [CliTask(root, "main", timeout_ms)]


# ---------------------------------------------------------------------------------------------------
# cli.parse_args: the repository's own post-processing of argparse's result

class _ArgsDict:
    """vars(parser.parse_args(...)): `output` is "plain" or "pretty" (argparse choices), `error_format` is None or a string"""


def parse_args_task_run(self, res):
    """parse_args: an --error-format given by the user is kept as it is (also the empty string); the default template is
    filled in exactly when none was given and the output is plain; a non-empty --error-format with --output pretty is a
    usage error; nothing else of argparse's result is touched"""
    repo = extract.Repo(self.root)
    unit = repo.unit("cli:parse_args")
    res["function"], res["source_hash"] = unit.key, unit.source_hash()
    ctx = Ctx(repo, contracts={}, config={})
    out_ = SV(z3.Const("arg_output", V))
    ef = SV(z3.Const("arg_error_format", V))
    d = _ArgsDict()

    def builtin_hook(I, st, name, a, k, node):
        if name == "vars":
            return [(st, d)]
        return None

    def global_hook(m, name):
        if m == "cli" and name == "parser":
            return Opaque("parser", [])
        return None

    def method_hook(I, st, obj, name, a, k, node):
        if isinstance(obj, Opaque) and obj.tag == "parser":
            if name == "parse_args":
                return [(st, Opaque("namespace", []))]
            if name == "error":
                return [(st, Raised(ExcVal("SystemExit", {"code": lift(2)}, origin="parser.error")))]      # argparse: prints usage, exits 2
        return None

    def getattr_hook(I, st, obj, attr):
        if isinstance(obj, Opaque) and obj.tag == "parser":
            return [(st, BoundMethod(obj, attr))]
        return None

    def subscript_hook(I, st, obj, key):
        if isinstance(obj, _ArgsDict) and isinstance(key, SV) and key.known:
            cur = st.ghost.get("args_set", {}).get(key.conc)
            if cur is not None:
                return [(st, cur)]
            if key.conc == "output":
                return [(st, out_)]
            if key.conc == "error_format":
                return [(st, ef)]
        return None

    def setitem_hook(I, st, obj, k, v):
        if isinstance(obj, _ArgsDict) and isinstance(k, SV) and k.known:
            s = st.fork()
            a = dict(s.ghost.get("args_set", {}))
            a[k.conc] = v
            s.ghost["args_set"] = a
            return [(s, ("next", None))]
        return None
    ctx.config.update(builtin_hook=builtin_hook, global_hook=global_hook, method_hook=method_hook, getattr_hook=getattr_hook,
                      subscript_hook=subscript_hook, setitem_hook=setitem_hook)
    I = Interp(ctx)
    st = State()
    st.unit = unit
    plain = z3.And(kind(out_.t) == K_STR, smt.sval(out_.t) == z3.StringVal("plain"))
    pretty = z3.And(kind(out_.t) == K_STR, smt.sval(out_.t) == z3.StringVal("pretty"))
    none = kind(ef.t) == smt.K_NONE
    st.pc.extend([z3.Or(plain, pretty), z3.Or(none, kind(ef.t) == K_STR)])
    outs = I.run_unit(unit, st, [SV(z3.Const("argv", V))], {})
    res["paths"] = len(outs)
    obls = list(ctx.obligations)
    nonempty = z3.And(kind(ef.t) == K_STR, z3.Length(smt.sval(ef.t)) > 0)
    for n, (s, ctl) in enumerate(outs):
        nm = "%s/F/%d" % (self.name, n + 1)
        if ctl[0] == "raise":
            ok = ctl[1].cls == "SystemExit"
            obls.append(core.Obligation(nm + ".usage-error", "F", s.pc, z3.And(z3.BoolVal(bool(ok)), pretty, nonempty),
                                        note="a usage error exactly for a non-empty --error-format with --output pretty"))
            continue
        sets = s.ghost.get("args_set", {})
        ok_ret = ctl[1] is d and set(sets) <= {"error_format"}
        obls.append(core.Obligation(nm + ".returns-arguments", "F", s.pc, z3.And(z3.BoolVal(bool(ok_ret)), z3.Not(z3.And(pretty, nonempty))),
                                    note="returns argparse's dictionary, touching at most error_format; not for a non-empty format with pretty output"))
        if "error_format" in sets:
            v = sets["error_format"]
            isdef = isinstance(v, SV) and v.known and isinstance(v.conc, str) and "{error.message}" in v.conc
            obls.append(core.Obligation(nm + ".default-format", "F", s.pc, z3.And(z3.BoolVal(bool(isdef)), plain, none),
                                        note="the default template is filled in only when no --error-format was given and the output is plain"))
        else:
            obls.append(core.Obligation(nm + ".format-kept", "F", s.pc, z3.Not(z3.And(plain, none)),
                                        note="a given --error-format (the empty string included) is kept; it stays None only for pretty output"))
    self.finish(res, ctx, obls)


CliTask._run_parse_args = parse_args_task_run
_old_cli_tasks3 = cli_tasks


def cli_tasks(root, timeout_ms=10000):      # noqa: F811
    return _old_cli_tasks3(root, timeout_ms) + [CliTask(root, "parse_args", timeout_ms)]
