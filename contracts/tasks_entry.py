"""Verification tasks for the entry points (C04, C11): module-level validate, check_schema,
SchemaError.create_from / _contents."""
import time
import traceback

import z3

from pyvc import smt, extract, tables as tables_mod
from pyvc.smt import V, kind, K_STR
from pyvc.values import *      # noqa
from pyvc.interp import State, Ctx, Interp, lift, Raised, branch, truth
from spec import drafts
from contracts import core
from contracts.tasks_core import CoreTask


class ClassVal:
    """A validator class of draft d (the value of DraftNValidator / of validator_for's result)."""
    def __init__(self, d):
        self.d = d

    def __repr__(self):
        return "ClassVal(draft%d)" % self.d


def entry_hooks(ctx, vm, events):
    d = vm.d

    def getattr_hook(I, st, obj, attr):
        if isinstance(obj, ClassVal):
            if attr == "META_SCHEMA":
                from spec.ops import lift_json
                return [(st, lift_json(I.repo.schemas[obj.d]))]
            return [(st, BoundMethod(obj, attr))]
        return None

    def method_hook(I, st, obj, name, args, kwargs, node):
        if isinstance(obj, ClassVal) and name == "check_schema":
            if len(args) != 1 or kwargs:
                # the callee's contract is check_schema(schema): anything else is outside it
                ob = core.Obligation("%s/P/check_schema.signature#%d" % (st.unit.key, I.ctx.new_oid()), "P", st.pc, z3.BoolVal(False),
                                     note="check_schema is called with exactly the schema (got %d positional, keywords %s)" % (len(args), sorted(kwargs)))
                I.ctx.obligations.append(ob)
            sch = args[0]
            s1, s2 = st.fork(), st.fork()
            s1.ghost["events"] = s1.ghost.get("events", ()) + ("check_schema:ok",)
            s2.ghost["events"] = s2.ghost.get("events", ()) + ("check_schema:raise",)
            wf = core.WF[obj.d](sch.t)
            return branch(I.ctx, st, []) or [x for x in (
                _assume(I, s1, wf, lift(None)), _assume(I, s2, z3.Not(wf), Raised(ExcVal("SchemaError", {}, origin="check_schema")))) if x]
        return None

    def call_hook(I, st, f, args, kwargs, node):
        if isinstance(f, ClassVal):
            # cls(schema, *args, **kwargs): a new validator (own resolver) for that schema
            s = st.fork()
            s.ghost["events"] = s.ghost.get("events", ()) + ("construct",)
            s.ghost["constructed_d"] = f.d
            s.heap[(vm.validator.oid, "schema")] = args[0]
            if kwargs or len(args) > 1:
                s.ghost["ctor_extra"] = True
            return [(s, vm.validator)]
        return None

    return getattr_hook, method_hook, call_hook


def _assume(I, s, cond, payload):
    from pyvc.interp import assume
    s2 = assume(I.ctx, s, cond)
    return (s2, payload) if s2 is not None else None


class BestMatchC(core.Contract):
    """exceptions.best_match(errors): None iff errors is empty; otherwise an error from the context
    closure of `errors` whose own context is empty (proved of its body by the best_match task)."""
    key = "exceptions:best_match"

    def apply(self, I, st, args, kwargs, fref):
        seq = args[0]
        if not isinstance(seq, Seq):
            raise OutOfSubset("best_match of %r" % (seq,))
        emp = seq_empty(seq)
        s_none, s_some = st.fork(), st.fork()
        oid = I.ctx.new_oid()
        s_some.heap[oid] = ErrVal(base=ErrElem(seq, first=False))
        s_some.ghost["best_of"] = seq
        return [x for x in (_assume(I, s_none, emp, lift(None)), _assume(I, s_some, z3.Not(emp), ErrRef(oid))) if x]


class ValidatorForC(core.Contract):
    """validator_for(schema): the class selected by $schema (C20); here: *some* registered class"""
    key = "validators:validator_for"

    def __init__(self, d):
        self.d = d

    def apply(self, I, st, args, kwargs, fref):
        return [(st, ClassVal(self.d))]


class EntryTask(CoreTask):
    def __init__(self, root, d, which, timeout_ms=10000):
        CoreTask.__init__(self, root, d, which, timeout_ms)
        self.name = "entry:%s@draft%d" % (which, d)
        self.weight = 2

    def cache_key(self):
        from pyvc import driver
        return "entry|%s|%s|%s" % (self.name, self.timeout_ms, driver.dep_hash(self.root, modules=("validators", "exceptions"), drafts=(self.d,)))

    def _run_module_validate(self, res):
        d = self.d
        for explicit in (True, False, "format_checker"):
            repo, ctx, st, vm, validator, I = self.setup()
            g, m, c = entry_hooks(ctx, vm, None)
            ctx.config["getattr_hook"], ctx.config["method_hook"] = g, m
            base_call = ctx.config.get("call_hook")
            ctx.config["call_hook"] = lambda I_, st_, f, a, k, n, c=c, b=base_call: (c(I_, st_, f, a, k, n) or (b(I_, st_, f, a, k, n) if b else None))
            ctx.contracts[BestMatchC.key] = BestMatchC()
            # with an explicit cls, whatever validator_for would select is a DIFFERENT class: it must not be used
            ctx.contracts[ValidatorForC.key] = ValidatorForC(d if not explicit else (4 if d != 4 else 7))
            unit = repo.unit("validators:validate")
            res["function"] = "validators:validate"
            res["source_hash"] = unit.source_hash()
            instance, schema = SV(z3.Const("instance", V)), SV(z3.Const("schema", V))
            st.pc.extend([smt.isjson(instance.t), smt.isjson(schema.t)])
            st.unit = unit
            B = st.ghost["scope"]
            kwargs = {"cls": ClassVal(d)} if explicit else {}
            if explicit == "format_checker":
                # extra keyword arguments go to the validator's constructor only; check_schema still gets exactly the schema
                kwargs["format_checker"] = Opaque("format_checker", [])
            outs = I.run_unit(unit, st, [instance, schema], kwargs)
            res["paths"] += len(outs)
            obls = list(ctx.obligations)
            wf = core.WF[d](schema.t)
            v = core.Vp(B, schema.t, instance.t)
            n = 0
            tag = "with-format-checker" if explicit == "format_checker" else ("explicit-cls" if explicit else "cls-from-$schema")
            for s, ctl in outs:
                n += 1
                ev = s.ghost.get("events", ())
                if explicit == "format_checker" and not (ctl[0] == "raise" and getattr(ctl[1], "cls", "") == "SchemaError"):
                    # verdicts with a format checker are C12's; here only: the checker reaches the constructor
                    obls.append(core.Obligation("%s/F/%s.checker-to-constructor#%d" % (self.name, tag, n), "F", s.pc,
                                                z3.BoolVal(bool(s.ghost.get("ctor_extra")) and "construct" in ev),
                                                note="extra keyword arguments are handed to the validator's constructor"))
                    continue
                if ctl[0] == "raise" and getattr(ctl[1], "cls", "") == "SchemaError":
                    ok_order = "construct" not in ev
                    obls.append(core.Obligation("%s/F/%s.schema-error#%d" % (self.name, tag, n), "F", s.pc,
                                                z3.And(z3.Not(wf), z3.BoolVal(ok_order)),
                                                note="SchemaError exactly when check_schema rejects, raised before the validator is constructed or the instance looked at"))
                elif ctl[0] == "raise":
                    exc = ctl[1]
                    isbest = isinstance(exc, ErrVal) and isinstance(exc.base, ErrElem) and s.ghost.get("best_of") is not None
                    obls.append(core.Obligation("%s/F/%s.raises-best#%d" % (self.name, tag, n), "F", s.pc,
                                                z3.And(wf, z3.Not(v), z3.BoolVal(bool(isbest))),
                                                note="raises best_match(iter_errors(instance)) exactly when the schema is accepted and iter_errors is non-empty"))
                else:
                    obls.append(core.Obligation("%s/F/%s.returns#%d" % (self.name, tag, n), "F", s.pc, z3.And(wf, v),
                                                note="returns normally only for an accepted schema and an instance without errors"))
                if s.ghost.get("ctor_extra"):
                    pass
            self.finish(res, ctx, obls)

    def _run_check_schema(self, res):
        """check_schema(schema): raises SchemaError.create_from(first error of cls(META).iter_errors(schema))
        iff that iteration is non-empty; nothing else (C04, C11)."""
        d = self.d
        repo, ctx, st, vm, validator, I = self.setup()
        g, m, c = entry_hooks(ctx, vm, None)
        base_call = ctx.config.get("call_hook")
        ctx.config["getattr_hook"] = g
        ctx.config["call_hook"] = lambda I_, st_, f, a, k, n, c=c, b=base_call: (c(I_, st_, f, a, k, n) or (b(I_, st_, f, a, k, n) if b else None))
        ctx.contracts["exceptions:_Error.create_from"] = CreateFromC()
        unit = repo.unit("validators:create.Validator.check_schema")
        res["function"] = unit.key
        res["source_hash"] = unit.source_hash()
        schema = SV(z3.Const("candidate", V))
        st.pc.append(smt.isjson(schema.t))
        st.unit = unit
        st.closure = ctx.config["create_closure"]
        B = st.ghost["scope"]
        # the sub-validation here is META validating the candidate: its precondition wf_d(META) is a
        # ground fact about the bundled file, checked by the executable spec in the table obligations
        from spec.ops import lift_json
        meta = lift_json(repo.schemas[d])
        from pyvc.interp import add_lemma
        add_lemma(st, core.WF[d](meta.t))
        outs = I.run_unit(unit, st, [ClassVal(d), schema], {})
        res["paths"] = len(outs)
        obls = list(ctx.obligations)
        vmeta = core.Vp(B, meta.t, schema.t)
        n = 0
        for s, ctl in outs:
            n += 1
            if ctl[0] == "raise":
                exc = ctl[1]
                ok = isinstance(exc, ErrVal) and exc.cls == "SchemaError" and s.ghost.get("created_from_first")
                obls.append(core.Obligation("%s/F/raises#%d" % (self.name, n), "F", s.pc, z3.And(z3.Not(vmeta), z3.BoolVal(bool(ok))),
                                            note="raises SchemaError.create_from(first metaschema error) exactly when the metaschema rejects the candidate"))
            else:
                obls.append(core.Obligation("%s/F/returns#%d" % (self.name, n), "F", s.pc, vmeta,
                                            note="returns normally exactly when the candidate satisfies the bundled metaschema"))
        self.finish(res, ctx, obls)

    def _run_create_from(self, res):
        """_Error.create_from(other) / _contents(): a new error of the receiving class carrying the same
        message, cause, context, keyword, value, paths, instance, schema and parent (C04)."""
        repo, ctx, st, vm, validator, I = self.setup()
        unit = repo.unit("exceptions:_Error.create_from")
        res["function"] = unit.key
        res["source_hash"] = unit.source_hash() + repo.unit("exceptions:_Error._contents").source_hash()
        oid = ctx.new_oid()
        names = ("message", "cause", "validator", "validator_value", "instance", "schema", "parent")
        src = {nm: SV(z3.Const("f_" + nm, V)) for nm in names}
        pe, spe = SV(z3.Const("p0", V)), SV(z3.Const("sp0", V))
        src.update(path=PathV(front=(pe,)), schema_path=PathV(front=(spe,)), context=NIL)
        st.heap[oid] = ErrVal("ValidationError", None, src)
        st.unit = unit
        ctx.config["getattr_hook"] = None
        outs = I.run_unit(unit, st, [ClassRef("SchemaError"), ErrRef(oid)], {})
        res["paths"] = len(outs)
        obls = list(ctx.obligations)
        n = 0
        for s, ctl in outs:
            n += 1
            if ctl[0] == "raise":
                obls.append(core.Obligation("%s/S/raise:%s" % (self.name, ctl[1].cls), "S", s.pc, False, note="create_from raises"))
                continue
            r = ctl[1]
            e = s.heap[r.oid] if isinstance(r, ErrRef) else None
            goals, ok = [], e is not None and e.cls == "SchemaError"
            if ok:
                for nm in names:
                    got = e.fields.get(nm)
                    if isinstance(got, SV):
                        goals.append(got.t == src[nm].t)
                    else:
                        ok = False
                for pf, el in (("path", pe), ("schema_path", spe)):
                    got = e.fields.get(pf)
                    if isinstance(got, PathV) and len(got.front) == 1 and not got.back and got.base is None and isinstance(got.front[0], SV):
                        goals.append(got.front[0].t == el.t)
                    else:
                        ok = False
            obls.append(core.Obligation("%s/F/copies-fields#%d" % (self.name, n), "F", s.pc, z3.And(goals) if ok else z3.BoolVal(False),
                                        note="SchemaError.create_from(e) carries e's message, cause, keyword, value, instance, schema, parent, path, schema_path"))
        self.finish(res, ctx, obls)


class CreateFromC(core.Contract):
    """SchemaError.create_from(error): a SchemaError with the same fields (proved by the create_from task)"""
    key = "exceptions:_Error.create_from"

    def apply(self, I, st, args, kwargs, fref):
        cls, other = args[0], args[1]
        s = st.fork()
        src = s.heap[other.oid]
        oid = I.ctx.new_oid()
        s.heap[oid] = ErrVal(cls.name if isinstance(cls, ClassRef) else "SchemaError", src.base, src.fields, src.setif)
        if isinstance(src.base, ErrElem) and src.base.first:
            s.ghost["created_from_first"] = True
        return [(s, ErrRef(oid))]


def entry_tasks(root, timeout_ms=10000):
    out = []
    for d in drafts.DRAFTS:
        out.append(EntryTask(root, d, "module_validate", timeout_ms))
        out.append(EntryTask(root, d, "check_schema", timeout_ms))
    out.append(EntryTask(root, 7, "create_from", timeout_ms))
    return out


# ---------------------------------------------------------------------------------------------
# best_match over an abstract model of error objects

from pyvc.loops import WhileInv      # noqa: E402

in_top = z3.Function("bm_in_top", V, smt.B)          # e is one of the errors handed to best_match
closure = z3.Function("bm_closure", V, smt.B)        # e is in the transitive context closure of those
ctx_nonempty = z3.Function("bm_ctx_nonempty", V, smt.B)
in_ctx = z3.Function("bm_in_ctx", V, V, smt.B)       # c is an element of e.context
depth = z3.Function("bm_depth", V, smt.I)            # height of e's context tree


@smt.register_axioms
def _bm_axioms(names):
    if not (names & {"bm_in_top", "bm_closure", "bm_in_ctx", "bm_depth"}):
        return []
    e, c = z3.Consts("e c", V)
    return [z3.ForAll([e], z3.Implies(in_top(e), closure(e)), patterns=[in_top(e)]),
            z3.ForAll([e, c], z3.Implies(z3.And(closure(e), in_ctx(c, e)), closure(c)), patterns=[in_ctx(c, e)]),
            z3.ForAll([e, c], z3.Implies(in_ctx(c, e), z3.And(depth(c) < depth(e), depth(c) >= 0)), patterns=[in_ctx(c, e)])]


class AbsErr:
    """an error object of the abstract model"""
    def __init__(self, t):
        self.t = t


class AbsCtx:
    def __init__(self, e):
        self.e = e


class AbsErrors:
    """the iterable handed to best_match"""


class AbsChain:
    pass


class BestInv(WhileInv):
    vars = ("best",)

    def havoc(self, I, st, name):
        return AbsErr(smt.fresh("best", V))

    def _best(self, st):
        return st.env[getattr(self, "names", {}).get("best", "best")]

    def formula(self, I, st):
        return closure(self._best(st).t)

    def variant(self, I, st):
        return depth(self._best(st).t)


def best_match_task_run(self, res):
    """best_match(errors): None iff errors is empty; otherwise an error of the transitive context
    closure of `errors` with an empty context.  max/min(key=) are assumed to return an element of
    their (non-empty) argument."""
    repo = extract.Repo(self.root)
    ctx = Ctx(repo, contracts={}, config={})
    unit = repo.unit("exceptions:best_match")
    res["function"] = unit.key
    res["source_hash"] = unit.source_hash()
    from pyvc.loops import loop_ordinal
    import ast as _ast
    wl = [n for n in _ast.walk(unit.node) if isinstance(n, _ast.While)]
    ctx.config["while_invs"] = {(unit.key, loop_ordinal(unit, w)): BestInv() for w in wl}
    some = z3.Bool("errors_nonempty")

    def builtin_hook(I, st, name, args, kwargs, node):
        if name == "iter" and isinstance(args[0], AbsErrors):
            return [(st, args[0])]
        if name == "next" and isinstance(args[0], AbsErrors):
            e = AbsErr(smt.fresh("first", V))
            s1 = st.fork()
            from pyvc.interp import add_lemma
            add_lemma(s1, in_top(e.t))
            return [x for x in (_assume(I, s1, some, e), _assume(I, st.fork(), z3.Not(some), args[1] if len(args) > 1 else Raised(ExcVal("StopIteration")))) if x]
        if name == "itertools.chain":
            return [(st, AbsChain())]
        if name in ("max", "min"):
            a = args[0]
            from pyvc.interp import add_lemma
            if isinstance(a, AbsChain):
                e = AbsErr(smt.fresh("max", V))
                s1 = st.fork()
                add_lemma(s1, in_top(e.t))
                return [(s1, e)]
            if isinstance(a, AbsCtx):
                I.ctx.obligations.append(core.Obligation("exceptions:best_match/P/%s-nonempty#%d" % (name, I.ctx.new_oid()), "P", st.pc,
                                                         ctx_nonempty(a.e.t), note="%s() is applied to a non-empty context" % name))
                c = AbsErr(smt.fresh("child", V))
                s1 = st.fork()
                add_lemma(s1, in_ctx(c.t, a.e.t))
                return [(s1, c)]
        return None

    def getattr_hook(I, st, obj, attr):
        if isinstance(obj, AbsErr) and attr == "context":
            return [(st, AbsCtx(obj))]
        return None

    def obj_truth(ctx_, st, x):
        return None

    ctx.config["builtin_hook"] = builtin_hook
    ctx.config["getattr_hook"] = getattr_hook
    ctx.config["global_hook"] = lambda m, name: Opaque("relevance") if (m, name) == ("exceptions", "relevance") else None
    ctx.config["is_hook"] = lambda I, st, a, b: SB(False) if isinstance(a, AbsErr) or isinstance(b, AbsErr) else None
    I = Interp(ctx)
    import pyvc.interp as _pi
    orig_truth = _pi.truth

    def truth2(c, s, x):
        if isinstance(x, AbsCtx):
            return ctx_nonempty(x.e.t)
        return orig_truth(c, s, x)
    _pi.truth = truth2
    import pyvc.loops as _pl
    _pl.truth = truth2
    try:
        st = State()
        st.unit = unit
        outs = I.run_unit(unit, st, [AbsErrors()], {})
    finally:
        _pi.truth = orig_truth
        _pl.truth = orig_truth
    res["paths"] = len(outs)
    obls = list(ctx.obligations)
    n = 0
    for s, ctl in outs:
        n += 1
        if ctl[0] == "raise":
            obls.append(core.Obligation("%s/S/raise:%s" % (self.name, ctl[1].cls), "S", s.pc, False, note="best_match raises"))
        elif isinstance(ctl[1], AbsErr):
            obls.append(core.Obligation("%s/F/result#%d" % (self.name, n), "F", s.pc,
                                        z3.And(some, closure(ctl[1].t), z3.Not(ctx_nonempty(ctl[1].t))),
                                        note="non-empty errors: the result is in the context closure and has an empty context"))
        else:
            obls.append(core.Obligation("%s/F/none#%d" % (self.name, n), "F", s.pc, z3.Not(some), note="None only for an empty iterable"))
    self.finish(res, ctx, obls)


EntryTask._run_best_match = best_match_task_run
_old_entry_tasks = entry_tasks


def entry_tasks(root, timeout_ms=10000):      # noqa: F811
    return _old_entry_tasks(root, timeout_ms) + [EntryTask(root, 7, "best_match", timeout_ms)]


def relevance_task_run(self, res):
    """by_relevance(...).relevance(error): a tuple (int, bool, bool) - any two keys are comparable, so
    max / min in best_match cannot raise TypeError whatever the errors' keywords are (incl. None)."""
    repo = extract.Repo(self.root)
    ctx = Ctx(repo, contracts={}, config={})
    unit = repo.unit("exceptions:by_relevance.relevance")
    res["function"], res["source_hash"] = unit.key, unit.source_hash()

    class E:
        pass
    err = E()

    class P:
        pass

    def getattr_hook(I, st, obj, attr):
        if obj is err:
            if attr == "validator":
                return [(st, SV(z3.Const("err_validator", V)))]
            if attr in ("path", "relative_path", "absolute_path"):
                return [(st, P())]
        return None

    def builtin_hook(I, st, name, args, kwargs, node):
        if name == "len" and isinstance(args[0], P):
            return [(st, SInt(z3.Int("path_len")))]
        return None
    ctx.config.update(getattr_hook=getattr_hook, builtin_hook=builtin_hook)
    I = Interp(ctx)
    st = State()
    st.unit = unit
    st.closure = {"weak": PySet((lift("anyOf"), lift("oneOf"))), "strong": PySet(())}
    st.pc.append(smt.is_kind(z3.Const("err_validator", V), smt.K_STR, smt.K_NONE))
    outs = I.run_unit(unit, st, [err], {})
    res["paths"] = len(outs)
    obls = list(ctx.obligations)
    n = 0
    for s, ctl in outs:
        n += 1
        if ctl[0] == "raise":
            obls.append(core.Obligation("%s/S/raise:%s" % (self.name, ctl[1].cls), "S", s.pc, False, note="relevance raises"))
            continue
        r = ctl[1]
        ok = isinstance(r, PyTuple) and len(r.items) == 3 and isinstance(r.items[0], SInt) and all(isinstance(x, SB) for x in r.items[1:])
        obls.append(core.Obligation("%s/F/comparable-key#%d" % (self.name, n), "F", s.pc, z3.BoolVal(bool(ok)),
                                    note="the sort key is (int, bool, bool): totally ordered, never compares a keyword name or None (got %r)" % (r,)))
    self.finish(res, ctx, obls)


EntryTask._run_relevance = relevance_task_run
_old_entry_tasks2 = entry_tasks


def entry_tasks(root, timeout_ms=10000):      # noqa: F811
    return _old_entry_tasks2(root, timeout_ms) + [EntryTask(root, 7, "relevance", timeout_ms)]
