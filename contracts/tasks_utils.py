"""Verification tasks for _utils.equal and _utils.uniq (C08) against JSON equality `jeq`."""
import time
import traceback

import z3

from pyvc import smt, extract
from pyvc.smt import V, kind, llen, lget, K_LIST
from pyvc.values import *      # noqa
from pyvc.interp import State, Ctx, Interp, truth
from pyvc.loops import LoopInv
from contracts import core


class UniqSeenInv(LoopInv):
    """brute-force path of uniq:  seen == container[:k]  and  the first k elements are pairwise not jeq"""

    def __init__(self, container):
        self.c = container

    def at(self, I, st, k, spec):
        c = self.c.t
        i = smt.fresh("iv", smt.I)
        a, b = smt.fresh("ia", smt.I), smt.fresh("ib", smt.I)
        return {"lists": {"seen": (For(i, k, One(SV(lget(c, i)))),)},
                "formula": z3.ForAll([a, b], z3.Implies(z3.And(0 <= a, a < b, b < k), z3.Not(smt.jeq(lget(c, a), lget(c, b)))))}


class UtilTask:
    weight = 3

    def __init__(self, root, which, timeout_ms=10000):
        self.root, self.which, self.timeout_ms = root, which, timeout_ms
        self.name = "_utils:%s" % which

    def cache_key(self):
        from pyvc import driver
        return "util|%s|%s|%s" % (self.name, self.timeout_ms, driver.dep_hash(self.root, modules=("_utils",)))

    def run(self):
        t0 = time.time()
        res = {"task": self.name, "function": self.name, "obligations": [], "status": "ok", "paths": 0}
        try:
            getattr(self, "_run_" + self.which)(res)
        except OutOfSubset as e:
            res["status"], res["detail"] = "out-of-subset", str(e)
        except Exception as e:      # noqa
            res["status"], res["detail"] = "crash", "%s\n%s" % (e, traceback.format_exc())
        if res["status"] != "ok" and "search" not in res:
            from pyvc import driver
            try:
                res["search"] = driver.rt_call("pyvc.rt_eq", {"cmd": "search", "root": self.root, "which": self.which}, self.root)
            except Exception as e:      # noqa
                res["search"] = {"error": str(e)[-500:], "failures": []}
        res["wall_s"] = round(time.time() - t0, 3)
        return res

    def finish(self, res, ctx, obls):
        for ob in obls:
            ob.check(self.timeout_ms)
            rec = {"name": ob.name if ob.name.startswith(self.name) else self.name + "::" + ob.name, "kind": ob.kind,
                   "status": ob.status, "solver": ob.solver, "time_s": round(ob.time_s, 3), "note": ob.note}
            if ob.status != "discharged":
                rec["reason"] = ob.reason
            res["obligations"].append(rec)
        seen = {}
        for unit_key, cls, origin in ctx.safety:
            seen[(unit_key, cls, origin)] = seen.get((unit_key, cls, origin), 0) + 1
        for (unit_key, cls, origin), n in sorted(seen.items()):
            res["obligations"].append({"name": "%s::%s/S/unreachable:%s@%s" % (self.name, unit_key, cls, origin), "kind": "S",
                                       "status": "discharged", "solver": "z3", "time_s": 0.0,
                                       "note": "%s from %s cannot occur (%d path(s))" % (cls, origin, n)})
        res["notes"] = sorted(set(ctx.notes))
        if any(o["status"] != "discharged" for o in res["obligations"]):
            from pyvc import driver
            try:
                res["search"] = driver.rt_call("pyvc.rt_eq", {"cmd": "search", "root": self.root, "which": self.which}, self.root)
            except Exception as e:      # noqa
                res["search"] = {"error": str(e)[-500:], "failures": []}

    def _run_equal(self, res):
        repo = extract.Repo(self.root)
        a, b = SV(z3.Const("one", V)), SV(z3.Const("two", V))
        ctx = Ctx(repo, contracts={core.EqualC.key: core.EqualC()}, config={})
        ctx.config["equal_measure"] = smt.size(a.t) + smt.size(b.t)      # recursion on strictly smaller operands
        I = Interp(ctx)
        st = State()
        unit = repo.unit("_utils:equal")
        res["source_hash"] = unit.source_hash()
        st.unit = unit
        st.pc.extend([smt.isjson(a.t), smt.isjson(b.t)])
        outs = I.run_unit(unit, st, [a, b], {})
        res["paths"] = len(outs)
        obls = list(ctx.obligations)
        n = 0
        for s, ctl in outs:
            n += 1
            if ctl[0] == "raise":
                obls.append(core.Obligation("%s/S/raise:%s@%s" % (self.name, ctl[1].cls, ctl[1].origin), "S", s.pc, False, note="equal raises"))
            else:
                obls.append(core.Obligation("%s/F/result#%d" % (self.name, n), "F", s.pc,
                                            truth(ctx, s, ctl[1]) == smt.jeq(a.t, b.t), note="equal(one, two) == jeq(one, two)"))
        self.finish(res, ctx, obls)

    def _run_uniq(self, res):
        repo = extract.Repo(self.root)
        c = SV(z3.Const("container", V))
        ctx = Ctx(repo, contracts={core.EqualC.key: core.EqualC()}, config={})
        # the brute-force loop is the first `for` statement of uniq whose body appends to `seen`
        unit = repo.unit("_utils:uniq")
        inv_loops = _find_loops_appending(unit, "seen")
        ctx.config["loop_invs"] = {("_utils:uniq", o): UniqSeenInv(c) for o in inv_loops}
        I = Interp(ctx)
        st = State()
        res["source_hash"] = unit.source_hash()
        st.unit = unit
        st.pc.extend([smt.isjson(c.t), kind(c.t) == K_LIST])
        outs = I.run_unit(unit, st, [c], {})
        res["paths"] = len(outs)
        obls = list(ctx.obligations)
        spec = core.uniq_spec(c.t)
        n = 0
        for s, ctl in outs:
            n += 1
            if ctl[0] == "raise":
                obls.append(core.Obligation("%s/S/raise:%s@%s" % (self.name, ctl[1].cls, ctl[1].origin), "S", s.pc, False, note="uniq raises"))
            else:
                obls.append(core.Obligation("%s/F/result#%d" % (self.name, n), "F", s.pc, truth(ctx, s, ctl[1]) == spec,
                                            note="uniq(container) == no two elements are jeq"))
        self.finish(res, ctx, obls)


def _find_loops_appending(unit, name):
    import ast
    from pyvc.loops import loop_ordinal
    out = []
    for n in ast.walk(unit.node):
        if isinstance(n, ast.For):
            for m in ast.walk(n):
                if isinstance(m, ast.Call) and isinstance(m.func, ast.Attribute) and m.func.attr == "append" \
                        and isinstance(m.func.value, ast.Name):      # whatever the list of earlier elements is called
                    o = loop_ordinal(unit, n)
                    # the outermost loop containing the append
                    out.append(o)
                    break
    return out[:1]


def util_tasks(root, timeout_ms=10000):
    return [UtilTask(root, "equal", timeout_ms), UtilTask(root, "uniq", timeout_ms)]
