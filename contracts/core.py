"""Side-car contracts for the validator object and the recursion it drives (descend / iter_errors /
is_valid / is_type), and the common scaffolding of verification tasks.

A contract has two sides kept in one place:
  * `apply`  : what a *caller* may assume (precondition obligations are emitted at the call site);
  * the verification tasks in contracts/tasks_*.py prove the same statement of the callee's body.
"""
import os

import z3

from pyvc import smt
from pyvc.smt import V, kind, sval, dlen, dkey, dval, dhas, dget, llen, lget
from pyvc.smt import K_STR, K_DICT, K_LIST, K_BOOL, K_NONE
from pyvc.values import *       # noqa
from pyvc.interp import Raised, State, Ctx, Interp, lift, to_sv, branch, truth, add_lemma, add_def
from pyvc import prims
from spec import drafts
from spec.ops import Z3Ops, lift_json

S = smt.S

# uninterpreted symbols of the induction hypothesis -------------------------------------------------
# Vp(B, sub, x): "instance x is valid under subschema sub with base URI B"; Xp: "validation raises"
Vp = z3.Function("Vp", S, V, V, smt.B)
Xp = z3.Function("Xp", S, V, V, smt.B)
WF = {d: z3.Function("wf%d" % d, V, smt.B) for d in drafts.DRAFTS}


def ops_for(d, scope):
    return Z3Ops(d, Vp=Vp, scope=scope)


def meta_eval(repo, d, s_sv, keys=None):
    """One-level unfolding of wf_d(s): the bundled metaschema partially evaluated on the symbolic
    candidate s (nested {"$ref": "#"} become wf_d atoms).  With `keys`, only the conjuncts that
    constrain those member names are kept (a weaker, hence sound, precondition: V(META, s) is a
    conjunction over META's keywords and over the members of its `properties`)."""
    o = Z3Ops(d, Vp=None, meta_root=repo.schemas[d], wf_pred=WF[d], scope=None)
    meta = repo.schemas[d]
    if keys is not None:
        meta = dict(meta)
        if isinstance(meta.get("properties"), dict):
            meta["properties"] = {k: v for k, v in meta["properties"].items() if k in keys}
        if isinstance(meta.get("dependencies"), dict):
            meta["dependencies"] = {k: v for k, v in meta["dependencies"].items() if k in keys}
    return drafts.V_concrete_schema(o, meta, s_sv)


_wf_registered = {}


def register_wf_axioms(repo):
    """wf_d(v) => v satisfies the metaschema root's `type` (a schema is an object, or a boolean from
    draft 6 on): a consequence of the definition wf_d(v) <=> V(META_d, v), read from the bundled file."""
    key = repo.tree_hash()
    if key in _wf_registered:
        return
    axs = []
    v = z3.Const("v", V)
    for d in drafts.DRAFTS:
        o = Z3Ops(d, Vp=None, meta_root=repo.schemas[d], wf_pred=WF[d], scope=None)
        root = repo.schemas[d]
        if "type" in root:
            kt = drafts.K_type(o, d, o.const(root["type"]), SV(v), o.const(root))
            axs.append((WF[d].name(), z3.ForAll([v], z3.Implies(WF[d](v), kt), patterns=[WF[d](v)])))
    _wf_registered[key] = axs

    @smt.register_axioms
    def _wf_axioms(names):
        return [a for n, a in axs if n in names]


_OPEN = 0      # undischarged obligations seen so far in this process (one verification task per process)


class Obligation:
    def __init__(self, name, kind_, pc, goal, note="", inputs=None):
        self.name, self.kind, self.pc, self.goal, self.note = name, kind_, list(pc), goal, note
        self.inputs = inputs or {}
        self.status = None
        self.solver = None
        self.time_s = 0.0
        self.model = None
        self.reason = ""

    def check(self, timeout_ms=10000, seed=0):
        """Decide the obligation in a forked child with a hard wall-clock limit: z3's sequence solver does
        not always honour its own timeout, and a check must terminate.  A child that has to be killed
        leaves the obligation `unknown` (never a violation)."""
        import os
        self.model_inputs = None
        global _OPEN
        fast = _OPEN >= 3      # the task already has undischarged obligations: one attempt each for the rest
        if os.environ.get("PYVC_FORK_CHECK", "1") == "0":
            self._check_inline(timeout_ms, seed, fast)
            if self.status == "failed" and self.model is not None and hasattr(self, "inputs_from_model"):
                try:
                    self.model_inputs = self.inputs_from_model(self.model)
                except Exception:      # noqa
                    pass
            if self.status != "discharged":
                _OPEN += 1
            return self.status
        import json as _json
        import select
        import time as _time
        hard = 10.0 * timeout_ms / 1000.0 + 15.0
        rd, wr = os.pipe()
        t0 = _time.time()
        pid = os.fork()
        if pid == 0:
            try:
                os.close(rd)
                self._check_inline(timeout_ms, seed, fast)
                m = None
                if self.status == "failed" and self.model is not None and hasattr(self, "inputs_from_model"):
                    try:
                        m = self.inputs_from_model(self.model)
                    except Exception:      # noqa
                        m = None
                data = _json.dumps({"status": self.status, "solver": self.solver, "time_s": self.time_s, "reason": self.reason, "model_inputs": m}, default=str)
                os.write(wr, data.encode())
            except BaseException as e:      # noqa
                try:
                    os.write(wr, _json.dumps({"status": "unknown", "solver": "z3", "time_s": 0.0, "reason": "checker error: %s" % e, "model_inputs": None}).encode())
                except Exception:      # noqa
                    pass
            finally:
                os._exit(0)
        os.close(wr)
        buf = b""
        while True:
            left = hard - (_time.time() - t0)
            if left <= 0:
                break
            r, _, _ = select.select([rd], [], [], min(left, 1.0))
            if r:
                chunk = os.read(rd, 1 << 16)
                if not chunk:
                    break
                buf += chunk
        os.close(rd)
        try:
            done, _ = os.waitpid(pid, os.WNOHANG)
            if not done:
                os.kill(pid, 9)
                os.waitpid(pid, 0)
        except Exception:      # noqa
            pass
        try:
            d = _json.loads(buf.decode())
        except Exception:      # noqa
            d = {"status": "unknown", "solver": "z3", "time_s": _time.time() - t0, "model_inputs": None,
                 "reason": "solver did not return within the hard limit of %d s (stopped)" % hard}
        self.status, self.solver, self.time_s, self.reason = d["status"], d["solver"], d["time_s"], d.get("reason") or ""
        self.model = None
        self.model_inputs = d.get("model_inputs")
        if self.status != "discharged":
            _OPEN += 1
        return self.status

    def _check_inline(self, timeout_ms=10000, seed=0, fast=False):
        # equivalences between bounded universal quantifications: try the pointwise strengthening first
        alt = getattr(self, "alt_goal", None)
        if alt is not None:
            res = smt.check_sat(self.pc + [z3.Not(alt)], timeout_ms=timeout_ms, seed=seed, use_cvc5=False)
            if res.status == "unsat":
                self.solver, self.time_s, self.status = res.solver + "(pointwise)", res.time_s, "discharged"
                return self.status
        fs = self.pc if self.goal is False else self.pc + [z3.Not(self.goal)]
        if self.goal is not False and z3.is_false(z3.simplify(self.goal)):
            fast = True      # a structural fact that is plainly false on this path: only the path's feasibility is in question
        if getattr(self, "strings_first", False):
            # pure string lemmas: cvc5's string solver first (z3's seq solver is unstable on these)
            r5 = smt._cvc5_check(smt.to_smt2(fs), timeout_ms)
            if r5 == "unsat":
                self.solver, self.time_s, self.status = "cvc5", 0.0, "discharged"
                return self.status
        res = smt.check_sat(fs, timeout_ms=(timeout_ms // 2 if fast else timeout_ms), seed=seed, use_cvc5=not fast)
        tries = 0
        while res.status == "unknown" and tries < 2 and not fast:
            # solver instability guard: a different seed and a larger budget before giving up
            tries += 1
            res = smt.check_sat(fs, timeout_ms=timeout_ms * 2, seed=seed + 7919 * tries, use_cvc5=False)
        self.solver, self.time_s, self.reason = res.solver, res.time_s, res.reason
        if res.status == "unsat":
            self.status = "discharged"
            if os.environ.get("PYVC_CROSSCHECK") == "1" and "cvc5" not in (res.solver or ""):
                # thorough tier: an independent confirmation by the other installed solver (only `unsat` counts; anything
                # else leaves z3's verdict as it is and is reported as "not confirmed")
                try:
                    if smt._cvc5_check(smt.to_smt2(fs), min(timeout_ms, 5000)) == "unsat":
                        self.solver = (res.solver or "z3") + "+cvc5"
                except Exception:      # noqa
                    pass
        elif res.status == "sat":
            self.status = "failed"
            self.model = res.model
        else:
            self.status = "unknown"
        return self.status


# ---------------------------------------------------------------------------------------------------
# the symbolic validator

class ValidatorModel:
    """Builds the heap objects of a validator of draft d and the engine configuration around it."""

    def __init__(self, repo, tables, d, format_checker="none"):
        self.repo, self.tables, self.d = repo, tables, d
        self.t = tables[d]
        self.format_checker = format_checker

    def install(self, ctx, st):
        d = self.d
        t = self.t
        vid, tcid, rid = ctx.new_oid(), ctx.new_oid(), ctx.new_oid()
        self.validator = ObjVal("Validator", vid)
        self.type_checker = ObjVal("TypeChecker", tcid)
        self.resolver = ObjVal("RefResolver", rid)
        st.heap[(vid, "VALIDATORS")] = PyDict({k: FuncRef(f) for k, f in t.keywords.items()})
        st.heap[(vid, "TYPE_CHECKER")] = self.type_checker
        st.heap[(tcid, "_type_checkers")] = PyDict({k: FuncRef(f) for k, f in t.type_checks.items()})
        st.heap[(vid, "resolver")] = self.resolver
        self.root_schema = SV(z3.Const("root_schema", V))
        st.heap[(vid, "schema")] = self.root_schema
        st.heap[(vid, "ID_OF")] = FuncRef(t.id_of)
        if self.format_checker == "none":
            st.heap[(vid, "format_checker")] = lift(None)
        else:
            fcid = ctx.new_oid()
            st.heap[(vid, "format_checker")] = ObjVal("FormatChecker", fcid)
        self.scope0 = z3.Const("scope0", S)
        st.ghost["scope"] = self.scope0          # top of the resolver's scope stack (base URI B)
        st.ghost["depth"] = z3.IntVal(0)         # pushes minus pops since entry
        ctx.config["create_closure"] = {"id_of": FuncRef(t.id_of)}
        ctx.config["vm"] = self
        return self.validator


def closure_hook(ctx):
    """Methods of the class created inside create() see create()'s parameters."""
    def hook(key):
        if key.startswith("validators:create.Validator."):
            return ctx.config.get("create_closure", {})
        return None
    return hook


# ---------------------------------------------------------------------------------------------------
# materialising Python-side containers as JSON terms

def materialise(I, st, v):
    """-> (SV, facts) for a value that must be passed where a JSON value is expected."""
    if isinstance(v, SV):
        return v, []
    if isinstance(v, (SB, SInt, SStr)):
        return to_sv(v), []
    if isinstance(v, PyDict):
        t = smt.fresh_fn("mkdict", st.loopvars, V)
        facts = [smt.kd(t, K_DICT), dlen(t) == len(v.d)]
        shape = {}
        for i, (k, e) in enumerate(v.d.items()):
            ev, f2 = materialise(I, st, e)
            facts += f2 + [dkey(t, i) == z3.StringVal(k), dval(t, i) == ev.t]
            shape[k] = ev
        return SV(t, shape=shape), facts
    if isinstance(v, ListObj):
        items = st.heap[v.oid].get("items")
        if items is None:
            raise OutOfSubset("materialise a symbolic list")
        t = smt.fresh_fn("mklist", st.loopvars, V)
        facts = [smt.kd(t, K_LIST), llen(t) == len(items)]
        shape = []
        for i, e in enumerate(items):
            ev, f2 = materialise(I, st, e)
            facts += f2 + [lget(t, i) == ev.t]
            shape.append(ev)
        return SV(t, shape=shape), facts
    raise OutOfSubset("materialise %r" % (v,))


# ---------------------------------------------------------------------------------------------------
# contracts (caller side)

class Contract:
    key = None

    def apply(self, I, st, args, kwargs, fref):
        raise NotImplementedError


def bind(names, defaults, args, kwargs):
    b = dict(defaults)
    for n, a in zip(names, args):
        b[n] = a
    for k, v in kwargs.items():
        if k not in names:
            raise OutOfSubset("unexpected keyword %s" % k)
        b[k] = v
    for n in names:
        if n not in b:
            raise OutOfSubset("missing argument %s" % n)
    return b


def require(I, st, name, goal, note=""):
    """Emit a call-site precondition obligation and continue under it."""
    ob = Obligation("%s/P/%s" % (st.unit.key if st.unit else "?", I.ctx.anchor(name)), "P", st.pc, goal, note)
    I.ctx.obligations.append(ob)
    s = st.fork()
    add_lemma(s, goal)
    return s


def subschema_wf(I, st, d, sub, facts):
    """Precondition 'sub is a schema accepted by draft d' at a call site: either the wf atom is at
    hand (sub-term of the schema under validation) or the metaschema unfolding is proved."""
    repo = I.repo
    atom = WF[d](sub.t)
    res = smt.check_sat(st.pc + facts + [z3.Not(atom)], timeout_ms=3000, use_cvc5=False)
    if res.status == "unsat":
        return atom
    # wf_d is *defined* by the metaschema: prove the unfolding for this (constructed) schema
    return meta_eval(repo, d, sub)


class SubValidation(Contract):
    """descend / iter_errors / is_valid: the induction hypothesis.

    requires  wf_d(schema), isjson(instance)
    ensures   normal:   result sequence R with empty(R) <=> Vp(B, schema, instance)   (descend, iter_errors)
                        result bool == Vp(B, schema, instance)                        (is_valid)
              raises:   only under Xp(B, schema, instance); the exception is one the callee's own
                        contract allows (RefResolutionError, UnknownType, or a format function's)
    modifies  nothing observable: scope stack restored (depth unchanged), caches grow only
    """

    def __init__(self, key, which):
        self.key, self.which = key, which

    def apply(self, I, st, args, kwargs, fref):
        ctx = I.ctx
        vm = ctx.config["vm"]
        d = vm.d
        if self.which == "descend":
            b = bind(["self", "instance", "schema", "path", "schema_path"], {"path": lift(None), "schema_path": lift(None)}, args, kwargs)
            sch = b["schema"]
        else:
            b = bind(["self", "instance", "_schema"], {"_schema": lift(None)}, args, kwargs)
            sch = b["_schema"]
            if isinstance(sch, SV) and sch.known and sch.conc is None:
                sch = st.heap[(b["self"].oid, "schema")]
        inst, f1 = materialise(I, st, b["instance"])
        sch, f2 = materialise(I, st, sch)
        s = st.fork()
        for f in f1 + f2:
            add_def(s, f)
        scope = s.ghost["scope"]
        if f2:
            # a schema built by the function itself: V is *defined* by the keyword semantics
            o = ops_for(d, scope)
            add_def(s, Vp(scope, sch.t, inst.t) == (o.V(sch, inst) if sch.shape is not None else V_def(o, d, sch, inst)))
        s = require(I, s, "%s.wf" % self.which, subschema_wf(I, s, d, sch, []), "sub-schema is accepted by the draft")
        s = require(I, s, "%s.json" % self.which, smt.isjson(inst.t), "instance is a JSON value")
        v = Vp(scope, sch.t, inst.t)
        x = Xp(scope, sch.t, inst.t)
        if self.which == "is_valid":
            normal = SB(v)
        else:
            meta = {"which": self.which, "path": b.get("path"), "schema_path": b.get("schema_path"),
                    "instance": inst, "schema": sch, "scope": scope}
            normal = Gen(self.which, (scope, sch.t, inst.t, _desc(b.get("path")), _desc(b.get("schema_path"))), v, meta)
        if ctx.config.get("no_callee_exc"):
            # analysis of the no-exception behaviour: sub-validations that raise end the function
            # (no keyword function has a handler that could catch them: checked by the task)
            return [(s, normal)]
        cases = [(z3.Not(x), normal), (x, Raised(ExcVal("CalleeExc", {}, origin=self.which)))]
        return branch(ctx, s, cases)


def _desc(v):
    if v is None:
        return None
    if isinstance(v, SV):
        return v.conc if v.known else v.t
    if isinstance(v, (SInt, SStr)):
        return v.t
    return repr(v)


def V_def(o, d, s, x):
    """The definition of validity for a schema given as a term (spec side of iter_errors):
    boolean schemas, `$ref` replacing all siblings, else the conjunction over the vocabulary."""
    st = s.t
    i = smt.fresh("q", smt.I)
    key = dkey(st, i)
    val = SV(dval(st, i))
    per_key = [z3.Implies(key == z3.StringVal(k), drafts.K[k](o, d, val, x, s)) for k in drafts.VOCAB[d] if k != "$ref"]
    obj_case = z3.ForAll([i], z3.Implies(z3.And(0 <= i, i < dlen(st)), z3.And(per_key)))
    has_ref = z3.And(dhas(st, z3.StringVal("$ref")), kind(dget(st, z3.StringVal("$ref"))) != K_NONE)
    ref_case = Vref(o.scope, dget(st, z3.StringVal("$ref")), x.t)
    body = z3.If(has_ref, ref_case, obj_case)
    if d >= 6:
        return z3.If(smt.kd(st, K_BOOL), smt.bval(st), body)
    return body


# validity through a reference: defined by the resolver contracts (C02); opaque elsewhere
Vref = z3.Function("Vref", S, V, V, smt.B)


class IsType(Contract):
    """Validator.is_type(instance, type)
    requires  type is a str
    ensures   type names the draft's checker knows: result == T_d(type, instance)
              otherwise raises UnknownType (draft 3 only can get here with a wf schema)"""
    key = "validators:create.Validator.is_type"

    def apply(self, I, st, args, kwargs, fref):
        ctx = I.ctx
        vm = ctx.config["vm"]
        d = vm.d
        b = bind(["self", "instance", "type"], {}, args, kwargs)
        inst, f1 = materialise(I, st, b["instance"])
        tn = b["type"]
        s = st.fork()
        for f in f1:
            add_def(s, f)
        o = ops_for(d, s.ghost.get("scope"))
        if isinstance(tn, SV) and tn.known and isinstance(tn.conc, str):
            if tn.conc in drafts.TYPE_NAMES[d]:
                return [(s, SB(drafts.T(o, d, tn.conc, inst)))]
            return [(s, Raised(ExcVal("UnknownType", {}, origin="is_type")))]
        tn = to_sv(tn)
        s = require(I, s, "is_type.name", smt.kd(tn.t, K_STR), "type name is a string")
        known = drafts.known_type_name(o, d, sval(tn.t))
        cases = [(known, SB(drafts.T_sym(o, d, sval(tn.t), inst))),
                 (z3.Not(known), Raised(ExcVal("UnknownType", {}, origin="is_type")))]
        return branch(ctx, s, cases)


class ErrSet(Contract):
    """_Error._set(**kwargs): for each given field, assign it iff it is still unset (innermost wins)."""
    key = "exceptions:_Error._set"

    def apply(self, I, st, args, kwargs, fref):
        ref = args[0]
        if not isinstance(ref, ErrRef):
            raise OutOfSubset("_set on %r" % (ref,))
        s = st.fork()
        e = s.heap[ref.oid]
        for k, v in kwargs.items():
            cur = e.fields.get(k)
            if cur is UNSET:
                e = e.with_field(k, v)
            elif cur is None:
                e = e.with_setif(k, v)       # field of a callee's error: unknown whether set
            # else: already set, unchanged
        s.heap[ref.oid] = e
        return [(s, lift(None))]


class EqualC(Contract):
    """_utils.equal(one, two): requires JSON values; ensures result == jeq(one, two) (C08); no exception."""
    key = "_utils:equal"

    def apply(self, I, st, args, kwargs, fref):
        a, f1 = materialise(I, st, args[0])
        b, f2 = materialise(I, st, args[1])
        s = st.fork()
        for f in f1 + f2:
            add_def(s, f)
        s = require(I, s, "equal.json", z3.And(smt.isjson(a.t), smt.isjson(b.t)), "operands are JSON values")
        m = I.ctx.config.get("equal_measure")
        if m is not None:
            s = require(I, s, "equal.decreases", smt.size(a.t) + smt.size(b.t) < m, "recursive call on strictly smaller operands")
        return [(s, SB(smt.jeq(a.t, b.t)))]


class UniqC(Contract):
    """_utils.uniq(container): requires a JSON array; ensures result == (no two elements are jeq) (C08)."""
    key = "_utils:uniq"

    def apply(self, I, st, args, kwargs, fref):
        c = args[0]
        s = require(I, st, "uniq.array", z3.And(smt.kd(c.t, K_LIST), smt.isjson(c.t)), "container is a JSON array")
        return [(s, SB(uniq_spec(c.t)))]


def uniq_spec(t):
    i, j = smt.fresh("u", smt.I), smt.fresh("u", smt.I)
    return z3.ForAll([i, j], z3.Implies(z3.And(0 <= i, i < j, j < llen(t)), z3.Not(smt.jeq(lget(t, i), lget(t, j)))))


def base_contracts():
    cs = {}
    for which in ("descend", "iter_errors", "is_valid"):
        k = "validators:create.Validator.%s" % which
        cs[k] = SubValidation(k, which)
    cs[IsType.key] = IsType()
    cs[ErrSet.key] = ErrSet()
    cs[EqualC.key] = EqualC()
    cs[UniqC.key] = UniqC()
    return cs
