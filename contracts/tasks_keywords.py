"""Verification tasks for the keyword functions (one per draft table entry).

For draft d and table entry (k -> f):
  requires  schema is an object accepted by draft d (metaschema unfolded one level on the symbolic
            schema), schema[k] == value, instance and schema are JSON values, and the two input
            restrictions C03 grants (patterns compile; $ref values are strings)
  ensures   F  empty(result) <=> K_k(d, value, instance, schema)                    (C01)
            S  no exception escapes except what sub-validations raise and, in draft 3, UnknownType  (C03)
            P  every call-site precondition (sub-schema accepted by the draft, JSON instance, str type name)
"""
import time
import traceback

import z3

from pyvc import smt, extract, tables as tables_mod
from pyvc.smt import V, kind, dhas, dget, dlen, dkey, dval, K_DICT, K_STR
from pyvc.values import *      # noqa
from pyvc.interp import State, Ctx, Interp, lift
from spec import drafts
from contracts import core


def compile_assumptions(d, schema, value, k):
    """C03's granted input restrictions, as far as this keyword can see them."""
    out = []
    if k == "pattern":
        out.append(z3.Implies(kind(value.t) == K_STR, smt.re_compiles(smt.sval(value.t))))
    pp = dget(schema.t, z3.StringVal("patternProperties"))
    i = smt.fresh("q", smt.I)
    out.append(z3.Implies(dhas(schema.t, z3.StringVal("patternProperties")),
                          z3.ForAll([i], z3.Implies(z3.And(0 <= i, i < dlen(pp)), smt.re_compiles(dkey(pp, i))))))
    return out


def verdict_domain(d, k, value, instance):
    """Sub-domain on which the verdict is claimed (C01 delegates multipleOf with floats to C09's exact
    sub-domain: operands convert to binary floating point exactly and their quotient is a double, or
    overflows; integer operands of any size; float instance with integer divisor)."""
    if k not in ("multipleOf", "divisibleBy"):
        return None
    from pyvc import prims
    x, v = instance.t, value.t
    nx, nv = smt.num(x), smt.num(v)
    both_int = z3.And(kind(x) == smt.K_INT, kind(v) == smt.K_INT)
    conv = z3.And(prims.to_float(nx) == nx, prims.to_float(nv) == nv)
    return z3.Or(z3.Not(smt.is_kind(x, smt.K_INT, smt.K_FLOAT)), both_int,
                 z3.And(conv, z3.Or(kind(v) == smt.K_INT, smt.isdouble(nx / nv), prims.fdiv_overflows(nx, nv))))


class KeywordTask:
    def __init__(self, root, d, k, fkey, timeout_ms=10000):
        self.root, self.d, self.k, self.fkey, self.timeout_ms = root, d, k, fkey, timeout_ms
        self.name = "%s@draft%d[%s]" % (fkey, d, k)
        self.weight = {"additionalProperties": 30, "additionalItems": 10, "multipleOf": 10, "divisibleBy": 10,
                       "enum": 8, "const": 6, "uniqueItems": 5, "dependencies": 4, "type": 4}.get(k, 1)

    def cache_key(self):
        from pyvc import driver
        # the function itself, everything it may inline or call by contract (_utils, _types, the
        # validator methods' signatures), the metaschema of the draft, the tables
        dh = driver.dep_hash(self.root, modules=("_utils", "_types", "exceptions"), units=(self.fkey,), drafts=(self.d,))
        th = driver.dep_hash(self.root, units=("validators:create",))
        return "kw|%s|%s|%s|%s" % (self.name, self.timeout_ms, dh, th)

    def setup(self):
        repo = extract.Repo(self.root)
        core.register_wf_axioms(repo)
        tabs = tables_mod.draft_tables(repo)
        ctx = Ctx(repo, contracts=core.base_contracts(), config={"no_callee_exc": True})
        ctx.config["closure_for"] = core.closure_hook(ctx)
        st = State()
        vm = core.ValidatorModel(repo, tabs, self.d)
        validator = vm.install(ctx, st)
        I = Interp(ctx)
        return repo, ctx, st, vm, validator, I

    def run(self):
        t0 = time.time()
        res = {"task": self.name, "function": self.fkey, "draft": self.d, "keyword": self.k, "obligations": [],
               "status": "ok", "paths": 0}
        try:
            self._run(res)
        except OutOfSubset as e:
            res["status"] = "out-of-subset"
            res["detail"] = str(e)
        except Exception as e:      # engine crash
            res["status"] = "crash"
            res["detail"] = "%s\n%s" % (e, traceback.format_exc())
        if res["status"] != "ok":
            self.failure_search(res)
        res["wall_s"] = round(time.time() - t0, 3)
        return res

    def failure_search(self, res):
        """directed search on the real code (verdicts and error structure) for this keyword"""
        from pyvc import driver
        for mode, slot in (("verdict", "search"), ("errors", "search_errors")):
            if slot in res:
                continue
            try:
                res[slot] = driver.rt_call("pyvc.rt_kw", {"cmd": "search", "mode": mode, "root": self.root, "draft": self.d, "keyword": self.k, "limit": 3}, self.root)
            except Exception as e2:      # noqa
                res[slot] = {"error": str(e2)[-300:], "failures": []}

    def _run(self, res):
        d, k = self.d, self.k
        repo, ctx, st, vm, validator, I = self.setup()
        unit = repo.unit(self.fkey)
        res["source_hash"] = unit.source_hash()
        value = SV(z3.Const("value", V))
        instance = SV(z3.Const("instance", V))
        schema = SV(z3.Const("schema", V))
        ks = z3.StringVal(k)
        pre = [kind(schema.t) == K_DICT, dhas(schema.t, ks), dget(schema.t, ks) == value.t,
               smt.isjson(instance.t), smt.isjson(schema.t),
               core.WF[d](schema.t), core.meta_eval(repo, d, schema, keys=[k] + drafts.siblings(d, k))]
        pre += compile_assumptions(d, schema, value, k)
        st.pc.extend(pre)
        st.unit = unit
        # vacuity guard: the precondition must be satisfiable
        cover = smt.check_sat(st.pc, timeout_ms=2000, use_cvc5=False)
        if cover.status == "unsat":
            raise RuntimeError("vacuous precondition for %s" % self.name)
        res["cover"] = cover.status
        o = core.ops_for(d, st.ghost["scope"])
        spec = drafts.K[k](o, d, value, instance, schema)
        outs = I.run_unit(unit, st, [validator, value, instance, schema], {})
        res["paths"] = len(outs)
        obls = list(ctx.obligations)
        allowed = {"CalleeExc"} | ({"UnknownType"} if d == 3 else set())
        nf = ns = 0
        shape_failures = []
        for s, ctl in outs:
            if ctl[0] == "raise":
                exc = ctl[1]
                cls = exc.cls
                if cls in allowed:
                    continue
                ns += 1
                ob = core.Obligation("%s/S/raise:%s@%s" % (self.name, cls, exc.origin), "S", s.pc, False,
                                     note="%s escapes (origin %s)" % (cls, exc.origin))
                ob.exc = cls
                obls.append(ob)
            else:
                nf += 1
                emp = seq_empty(cat(*s.out))
                dom = verdict_domain(d, k, value, instance)
                pcx = s.pc + ([dom] if dom is not None else [])
                ob = core.Obligation("%s/F/verdict#%d" % (self.name, nf), "F", pcx, emp == spec,
                                     note="empty(result) <=> K_%s" % k + (" on C09's exact sub-domain" if dom is not None else ""))
                ob.alt_goal = strengthen_iff(emp, spec)
                obls.append(ob)
                # C05/C06: the result has the expected structure (one error per violation; the path
                # and schema-path elements handed to descend are those of the element descended into)
                from contracts import structure
                from pyvc import seqmatch
                exp = structure.expected(o, d, k, value, instance, schema, st.ghost["scope"])
                if exp is not None:
                    sname = "%s/F/structure#%d" % (self.name, nf)
                    try:
                        facts = seqmatch.match(cat(*s.out), exp, pcx)
                        ob2 = core.Obligation(sname, "F", pcx, z3.And(facts) if facts else z3.BoolVal(True),
                                              note="result == expected comprehension over descend(...) / constructed errors (C05, C06)")
                        ob2.facts = facts
                        obls.append(ob2)
                    except seqmatch.Mismatch as e:
                        shape_failures.append({"name": sname, "kind": "F", "status": ("failed" if getattr(e, "definite", True) else "unknown"), "solver": "seqmatch", "time_s": 0.0,
                                               "note": "result structure differs from the expected one: %s" % e, "reason": str(e)})
        if nf == 0:
            raise RuntimeError("no normal path through %s" % self.name)
        for ob in obls:
            ob.inputs_from_model = lambda m: concretise(m, d, k, value, instance, schema)      # noqa
            ob.check(self.timeout_ms)
            rec = {"name": ob.name if ob.name.startswith(self.name) else self.name + "::" + ob.name,
                   "kind": ob.kind, "status": ob.status, "solver": ob.solver, "time_s": round(ob.time_s, 3),
                   "note": ob.note}
            if ob.status == "failed" and getattr(ob, "model_inputs", None) is not None:
                rec["model"] = ob.model_inputs
            if ob.status == "unknown":
                rec["reason"] = ob.reason
            if ob.kind == "F" and len(res["obligations"]) < 400:
                rec["formula"] = str(z3.simplify(ob.goal))[:400]
            res["obligations"].append(rec)
        res["obligations"].extend(shape_failures)
        res["feas_calls"] = ctx.feas_calls
        seen = {}
        for unit_key, cls, origin in ctx.safety:
            key = (unit_key, cls, origin)
            seen[key] = seen.get(key, 0) + 1
        for (unit_key, cls, origin), n in sorted(seen.items()):
            res["obligations"].append({"name": "%s::%s/S/unreachable:%s@%s" % (self.name, unit_key, cls, origin), "kind": "S",
                                       "status": "discharged", "solver": "z3", "time_s": 0.0,
                                       "note": "%s from %s cannot occur (%d path(s))" % (cls, origin, n)})
        if any(o["status"] != "discharged" for o in res["obligations"]):
            # counterexample search on the real code (bounded, directed at this keyword)
            from pyvc import driver, frames
            extra = []
            try:
                keys, _, _ = frames.schema_reads(repo, self.fkey, frames.param_names(unit.node)[3])
                extra = sorted(keys - set(drafts.siblings(d, k)))
            except Exception:      # noqa
                pass
            try:
                res["search"] = driver.rt_call("pyvc.rt_kw", {"cmd": "search", "root": self.root, "draft": d, "keyword": k, "limit": 3, "extra_siblings": extra}, self.root)
            except Exception as e:      # noqa
                res["search"] = {"error": str(e)[-500:], "failures": []}
            if any(o["status"] != "discharged" and "/F/structure" in o["name"] for o in res["obligations"]):
                try:
                    res["search_errors"] = driver.rt_call("pyvc.rt_kw", {"cmd": "search", "mode": "errors", "root": self.root, "draft": d, "keyword": k, "limit": 3, "extra_siblings": extra}, self.root)
                except Exception as e:      # noqa
                    res["search_errors"] = {"error": str(e)[-500:], "failures": []}


def strengthen_iff(emp, spec):
    """spec is often `gate => forall...` while emp is `forall...` on a path where the gate holds."""
    pw = smt.pointwise_iff(emp, spec)
    if pw is not None:
        return pw
    if z3.is_app(spec) and spec.decl().kind() == z3.Z3_OP_IMPLIES:
        pw = smt.pointwise_iff(emp, spec.arg(1))
        if pw is not None:
            return z3.And(spec.arg(0), pw)
    if z3.is_app(spec) and spec.decl().kind() == z3.Z3_OP_OR and spec.num_args() == 2:
        # Implies folded to Or(Not(gate), body)
        for gi, bi in ((0, 1), (1, 0)):
            pw = smt.pointwise_iff(emp, spec.arg(bi))
            if pw is not None:
                return z3.And(z3.Not(spec.arg(gi)), pw)
    return None


def concretise(model, d, k, value, instance, schema):
    out = {"draft": d, "keyword": k}
    try:
        out["schema"] = smt.model_value(model, schema.t)
        out["instance"] = smt.model_value(model, instance.t)
    except smt.Unconcretisable as e:
        out["unconcretisable"] = str(e)
    return out


def keyword_tasks(root, timeout_ms=10000, drafts_=(3, 4, 6, 7)):
    repo = extract.Repo(root)
    tabs = tables_mod.draft_tables(repo)
    tasks = []
    for d in drafts_:
        for k, fkey in tabs[d].keywords.items():
            if k in ("$ref", "format"):
                continue
            if k not in drafts.K or k not in drafts.VOCAB[d]:
                continue      # a table entry outside the draft's vocabulary is a failed T obligation (C01, C10)
            tasks.append(KeywordTask(root, d, k, fkey, timeout_ms))
    return tasks
