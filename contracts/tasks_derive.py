"""Verification tasks for derivation operations that copy registries (C16): validators.extend,
FormatChecker.__init__, FormatChecker.checks / cls_checks.

Model: a dict is an *object* (an identity) whose content is a value (SMT array from names to entry
identities, 0 = absent) held in ghost state per identity; `dict(d)` / `d.copy()` allocate a new
identity with the same content, `d.update(e)` and `d[k] = v` change the content of exactly the
identity they are applied to (assumed contracts of the built-in dict).  Non-interference with
pre-existing objects is then: the content recorded for every pre-existing identity is unchanged."""
import ast as _ast

import z3

from pyvc import smt, extract
from pyvc.smt import V, kind, sval, K_STR
from pyvc.values import *      # noqa
from pyvc.interp import State, Ctx, Interp, lift, Raised, branch, GenExpArg
from pyvc.loops import IterSpec
from contracts import core
from contracts.tasks_core import CoreTask

MapSort = z3.ArraySort(smt.S, smt.I)
OvSort = z3.DeclareSort("Overrides")
ov_has = z3.Function("ov_has", OvSort, smt.S, smt.B)
ov_val = z3.Function("ov_val", OvSort, smt.S, smt.I)
dict_update = z3.Function("dict_update", MapSort, OvSort, MapSort)      # content after d.update(mapping)   (assumed: overlay)
restrict = z3.Function("dict_restrict", MapSort, smt.I, MapSort)         # {k: m[k] for k in formats}         (defined below)
fmt_at = z3.Function("formats_at", smt.I, smt.S)
fmt_len = z3.Int("formats_len")
entry = z3.Function("checker_entry", smt.I, smt.I, smt.I)               # the tuple (func, raises) as an identity


class DictObj:
    """a dict object: identity `ident` (python int); content in st.ghost['dcontent'][ident]"""
    def __init__(self, ident):
        self.ident = ident


class Overrides:
    def __init__(self, t):
        self.t = t


class Ident:
    """an opaque object by identity (a function, a type checker, a metaschema, an id_of, a version)"""
    def __init__(self, name, t=None):
        self.name, self.t = name, t if t is not None else z3.Int(name)


class ClassObj:
    """a validator class / a FormatChecker class or instance: named attributes"""
    def __init__(self, name, attrs):
        self.name, self.attrs = name, attrs


class FormatsArg:
    """the `formats` iterable of FormatChecker(formats)"""


def content(st, d):
    return st.ghost["dcontent"][d.ident]


def set_content(st, d, t):
    s = st.fork()
    s.ghost["dcontent"] = dict(st.ghost["dcontent"])
    s.ghost["dcontent"][d.ident] = t
    return s


def new_dict(I, st, t):
    ident = I.ctx.new_oid()
    s = st.fork()
    s.ghost["dcontent"] = dict(st.ghost["dcontent"])
    s.ghost["dcontent"][ident] = t
    return s, DictObj(ident)


def dict_hooks(ctx):
    def getattr_hook(I, st, obj, attr):
        if isinstance(obj, ClassObj):
            if attr in obj.attrs:
                return [(st, obj.attrs[attr])]
            if obj.attrs.get("__class__") is not None and attr in obj.attrs["__class__"].attrs:
                return [(st, obj.attrs["__class__"].attrs[attr])]      # instance attribute lookup falls back to the class
            raise OutOfSubset("attribute %s of %s" % (attr, obj.name))
        if isinstance(obj, DictObj):
            return [(st, BoundMethod(obj, attr))]
        return None

    def setattr_hook(I, st, obj, attr, v):
        if isinstance(obj, ClassObj):
            if not obj.attrs.get("__fresh__"):
                raise OutOfSubset("attribute write on a pre-existing object %s.%s" % (obj.name, attr))
            s = st.fork()
            s.ghost["attrs"] = dict(s.ghost.get("attrs", {}))
            s.ghost["attrs"][(obj.name, attr)] = v
            obj.attrs[attr] = v
            return [(s, ("next", None))]
        return None

    def builtin_hook(I, st, name, a, k, node):
        if name == "dict" and len(a) == 1 and isinstance(a[0], DictObj):
            s, d = new_dict(I, st, content(st, a[0]))
            return [(s, d)]
        if name == "dict" and len(a) == 1 and isinstance(a[0], GenExpArg):
            # dict((k, self.checkers[k]) for k in formats): the comprehension is executed for a generic element
            return _restrict_genexp(I, st, a[0])
        return None

    def method_hook(I, st, obj, name, a, k, node):
        if isinstance(obj, DictObj):
            if name == "copy" and not a:
                s, d = new_dict(I, st, content(st, obj))
                return [(s, d)]
            if name == "update" and len(a) == 1 and isinstance(a[0], Overrides):
                return [(set_content(st, obj, dict_update(content(st, obj), a[0].t)), lift(None))]
            raise OutOfSubset("dict.%s" % name)
        return None

    def subscript_hook(I, st, obj, key):
        if isinstance(obj, DictObj):
            kt = key.t if isinstance(key, SStr) else sval(key.t)
            m = content(st, obj)
            return branch(I.ctx, st, [(m[kt] != 0, Ident("entry", m[kt])), (m[kt] == 0, Raised(ExcVal("KeyError", {}, origin="dict[]")))])
        return None

    def setitem_hook(I, st, obj, k, v):
        if isinstance(obj, DictObj):
            kt = k.t if isinstance(k, SStr) else sval(k.t)
            if isinstance(v, PyTuple) and len(v.items) == 2 and all(isinstance(x, Ident) for x in v.items):
                vt = entry(v.items[0].t, v.items[1].t)
            elif isinstance(v, Ident):
                vt = v.t
            else:
                raise OutOfSubset("dict item %r" % (v,))
            return [(set_content(st, obj, z3.Store(content(st, obj), kt, vt)), ("next", None))]
        return None

    def is_hook(I, st, x, y):
        for p, q in ((x, y), (y, x)):
            if isinstance(p, (Ident, ClassObj, DictObj, FormatsArg, Overrides)) and isinstance(q, SV) and q.known and q.conc is None:
                return SB(False)
        return None

    def iter_hook(I, st, it):
        if isinstance(it, FormatsArg):
            return [(st, IterSpec(n=fmt_len, elem=lambda i: SStr(fmt_at(i))))]
        return None
    ctx.config.update(getattr_hook=getattr_hook, setattr_hook=setattr_hook, builtin_hook=builtin_hook, method_hook=method_hook,
                      subscript_hook=subscript_hook, setitem_hook=setitem_hook, is_hook=is_hook, iter_hook=iter_hook)


def _restrict_genexp(I, st, g):
    """dict(<(k, d[k]) for k in formats>): execute the element expression for a generic index i; the result
    is the restriction of d's content to the listed names provided every element is (formats[i], d[formats[i]])"""
    node = g.node
    if len(node.generators) != 1 or node.generators[0].ifs:
        raise OutOfSubset("dict(genexp) shape")
    gen = node.generators[0]
    outs = []
    for s0, it in I.eval(gen.iter, st):
        if not isinstance(it, FormatsArg):
            raise OutOfSubset("dict(genexp) over %r" % (it,))
        i = smt.fresh("gi", smt.I)
        s1 = s0.fork()
        s1.pc.append(z3.And(0 <= i, i < fmt_len))
        for s2, c in I.assign(gen.target, SStr(fmt_at(i)), s1):
            for s3, el in I.eval(node.elt, s2):
                if isinstance(el, Raised):
                    # some listed name is absent: the construction raises (KeyError)
                    outs.append((s3, el))
                    continue
                if not (isinstance(el, PyTuple) and len(el.items) == 2 and isinstance(el.items[0], SStr) and isinstance(el.items[1], Ident)):
                    raise OutOfSubset("dict(genexp) element %r" % (el,))
                src = s3.ghost.get("restrict_src")
                # obligation: the generic element is (formats[i], source[formats[i]])
                I.ctx.obligations.append(core.Obligation("%s/F/restrict-element#%d" % (st.unit.key, I.ctx.new_oid()), "F", s3.pc,
                                                         z3.And(el.items[0].t == fmt_at(i), el.items[1].t == src[fmt_at(i)]),
                                                         note="each element of the new registry is (name, class registry[name]) for a listed name"))
                # all elements present: the result
                sA = s0.fork()
                j = z3.Int("jr")
                sA.pc.append(z3.ForAll([j], z3.Implies(z3.And(0 <= j, j < fmt_len), src[fmt_at(j)] != 0)))
                sA, d = new_dict(I, sA, restrict(src, fmt_len))
                outs.append((sA, d))
    return outs


class DeriveTask(CoreTask):
    def __init__(self, root, which, timeout_ms=10000):
        CoreTask.__init__(self, root, 7, which, timeout_ms)
        self.name = "derive:%s" % which
        self.weight = 1

    def cache_key(self):
        from pyvc import driver
        return "derive|%s|%s|%s" % (self.name, self.timeout_ms, driver.dep_hash(self.root, modules=("validators", "_format")))

    def run(self):
        res = CoreTask.run(self)
        if res["status"] != "ok" or any(o["status"] != "discharged" for o in res["obligations"]):
            from pyvc import driver
            try:
                r = driver.rt_call("pyvc.rt_reg", {"cmd": "derive", "root": self.root}, self.root, timeout=3000)
                res["search"] = {"failures": r["failures"], "tried": r["tried"]}
            except Exception as e:      # noqa
                res["search"] = {"failures": [], "error": str(e)[-300:]}
        return res

    # -- extend -----------------------------------------------------------------------------------
    def _run_extend(self, res):
        """extend(validator, validators, version, type_checker): calls create once with the parent's metaschema and
        ID_OF, the given version, the given type checker or else the parent's, and a NEW table whose content is the
        parent's table overlaid with the overrides; the parent's table object is not modified; TypeError (nothing
        created) when a type checker is given for a class created with default types"""
        for tc_given in (False, True):
            repo = extract.Repo(self.root)
            unit = repo.unit("validators:extend")
            res["function"], res["source_hash"] = unit.key, unit.source_hash()
            ctx = Ctx(repo, contracts={}, config={})
            dict_hooks(ctx)
            st = State()
            st.unit = unit
            t0 = z3.Const("parent_table", MapSort)
            st.ghost["dcontent"] = {-1: t0}
            parent_table = DictObj(-1)
            legacy = SB(z3.Bool("created_with_default_types"))
            parent = ClassObj("parent", {"VALIDATORS": parent_table, "META_SCHEMA": Ident("parent_meta"), "TYPE_CHECKER": Ident("parent_type_checker"),
                                         "ID_OF": Ident("parent_id_of"), "_CREATED_WITH_DEFAULT_TYPES": legacy})
            ov = Overrides(z3.Const("overrides", OvSort))
            version = Ident("version")
            tc = Ident("given_type_checker") if tc_given else lift(None)
            calls = []

            class CreateC(core.Contract):
                key = "validators:create"

                def apply(self, I, s, a, k, fref):
                    calls.append((s, a, k))
                    return [(s, ClassObj("new_class", {"__fresh__": True}))]
            ctx.contracts["validators:create"] = CreateC()
            I = Interp(ctx)
            outs = I.run_unit(unit, st, [parent, ov, version, tc], {})
            res["paths"] += len(outs)
            obls = list(ctx.obligations)
            tag = "type_checker-given" if tc_given else "type_checker-omitted"
            for n, (s, ctl) in enumerate(outs):
                nm = "%s/F/%s#%d" % (self.name, tag, n + 1)
                mine = [c for c in calls if c[0] is s or True]
                if ctl[0] == "raise":
                    ok = ctl[1].cls == "TypeError" and tc_given
                    obls.append(core.Obligation(nm + ".raise", "F", s.pc, legacy.f if ok else z3.BoolVal(False),
                                                note="TypeError only when a type checker is given for a class created with default types"))
                    continue
                r = ctl[1]
                if not (isinstance(r, ClassObj) and r.name == "new_class" and len(calls) >= 1):
                    obls.append(core.Obligation(nm, "F", s.pc, z3.BoolVal(False), note="returns what create returns"))
                    continue
                cs, a, k = calls[-1]
                facts, notes = [], []

                def same_ident(v, want):
                    return z3.BoolVal(isinstance(v, Ident) and v.t.eq(want.t))
                okargs = not a and set(k) == {"meta_schema", "validators", "version", "type_checker", "id_of"}
                if not okargs:
                    obls.append(core.Obligation(nm, "F", s.pc, z3.BoolVal(False), note="create is called with the five behaviour parameters (got %s)" % sorted(k)))
                    continue
                obls.append(core.Obligation(nm + ".meta_schema", "F", s.pc, same_ident(k["meta_schema"], parent.attrs["META_SCHEMA"]), note="the parent's metaschema is handed on"))
                obls.append(core.Obligation(nm + ".id_of", "F", s.pc, same_ident(k["id_of"], parent.attrs["ID_OF"]), note="the parent's ID_OF is handed on"))
                obls.append(core.Obligation(nm + ".version", "F", s.pc, same_ident(k["version"], version), note="the given version is handed on"))
                obls.append(core.Obligation(nm + ".type_checker", "F", s.pc, same_ident(k["type_checker"], tc if tc_given else parent.attrs["TYPE_CHECKER"]),
                                            note="the given type checker, or else the parent's, is handed on"))
                tv = k["validators"]
                if isinstance(tv, DictObj):
                    obls.append(core.Obligation(nm + ".table", "F", s.pc,
                                                z3.And(z3.BoolVal(tv.ident != parent_table.ident), content(s, tv) == dict_update(t0, ov.t)),
                                                note="the table handed on is a new dict: the parent's table overlaid with the overrides"))
                else:
                    obls.append(core.Obligation(nm + ".table", "F", s.pc, z3.BoolVal(False), note="a dict is handed on as the table"))
                obls.append(core.Obligation(nm + ".parent-table-unchanged", "W", s.pc, content(s, parent_table) == t0, note="the parent's own table object keeps its content"))
                if tc_given:
                    obls.append(core.Obligation(nm + ".not-legacy", "F", s.pc, z3.Not(legacy.f), note="a class is created with a given type checker only when the parent was not created with default types"))
            self.finish(res, ctx, obls)

    # -- FormatChecker ------------------------------------------------------------------------------
    def _fc(self):
        repo = extract.Repo(self.root)
        ctx = Ctx(repo, contracts={}, config={})
        dict_hooks(ctx)
        st = State()
        c0 = z3.Const("class_registry", MapSort)
        st.ghost["dcontent"] = {-1: c0}
        st.ghost["restrict_src"] = c0
        cls = ClassObj("FormatChecker", {"checkers": DictObj(-1)})
        return repo, ctx, st, cls, c0

    def _run_fc_init(self, res):
        """FormatChecker(formats=None): the instance gets its OWN dict; content == the class registry (formats None) or its
        restriction to the listed names (KeyError when a listed name is unknown); the class registry is untouched"""
        for given in (False, True):
            repo, ctx, st, cls, c0 = self._fc()
            unit = repo.unit("_format:FormatChecker.__init__")
            res["function"], res["source_hash"] = unit.key, unit.source_hash()
            st.unit = unit
            st.pc.append(fmt_len >= 0)
            me = ClassObj("instance", {"__class__": cls, "__fresh__": True})
            I = Interp(ctx)
            outs = I.run_unit(unit, st, [me, FormatsArg() if given else lift(None)], {})
            res["paths"] += len(outs)
            obls = list(ctx.obligations)
            tag = "formats-given" if given else "formats-none"
            j = z3.Int("ji")
            for n, (s, ctl) in enumerate(outs):
                nm = "%s/F/%s#%d" % (self.name, tag, n + 1)
                if ctl[0] == "raise":
                    ok = given and ctl[1].cls == "KeyError"
                    obls.append(core.Obligation(nm + ".raise", "F", s.pc,
                                                z3.Exists([j], z3.And(0 <= j, j < fmt_len, c0[fmt_at(j)] == 0)) if ok else z3.BoolVal(False),
                                                note="KeyError only when a listed name is not in the class registry"))
                    continue
                mine = me.attrs.get("checkers")
                mine = s.ghost.get("attrs", {}).get(("instance", "checkers"))
                if not isinstance(mine, DictObj):
                    obls.append(core.Obligation(nm, "F", s.pc, z3.BoolVal(False), note="self.checkers is assigned a dict"))
                    continue
                want = restrict(c0, fmt_len) if given else c0
                obls.append(core.Obligation(nm + ".own-copy", "F", s.pc, z3.And(z3.BoolVal(mine.ident != -1), content(s, mine) == want),
                                            note="the instance owns a new dict whose content is %s" % ("the class registry restricted to the listed names" if given else "the class registry")))
                obls.append(core.Obligation(nm + ".class-registry-unchanged", "W", s.pc, content(s, DictObj(-1)) == c0, note="the class registry keeps its content"))
            self.finish(res, ctx, obls)

    def _run_fc_checks(self, res):
        """checks(format, raises)(func): exactly the receiver's own registry gets format -> (func, raises); every other
        registry (the class's, other instances') keeps its content; func is returned.  With cls_checks the receiver is the class."""
        for receiver in ("instance", "class"):
            repo, ctx, st, cls, c0 = self._fc()
            outer = repo.unit("_format:FormatChecker.checks")
            inner = repo.unit("_format:FormatChecker.checks._checks")
            res["function"], res["source_hash"] = inner.key, outer.source_hash() + inner.source_hash()
            i0, o0 = z3.Const("instance_registry", MapSort), z3.Const("other_instance_registry", MapSort)
            st.ghost["dcontent"].update({-2: i0, -3: o0})
            me = ClassObj("instance", {"__class__": cls, "checkers": DictObj(-2)}) if receiver == "instance" else cls
            fmt, raises, func = SV(z3.Const("format", V)), Ident("raises"), Ident("func")
            st.pc.append(kind(fmt.t) == K_STR)
            st.unit = outer
            I = Interp(ctx)
            mid = I.run_unit(outer, st, [me, fmt, raises], {})
            obls = []
            for s1, ctl1 in mid:
                if ctl1[0] != "return" or not isinstance(ctl1[1], FuncRef):
                    obls.append(core.Obligation("%s/F/%s.decorator" % (self.name, receiver), "F", s1.pc, z3.BoolVal(False), note="checks returns the registering decorator"))
                    continue
                # registering through the decorator must not have happened yet
                obls.append(core.Obligation("%s/W/%s.nothing-before-decoration" % (self.name, receiver), "W", s1.pc,
                                            z3.And(content(s1, DictObj(-1)) == c0, content(s1, DictObj(-2)) == i0, content(s1, DictObj(-3)) == o0),
                                            note="checks(...) alone registers nothing"))
                outs = I.call_func(s1, ctl1[1], [func], {}, None)
                res["paths"] += len(outs)
                for n, (s, r) in enumerate(outs):
                    nm = "%s/F/%s#%d" % (self.name, receiver, n + 1)
                    if isinstance(r, Raised):
                        obls.append(core.Obligation(nm + ".raise", "S", s.pc, False, note="registration raises %s" % r.exc.cls))
                        continue
                    own, others = (-2, (-1, -3)) if receiver == "instance" else (-1, (-2, -3))
                    before = {-1: c0, -2: i0, -3: o0}
                    obls.append(core.Obligation(nm + ".registered", "F", s.pc,
                                                content(s, DictObj(own)) == z3.Store(before[own], sval(fmt.t), entry(func.t, raises.t)),
                                                note="the receiver's own registry maps the format to (func, raises), every other name as before"))
                    obls.append(core.Obligation(nm + ".others-unchanged", "W", s.pc, z3.And([content(s, DictObj(o)) == before[o] for o in others]),
                                                note="no other registry changes"))
                    obls.append(core.Obligation(nm + ".returns-func", "F", s.pc, z3.BoolVal(isinstance(r, Ident) and r.t.eq(func.t)), note="the decorated function is returned unchanged"))
            obls = list(ctx.obligations) + obls
            self.finish(res, ctx, obls)


uri_normalize = z3.Function("uri_normalize", smt.S, smt.S)       # urlsplit(u).geturl()   (urllib, assumed; shared with the resolver tasks)


class SplitV:
    def __init__(self, t):
        self.t = t


class DictIter:
    def __init__(self, d):
        self.d = d


class URIDictTask(CoreTask):
    """URIDict (C02, C15, C20): every access goes through normalize, and normalize is urlsplit(uri).geturl()"""
    def __init__(self, root, timeout_ms=10000):
        CoreTask.__init__(self, root, 7, "uridict", timeout_ms)
        self.name = "uridict:methods"
        self.weight = 1

    def cache_key(self):
        from pyvc import driver
        return "uridict|%s|%s" % (self.timeout_ms, driver.dep_hash(self.root, modules=("_utils",)))

    def _run_uridict(self, res):
        res["function"] = "_utils:URIDict.{normalize,__getitem__,__setitem__,__delitem__,__iter__,__len__}"
        hashes = ""
        dlen = z3.Function("dict_len", MapSort, smt.I)
        for meth in ("normalize", "__getitem__", "__setitem__", "__delitem__", "__iter__", "__len__"):
            repo = extract.Repo(self.root)
            unit = repo.unit("_utils:URIDict.%s" % meth)
            hashes += unit.source_hash()
            ctx = Ctx(repo, contracts={}, config={})
            dict_hooks(ctx)
            base_builtin, base_method, base_getattr = ctx.config["builtin_hook"], ctx.config["method_hook"], ctx.config["getattr_hook"]
            st = State()
            st.unit = unit
            m0 = z3.Const("store0", MapSort)
            st.ghost["dcontent"] = {-1: m0}
            store = DictObj(-1)
            me = ClassObj("uridict", {"store": store})
            uri = SV(z3.Const("uri", V))
            st.pc.append(kind(uri.t) == K_STR)

            def builtin_hook(I, s, name, a, k, node):
                if name == "urllib.parse.urlsplit" and len(a) == 1 and isinstance(a[0], (SV, SStr)):
                    return [(s, SplitV(a[0].t if isinstance(a[0], SStr) else sval(a[0].t)))]
                if name == "iter" and isinstance(a[0], DictObj):
                    return [(s, DictIter(a[0]))]
                if name == "len" and isinstance(a[0], DictObj):
                    return [(s, SInt(dlen(content(s, a[0]))))]
                return base_builtin(I, s, name, a, k, node)

            def getattr_hook(I, s, obj, attr):
                if isinstance(obj, SplitV):
                    return [(s, BoundMethod(obj, attr))]
                if isinstance(obj, ClassObj) and obj.name == "uridict" and ("_utils:URIDict.%s" % attr) in repo.units:
                    return [(s, BoundMethod(obj, attr))]
                return base_getattr(I, s, obj, attr)

            def method_hook(I, s, obj, name, a, k, node):
                if isinstance(obj, SplitV) and name == "geturl" and not a:
                    return [(s, SStr(uri_normalize(obj.t)))]
                if isinstance(obj, ClassObj) and obj.name == "uridict":
                    return I.call_func(s, FuncRef("_utils:URIDict.%s" % name), [obj] + list(a), k, node)
                return base_method(I, s, obj, name, a, k, node)

            def delitem_hook(I, s, obj, key):
                if not isinstance(obj, DictObj):
                    return None
                kt = key.t if isinstance(key, SStr) else sval(key.t)
                m = content(s, obj)
                out = []
                for s2, w in branch(I.ctx, s, [(m[kt] != 0, "ok"), (m[kt] == 0, "missing")]):
                    if w == "ok":
                        out.append((set_content(s2, obj, z3.Store(content(s2, obj), kt, 0)), ("next", None)))
                    else:
                        out.append((s2, ("raise", ExcVal("KeyError", {}, origin="del dict[]"))))
                return out
            ctx.config.update(builtin_hook=builtin_hook, getattr_hook=getattr_hook, method_hook=method_hook, delitem_hook=delitem_hook)
            I = Interp(ctx)
            value = Ident("value")
            st.pc.append(value.t != 0)
            args = {"normalize": [me, uri], "__getitem__": [me, uri], "__setitem__": [me, uri, value], "__delitem__": [me, uri], "__iter__": [me], "__len__": [me]}[meth]
            outs = I.run_unit(unit, st, args, {})
            res["paths"] += len(outs)
            obls = list(ctx.obligations)
            key = uri_normalize(sval(uri.t))
            for n, (s, ctl) in enumerate(outs):
                nm = "%s/F/%s#%d" % (self.name, meth, n + 1)
                unchanged = content(s, store) == m0
                if meth == "normalize":
                    ok = ctl[0] == "return" and isinstance(ctl[1], SStr)
                    obls.append(core.Obligation(nm, "F", s.pc, (ctl[1].t == key) if ok else z3.BoolVal(False), note="normalize(uri) is urlsplit(uri).geturl()"))
                elif meth == "__getitem__":
                    if ctl[0] == "raise":
                        obls.append(core.Obligation(nm, "F", s.pc, z3.And(z3.BoolVal(ctl[1].cls == "KeyError"), m0[key] == 0, unchanged), note="KeyError iff the normalised key is absent"))
                    else:
                        r = ctl[1]
                        obls.append(core.Obligation(nm, "F", s.pc, z3.And(r.t == m0[key], m0[key] != 0, unchanged) if isinstance(r, Ident) else z3.BoolVal(False),
                                                    note="d[uri] is the value stored under the normalised key"))
                elif meth == "__setitem__":
                    obls.append(core.Obligation(nm, "F", s.pc, (content(s, store) == z3.Store(m0, key, value.t)) if ctl[0] == "return" else z3.BoolVal(False),
                                                note="d[uri] = v stores v under the normalised key and changes nothing else"))
                elif meth == "__delitem__":
                    if ctl[0] == "raise":
                        obls.append(core.Obligation(nm, "F", s.pc, z3.And(z3.BoolVal(ctl[1].cls == "KeyError"), m0[key] == 0, unchanged), note="KeyError iff the normalised key is absent"))
                    else:
                        obls.append(core.Obligation(nm, "F", s.pc, z3.And(m0[key] != 0, content(s, store) == z3.Store(m0, key, 0)), note="del d[uri] removes exactly the normalised key"))
                elif meth == "__iter__":
                    r = ctl[1] if ctl[0] == "return" else None
                    obls.append(core.Obligation(nm, "F", s.pc, z3.And(z3.BoolVal(isinstance(r, DictIter) and r.d.ident == -1), unchanged), note="iteration is over the stored (normalised) keys"))
                else:
                    r = ctl[1] if ctl[0] == "return" else None
                    obls.append(core.Obligation(nm, "F", s.pc, z3.And(r.t == dlen(m0), unchanged) if isinstance(r, SInt) else z3.BoolVal(False), note="len is the number of stored keys"))
            self.finish(res, ctx, obls)
        res["source_hash"] = hashes


def uridict_tasks(root, timeout_ms=10000):
    return [URIDictTask(root, timeout_ms)]


class TypesArgV:
    """the deprecated `types` argument: an abstract mapping that is empty or not"""
    def __init__(self, nonempty):
        self.nonempty = nonempty


def _run_validator_init(self, res):
    """Validator(schema, types, resolver, format_checker): schema / format_checker / resolver are stored as given; without
    a resolver one is built by RefResolver.from_schema(schema, id_of=<the class's id_of>); with a non-empty `types` exactly one
    DeprecationWarning is issued and the INSTANCE gets TYPE_CHECKER = class checker.redefine_many(legacy checks of types) -
    an attribute of the new object only: the class's checker is not assigned; with empty `types` no checker is assigned at all"""
    for types_given in (False, True):
        for resolver_given in (False, True):
            repo = extract.Repo(self.root)
            unit = repo.unit("validators:create.Validator.__init__")
            res["function"], res["source_hash"] = unit.key, unit.source_hash()
            ctx = Ctx(repo, contracts={}, config={})
            dict_hooks(ctx)
            base_builtin, base_method, base_getattr = ctx.config["builtin_hook"], ctx.config["method_hook"], ctx.config["getattr_hook"]
            cls_checker = ClassObj("class_type_checker", {})
            cls = ClassObj("ValidatorClass", {"TYPE_CHECKER": cls_checker})
            me = ClassObj("validator", {"__class__": cls, "__fresh__": True})
            schema, fc = Ident("schema"), Ident("format_checker")
            resolver = Ident("given_resolver") if resolver_given else lift(None)
            types = TypesArgV(SB(z3.Bool("types_nonempty")))
            id_of = Ident("class_id_of")
            events = []

            class LegacyC(core.Contract):
                key = "validators:_generate_legacy_type_checks"

                def apply(self, I, s, a, k, fref):
                    events.append(("legacy", a))
                    return [(s, Overrides(z3.Const("legacy_checks", OvSort)))]
            ctx.contracts[LegacyC.key] = LegacyC()

            def builtin_hook(I, s, name, a, k, node):
                if name == "warnings.warn":
                    s2 = s.fork()
                    cat_ = a[1] if len(a) > 1 else k.get("category")
                    s2.ghost["warned"] = s2.ghost.get("warned", ()) + (getattr(cat_, "name", repr(cat_)),)
                    return [(s2, lift(None))]
                return base_builtin(I, s, name, a, k, node)

            def getattr_hook(I, s, obj, attr):
                if isinstance(obj, ClassObj) and obj.name == "class_type_checker":
                    return [(s, BoundMethod(obj, attr))]
                if isinstance(obj, ClassRef) and obj.name == "RefResolver":
                    return [(s, BoundMethod(obj, attr))]
                return base_getattr(I, s, obj, attr)

            def method_hook(I, s, obj, name, a, k, node):
                if isinstance(obj, ClassObj) and obj.name == "class_type_checker":
                    if name == "redefine_many" and len(a) == 1 and isinstance(a[0], Overrides) and not k:
                        # TypeChecker.redefine_many's contract (contracts/tasks_types.py): a new checker
                        return [(s, ClassObj("derived_type_checker", {"from": a[0]}))]
                    raise OutOfSubset("type checker method %s" % name)
                if isinstance(obj, ClassRef) and obj.name == "RefResolver" and name == "from_schema":
                    s2 = s.fork()
                    s2.ghost["from_schema"] = s2.ghost.get("from_schema", ()) + ((tuple(a), dict(k)),)
                    return [(s2, Ident("own_resolver"))]
                return base_method(I, s, obj, name, a, k, node)

            def truth_hook(I, s, v):
                return v.nonempty.f if isinstance(v, TypesArgV) else None
            ctx.config.update(builtin_hook=builtin_hook, getattr_hook=getattr_hook, method_hook=method_hook, truth_hook=truth_hook)
            I = Interp(ctx)
            st = State()
            st.unit = unit
            st.closure = {"id_of": id_of}
            st.pc.append(types.nonempty.f if types_given else z3.Not(types.nonempty.f))
            outs = I.run_unit(unit, st, [me, schema, types, resolver, fc], {})
            res["paths"] += len(outs)
            obls = list(ctx.obligations)
            tag = "%s+%s" % ("types" if types_given else "no-types", "resolver" if resolver_given else "no-resolver")
            for n, (s, ctl) in enumerate(outs):
                nm = "%s/F/%s#%d" % (self.name, tag, n + 1)
                if ctl[0] == "raise":
                    obls.append(core.Obligation(nm + ".raise", "S", s.pc, False, note="the constructor raises %s" % ctl[1].cls))
                    continue
                at = s.ghost.get("attrs", {})

                def is_(v, want):
                    return isinstance(v, Ident) and v.t.eq(want.t)
                obls.append(core.Obligation(nm + ".schema", "F", s.pc, z3.BoolVal(is_(at.get(("validator", "schema")), schema)), note="self.schema is the given schema"))
                obls.append(core.Obligation(nm + ".format_checker", "F", s.pc, z3.BoolVal(is_(at.get(("validator", "format_checker")), fc)), note="self.format_checker is the given checker"))
                fs = s.ghost.get("from_schema", ())
                if resolver_given:
                    ok = is_(at.get(("validator", "resolver")), resolver) and not fs
                    obls.append(core.Obligation(nm + ".resolver", "F", s.pc, z3.BoolVal(bool(ok)), note="a given resolver is used as it is; none is built"))
                else:
                    r = at.get(("validator", "resolver"))
                    ok = isinstance(r, Ident) and r.name == "own_resolver" and len(fs) == 1 and len(fs[0][0]) == 1 and is_(fs[0][0][0], schema) and \
                        set(fs[0][1]) == {"id_of"} and is_(fs[0][1]["id_of"], id_of)
                    obls.append(core.Obligation(nm + ".resolver", "F", s.pc, z3.BoolVal(bool(ok)),
                                                note="without a resolver exactly one is built by RefResolver.from_schema(schema, id_of=<the class's id_of>)"))
                tcw = at.get(("validator", "TYPE_CHECKER"))
                warned = s.ghost.get("warned", ())
                if types_given:
                    ok = isinstance(tcw, ClassObj) and tcw.name == "derived_type_checker" and len(events) >= 1 and len(events[-1][1]) == 1 and events[-1][1][0] is types
                    obls.append(core.Obligation(nm + ".instance-checker", "F", s.pc, z3.BoolVal(bool(ok)),
                                                note="the instance's TYPE_CHECKER is the class's checker redefined with the legacy checks of `types` (a new checker; the class attribute is not assigned)"))
                    obls.append(core.Obligation(nm + ".warning", "F", s.pc, z3.BoolVal(len(warned) == 1 and "DeprecationWarning" in warned[0]), note="exactly one DeprecationWarning"))
                else:
                    obls.append(core.Obligation(nm + ".no-checker-write", "W", s.pc, z3.BoolVal(tcw is None and not warned), note="without `types` no TYPE_CHECKER is assigned and nothing is warned"))
                obls.append(core.Obligation(nm + ".class-untouched", "W", s.pc, z3.BoolVal(cls.attrs.get("TYPE_CHECKER") is cls_checker and set(cls.attrs) == {"TYPE_CHECKER"}),
                                            note="the class's attributes are not assigned"))
            self.finish(res, ctx, obls)


DeriveTask._run_validator_init = _run_validator_init


# ------------------------------------------------------------------------------------------------
# validators._generate_legacy_type_checks: the closures it hands to TypeChecker.redefine_many
class PyTypesV:
    """the (flattened) tuple of Python types of one legacy type name: abstract; `bool in pytypes` is the Bool `has_bool`,
    isinstance(x, pytypes) the uninterpreted predicate legacy_isinstance(x) (x a JSON value)"""
    def __init__(self, name, flattened):
        self.name, self.flattened = name, flattened


legacy_isinstance = z3.Function("legacy_isinstance", V, smt.B)
legacy_has_bool = z3.Bool("legacy_bool_in_pytypes")


def _legacy_ctx(root):
    repo = extract.Repo(root)
    ctx = Ctx(repo, contracts={}, config={})
    flattened = []

    class FlattenC(core.Contract):
        key = "_utils:flatten"

        def apply(self, I, s, a, k, fref):
            if len(a) != 1 or k or not isinstance(a[0], PyTypesV) or a[0].flattened:
                raise OutOfSubset("flatten(%r)" % (a,))
            v = PyTypesV(a[0].name, True)
            flattened.append(v)
            return [(s, v)]
    ctx.contracts[FlattenC.key] = FlattenC()

    def isinstance_hook(I, s, x, tv):
        if isinstance(tv, PyTypesV) and tv.flattened and isinstance(x, SV):
            return [(s, SB(legacy_isinstance(x.t)))]
        return None

    def in_hook(I, s, x, c):
        if isinstance(c, PyTypesV) and c.flattened and isinstance(x, (ClassRef, Builtin)) and getattr(x, "name", None) == "bool":
            return [(s, SB(legacy_has_bool))]
        return None
    ctx.config.update(isinstance_hook=isinstance_hook, in_hook=in_hook)
    return repo, ctx, flattened


def _run_legacy_checks(self, res):
    """_generate_legacy_type_checks, the part C16 / C18 rely on: the closures handed to TypeChecker.redefine_many are pure -
    gen_type_check(pytypes) writes nothing and returns a NEW function (the closure type_check over the flattened types), and
    type_check(checker, x) writes nothing for any JSON value x and does not touch the checker it is given.  (What the
    closure answers - isinstance(x, types), booleans only when bool is listed - is the meaning of the deprecated argument
    for the NEW validator; no listed property states it, so it is computed but not an obligation of any check.)"""
    # (1) gen_type_check
    repo, ctx, flattened = _legacy_ctx(self.root)
    unit = repo.unit("validators:_generate_legacy_type_checks.gen_type_check")
    res["function"] = "validators:_generate_legacy_type_checks.{gen_type_check,type_check}"
    hashes = unit.source_hash()
    I = Interp(ctx)
    st = State()
    st.unit = unit
    given = PyTypesV("pytypes", False)
    outs = I.run_unit(unit, st, [given], {})
    res["paths"] += len(outs)
    obls = list(ctx.obligations)
    for n, (s, ctl) in enumerate(outs):
        nm = "%s/W/gen_type_check#%d" % (self.name, n + 1)
        if ctl[0] != "return":
            continue
        r = ctl[1]
        ok = isinstance(r, FuncRef) and r.key.startswith("validators:_generate_legacy_type_checks.gen_type_check.") and \
            not s.ghost.get("attrs") and not s.ghost.get("map_writes")
        obls.append(core.Obligation(nm, "W", s.pc, z3.BoolVal(bool(ok)),
                                    note="gen_type_check writes nothing and returns a new function defined inside it (a closure; nothing shared with pre-existing checkers)"))
    # (2) the closure gen_type_check returned, called on every JSON value (whatever its free variables are called)
    x = SV(z3.Const("instance", V))
    n2 = 0
    for s, ctl in outs:
        if ctl[0] != "return" or not isinstance(ctl[1], FuncRef):
            continue
        if ctl[1].key in repo.units:
            hashes += repo.unit(ctl[1].key).source_hash()
        outs2 = I.call_func(s, ctl[1], [Ident("checker"), x], {}, None)
        res["paths"] += len(outs2)
        for s2, r2 in outs2:
            n2 += 1
            if isinstance(r2, Raised):
                continue
            obls.append(core.Obligation("%s/W/type_check#%d.pure" % (self.name, n2), "W", s2.pc,
                                        z3.BoolVal(not s2.ghost.get("attrs") and not s2.ghost.get("map_writes")),
                                        note="a legacy type check writes nothing"))
    obls = [o for o in ctx.obligations if o not in obls] + obls
    self.finish(res, ctx, obls)
    res["source_hash"] = hashes


DeriveTask._run_legacy_checks = _run_legacy_checks


def derive_tasks(root, timeout_ms=10000):
    return [DeriveTask(root, w, timeout_ms) for w in ("extend", "fc_init", "fc_checks", "validator_init", "legacy_checks")]
