"""Verification tasks for the derivation operations of TypeChecker (C16): is_type, redefine,
redefine_many, remove, stated over the map of type names to checking functions.

Model: a pyrsistent pmap is a *value* (an SMT array from names to function identities, 0 = absent);
`update` / `remove` return new values (assumed contract of pyrsistent: persistent), `attr.evolve`
returns a new TypeChecker holding the given map (assumed contract of attrs; converter pmap(pmap) is
the identity).  Because maps are values, "the original is unchanged" is the write frame of C16
(no assignment to a pre-existing object) together with the assumed persistence."""
import ast as _ast

import z3

from pyvc import smt, extract
from pyvc.smt import V, kind, sval, K_STR
from pyvc.values import *      # noqa
from pyvc.interp import State, Ctx, Interp, lift, Raised, branch, truth
from pyvc.loops import LoopInv, IterSpec, loop_ordinal
from contracts import core
from contracts.tasks_core import CoreTask

MapSort = z3.ArraySort(smt.S, smt.I)
apply_fn = z3.Function("apply_type_fn", smt.I, smt.I, V, smt.B)     # fn(checker, instance) as truth value
names_at = z3.Function("removed_name", smt.I, smt.S)                 # the *types arguments of remove
names_len = z3.Int("removed_len")


class PMapV:
    def __init__(self, t):
        self.t = t


DefSort = z3.DeclareSort("Definitions")
defs_has = z3.Function("defs_has", DefSort, smt.S, smt.B)
defs_val = z3.Function("defs_val", DefSort, smt.S, smt.I)
overlay = z3.Function("pmap_update", MapSort, DefSort, MapSort)      # pmap.update(mapping)
map_after = z3.Function("map_after", smt.I, MapSort)                  # remove: the map after the first k names


def overlay_axiom(m, d):
    """assumed contract of pyrsistent pmap.update (instance at m, d)"""
    s_ = z3.String("so")
    return z3.ForAll([s_], overlay(m, d)[s_] == z3.If(defs_has(d, s_), defs_val(d, s_), m[s_]))


class DefsV:
    """the `definitions` argument of redefine_many: an abstract mapping `t`, or the literal {key: fn}"""
    def __init__(self, t=None, single=None):
        self.t, self.single = t, single


class FnV:
    def __init__(self, t):
        self.t = t


class TypesArg:
    """*types of remove"""


class CheckerObj:
    """a TypeChecker: identity and map"""
    def __init__(self, ident, m):
        self.ident, self.m = ident, m


def map_after_axioms(m0, k):
    """definition of map_after (instances at k): the receiver's map with the first k names removed one by one"""
    return [map_after(0) == m0, z3.Implies(k >= 0, map_after(k + 1) == z3.Store(map_after(k), names_at(k), 0))]


class RemoveInv(LoopInv):
    """after k names: checkers == map_after(k), and every one of them was present when its turn came"""
    def __init__(self, m0):
        self.m0 = m0

    def at(self, I, st, k, spec):
        j = z3.Int("jq")
        f = z3.ForAll([j], z3.Implies(z3.And(0 <= j, j < k), map_after(j)[names_at(j)] != 0))
        return {"env": {"checkers": PMapV(map_after(k))}, "formula": z3.And(k >= 0, f), "axiom_instances": map_after_axioms(self.m0, k)}


def _value_equal_hook(a, b):
    if isinstance(a, PMapV) and isinstance(b, PMapV):
        return a.t == b.t
    return None


class TypeCheckerTask(CoreTask):
    def __init__(self, root, which, timeout_ms=10000):
        CoreTask.__init__(self, root, 7, which, timeout_ms)
        self.name = "types:%s" % which
        self.weight = 1

    def cache_key(self):
        from pyvc import driver
        return "types|%s|%s|%s" % (self.name, self.timeout_ms, driver.dep_hash(self.root, modules=("_types", "exceptions")))

    def run(self):
        res = CoreTask.run(self)
        if res["status"] != "ok" or any(o["status"] != "discharged" for o in res["obligations"]):
            # directed search on the real classes: the derivation script of the C16 stand-in
            from pyvc import driver
            try:
                r = driver.rt_call("pyvc.rt_reg", {"cmd": "derive", "root": self.root}, self.root, timeout=3000)
                res["search"] = {"failures": r["failures"], "tried": r["tried"]}
            except Exception as e:      # noqa
                res["search"] = {"failures": [], "error": str(e)[-300:]}
        return res

    def _setup(self):
        repo = extract.Repo(self.root)
        ctx = Ctx(repo, contracts={}, config={})
        m0 = z3.Const("type_map", MapSort)
        me = CheckerObj(z3.Int("checker_id"), m0)
        task = self

        def getattr_hook(I, st, obj, attr):
            if isinstance(obj, CheckerObj):
                if attr == "_type_checkers":
                    return [(st, PMapV(obj.m))]
                key = "_types:TypeChecker.%s" % attr
                if key in repo.units:
                    c = ctx.contracts.get(key)
                    return [(st, BoundMethod(obj, attr))]
            if isinstance(obj, PMapV):
                return [(st, BoundMethod(obj, attr))]
            return None

        def method_hook(I, st, obj, name, a, k, node):
            if isinstance(obj, CheckerObj):
                key = "_types:TypeChecker.%s" % name
                return I.call_func(st, FuncRef(key), [obj] + list(a), k, node)
            if isinstance(obj, PMapV) and name == "update":
                d = a[0]
                if isinstance(d, DefsV) and d.single is not None:
                    return [(st, PMapV(z3.Store(obj.t, d.single[0], d.single[1])))]
                if isinstance(d, DefsV):
                    return [(st, PMapV(overlay(obj.t, d.t)))]
                if isinstance(d, PyDict):
                    t = obj.t
                    for kk, vv in d.items.items() if hasattr(d, "items") and isinstance(d.items, dict) else []:
                        t = z3.Store(t, kk, vv.t)
                    return [(st, PMapV(t))]
                raise OutOfSubset("pmap.update(%r)" % (d,))
            if isinstance(obj, PMapV) and name == "remove":
                x = a[0]
                key = x.t if isinstance(x, SStr) else sval(x.t)
                return branch(I.ctx, st, [(obj.t[key] != 0, PMapV(z3.Store(obj.t, key, 0))),
                                          (obj.t[key] == 0, Raised(ExcVal("KeyError", {}, origin="pmap.remove")))])
            return None

        def subscript_hook(I, st, obj, key):
            if isinstance(obj, PMapV):
                kt = key.t if isinstance(key, SStr) else sval(key.t)
                return branch(I.ctx, st, [(obj.t[kt] != 0, FnV(obj.t[kt])),
                                          (obj.t[kt] == 0, Raised(ExcVal("KeyError", {}, origin="pmap[]")))])
            return None

        def in_hook(I, st, x, c):
            if isinstance(c, PMapV):
                kt = x.t if isinstance(x, SStr) else sval(x.t)
                return [(st, SB(c.t[kt] != 0))]
            return None

        def builtin_hook(I, st, name, a, k, node):
            if name == "attr.evolve":
                if not (isinstance(a[0], CheckerObj) and set(k) == {"type_checkers"} and isinstance(k["type_checkers"], PMapV)):
                    raise OutOfSubset("attr.evolve with other arguments")
                new = smt.fresh("new_checker", smt.I)
                st2 = st.fork()
                st2.pc.append(new != a[0].ident)      # attr.evolve allocates: a new object (assumed)
                return [(st2, CheckerObj(new, k["type_checkers"].t))]
            return None

        def call_hook(I, st, f, a, k, node):
            if isinstance(f, FnV):
                if not (len(a) == 2 and isinstance(a[0], CheckerObj) and isinstance(a[1], SV) and not k):
                    raise OutOfSubset("type function called with other arguments")
                return [(st, SB(apply_fn(f.t, a[0].ident, a[1].t)))]
            return None

        def iter_hook(I, st, it):
            if isinstance(it, TypesArg):
                return [(st, IterSpec(n=names_len, elem=lambda i: SStr(names_at(i))))]
            return None

        def dict_literal_hook(I, node, st):
            if len(node.keys) != 1 or node.keys[0] is None:
                return None
            out = []
            for s1, kv in I.eval(node.keys[0], st):
                for s2, vv in I.eval(node.values[0], s1):
                    if not (isinstance(kv, SV) and isinstance(vv, FnV)):
                        return None
                    kt, vt = sval(kv.t), vv.t
                    out.append((s2, DefsV(single=(kt, vt))))
            return out
        ctx.config.update(dict_literal_hook=dict_literal_hook, in_hook=in_hook, getattr_hook=getattr_hook, method_hook=method_hook, subscript_hook=subscript_hook, builtin_hook=builtin_hook,
                          call_hook=call_hook, iter_hook=iter_hook)
        return repo, ctx, me, m0

    def _run_is_type(self, res):
        """is_type(x, t): UndefinedTypeCheck iff t is not in the map, otherwise exactly what the mapped function says of (checker, x)"""
        repo, ctx, me, m0 = self._setup()
        unit = repo.unit("_types:TypeChecker.is_type")
        res["function"], res["source_hash"] = unit.key, unit.source_hash()
        I = Interp(ctx)
        st = State()
        st.unit = unit
        x, t = SV(z3.Const("instance", V)), SV(z3.Const("type_name", V))
        st.pc.append(kind(t.t) == K_STR)
        outs = I.run_unit(unit, st, [me, x, t], {})
        res["paths"] = len(outs)
        obls = list(ctx.obligations)
        present = m0[sval(t.t)] != 0
        for n, (s, ctl) in enumerate(outs):
            if ctl[0] == "raise":
                if ctl[1].cls == "UndefinedTypeCheck":
                    obls.append(core.Obligation("%s/F/undefined#%d" % (self.name, n + 1), "F", s.pc, z3.Not(present), note="UndefinedTypeCheck only for a name that is not in the map"))
                else:
                    obls.append(core.Obligation("%s/S/raise:%s#%d" % (self.name, ctl[1].cls, n + 1), "S", s.pc, False, note="is_type raises %s" % ctl[1].cls))
                continue
            r = ctl[1]
            ok = z3.And(present, truth(ctx, s, r) == apply_fn(m0[sval(t.t)], me.ident, x.t)) if isinstance(r, SB) else z3.BoolVal(False)
            obls.append(core.Obligation("%s/F/result#%d" % (self.name, n + 1), "F", s.pc, ok, note="is_type(x, t) is what the function mapped to t says of (this checker, x)"))
        self.finish(res, ctx, obls)

    def _run_redefine(self, res):
        """redefine(t, fn) / redefine_many(defs): a new checker whose map is the receiver's map overridden by the definitions"""
        repo, ctx, me, m0 = self._setup()
        res["function"] = "_types:TypeChecker.redefine+redefine_many"
        hashes = ""
        for which in ("redefine", "redefine_many"):
            repo, ctx, me, m0 = self._setup()
            unit = repo.unit("_types:TypeChecker.%s" % which)
            hashes += unit.source_hash()
            I = Interp(ctx)
            st = State()
            st.unit = unit
            s_ = z3.String("sr")
            if which == "redefine":
                t, fn = SV(z3.Const("type_name", V)), FnV(z3.Int("fn_id"))
                st.pc.extend([kind(t.t) == K_STR, fn.t != 0])
                args = [me, t, fn]
                want = lambda m: m == z3.Store(m0, sval(t.t), fn.t)      # noqa
            else:
                dd = z3.Const("definitions", DefSort)
                args = [me, DefsV(t=dd)]
                want = lambda m: m == overlay(m0, dd)      # noqa
            outs = I.run_unit(unit, st, args, {})
            res["paths"] += len(outs)
            obls = list(ctx.obligations)
            for n, (s, ctl) in enumerate(outs):
                if ctl[0] == "raise":
                    obls.append(core.Obligation("%s/S/%s.raise:%s#%d" % (self.name, which, ctl[1].cls, n + 1), "S", s.pc, False, note="%s raises" % which))
                    continue
                r = ctl[1]
                ok = z3.And(r.ident != me.ident, want(r.m)) if isinstance(r, CheckerObj) and r is not me else z3.BoolVal(False)
                obls.append(core.Obligation("%s/F/%s.result#%d" % (self.name, which, n + 1), "F", s.pc, ok,
                                            note="%s returns a new checker: the given names map to the given functions, every other name as in the receiver" % which))
            self.finish(res, ctx, obls)
        res["source_hash"] = hashes

    def _run_remove(self, res):
        """remove(*names): UndefinedTypeCheck iff some name is absent when its turn comes; otherwise a new checker without exactly those names"""
        repo, ctx, me, m0 = self._setup()
        unit = repo.unit("_types:TypeChecker.remove")
        res["function"], res["source_hash"] = unit.key, unit.source_hash()
        loops = [n for n in _ast.walk(unit.node) if isinstance(n, _ast.For)]
        ctx.config["loop_invs"] = {(unit.key, loop_ordinal(unit, l)): RemoveInv(m0) for l in loops}
        ctx.config["value_equal_hook"] = _value_equal_hook
        I = Interp(ctx)
        st = State()
        st.unit = unit
        st.pc.append(names_len >= 0)
        outs = I.run_unit(unit, st, [me], {"*types": TypesArg()})
        res["paths"] = len(outs)
        obls = list(ctx.obligations)
        s_, j = z3.String("sw"), z3.Int("jw")
        for n, (s, ctl) in enumerate(outs):
            if ctl[0] == "raise":
                if ctl[1].cls == "UndefinedTypeCheck":
                    # some name was absent from the map when its turn came
                    k = z3.Int("kw")
                    absent = z3.Exists([k], z3.And(0 <= k, k < names_len, map_after(k)[names_at(k)] == 0))
                    obls.append(core.Obligation("%s/F/undefined#%d" % (self.name, n + 1), "F", s.pc, absent,
                                                note="UndefinedTypeCheck only when a listed name is not (or no longer) in the map"))
                else:
                    obls.append(core.Obligation("%s/S/raise:%s#%d" % (self.name, ctl[1].cls, n + 1), "S", s.pc, False, note="remove raises %s" % ctl[1].cls))
                continue
            r = ctl[1]
            if not isinstance(r, CheckerObj) or r is me:
                obls.append(core.Obligation("%s/F/result#%d" % (self.name, n + 1), "F", s.pc, z3.BoolVal(False), note="returns a new checker"))
                continue
            obls.append(core.Obligation("%s/F/result#%d" % (self.name, n + 1), "F", s.pc,
                                        z3.And(r.ident != me.ident, r.m == map_after(names_len)),
                                        note="remove returns a new checker whose map is the receiver's with the listed names removed one by one"))
            kk = z3.Int("kp")
            obls.append(core.Obligation("%s/F/all-present#%d" % (self.name, n + 1), "F", s.pc,
                                        z3.ForAll([kk], z3.Implies(z3.And(0 <= kk, kk < names_len), map_after(kk)[names_at(kk)] != 0)),
                                        note="a normal return means every listed name was in the map when its turn came"))
        # closed form of map_after by induction on k (lemma): map_after(k)[s] == 0 if s is among the first k names, else m0[s]
        kq, sq, jq = z3.Int("kl"), z3.String("sl"), z3.Int("jl")
        closed = lambda k, s: map_after(k)[s] == z3.If(z3.Exists([jq], z3.And(0 <= jq, jq < k, names_at(jq) == s)), 0, m0[s])      # noqa
        obls.append(core.Obligation("%s/L/closed-form.base" % self.name, "L", [map_after(0) == m0], closed(z3.IntVal(0), sq),
                                    note="lemma (base): before any removal the map is the receiver's"))
        obls.append(core.Obligation("%s/L/closed-form.step" % self.name, "L",
                                    [kq >= 0, map_after(kq + 1) == z3.Store(map_after(kq), names_at(kq), 0), z3.ForAll([sq], closed(kq, sq))],
                                    closed(kq + 1, z3.String("s_fresh")),
                                    note="lemma (step): a name maps to nothing iff it is among the names removed so far, every other name as in the receiver"))
        self.finish(res, ctx, obls)


def type_checker_tasks(root, timeout_ms=10000):
    return [TypeCheckerTask(root, w, timeout_ms) for w in ("is_type", "redefine", "remove")]
