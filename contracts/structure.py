"""Expected result *structure* of each keyword function (C05: every violation is reported, one error
per violation; C06: each applicator passes the instance index/key and the schema index/key of the
element it descends into).  Taken from the property statements and Appendix A, not from the code.

The structure is a sequence expression over `descend(instance_part, sub_schema, path=..,
schema_path=..)` results and freshly constructed errors (relative paths empty, keyword/instance/
schema left for iter_errors to fill in), with the guards of the keyword semantics."""
import z3

from pyvc import smt
from pyvc.smt import kind, llen, lget, dlen, dkey, dval, dhas, dget, sval, K_DICT, K_LIST, K_STR, K_BOOL
from pyvc.values import *      # noqa
from spec import drafts
from contracts import core


def ERR(context=NIL, **fields):
    f = {"message": Opaque("msg"), "validator": UNSET, "validator_value": UNSET, "instance": UNSET, "schema": UNSET,
         "cause": None, "parent": None, "path": PathV(), "schema_path": PathV(), "context": context}
    f.update(fields)
    return One(ErrVal("ValidationError", None, f))


def when(c, seq):
    return Alt([(c, seq), (z3.Not(c), NIL)])


def D(scope, sub, inst, path=None, spath=None):
    """descend(inst, sub, path=path, schema_path=spath)"""
    def desc(v):
        if v is None:
            return None
        if isinstance(v, (str, int)) and not isinstance(v, bool):
            return v
        return v
    st, it = (sub.t if isinstance(sub, SV) else sub), (inst.t if isinstance(inst, SV) else inst)
    return Gen("descend", (scope, st, it, desc(path), desc(spath)), core.Vp(scope, st, it), {})


def fresh_i(p="e"):
    return smt.fresh(p, smt.I)


def expected(o, d, k, v, x, s, scope):
    """expected result sequence of the function bound to keyword k in draft d"""
    vt, xt, st = v.t, x.t, s.t
    K = drafts.K[k](o, d, v, x, s)
    obj, arr = kind(xt) == K_DICT, kind(xt) == K_LIST
    SINGLE = ("minItems", "maxItems", "minLength", "maxLength", "minProperties", "maxProperties", "pattern", "const", "enum",
              "minimum", "maximum", "exclusiveMinimum", "exclusiveMaximum", "multipleOf", "divisibleBy", "uniqueItems",
              "not", "contains", "format")
    if k in SINGLE or (k == "type" and d >= 4):
        return when(z3.Not(K), ERR())
    if k == "required":
        i = fresh_i()
        return when(obj, For(i, llen(vt), when(z3.Not(dhas(xt, sval(lget(vt, i)))), ERR())))
    if k == "allOf":
        i = fresh_i()
        return For(i, llen(vt), D(scope, lget(vt, i), xt, None, i))
    if k == "extends":
        i = fresh_i()
        return Alt([(kind(vt) == K_DICT, D(scope, vt, xt, None, None)),
                    (kind(vt) != K_DICT, For(i, llen(vt), D(scope, lget(vt, i), xt, None, i)))])
    if k == "anyOf":
        i = fresh_i()
        return when(z3.Not(K), ERR(context=For(i, llen(vt), D(scope, lget(vt, i), xt, None, i))))
    if k == "oneOf":
        i, j = fresh_i(), fresh_i()
        none = z3.ForAll([j], z3.Implies(z3.And(0 <= j, j < llen(vt)), z3.Not(core.Vp(scope, lget(vt, j), xt))))
        return Alt([(none, ERR(context=For(i, llen(vt), D(scope, lget(vt, i), xt, None, i)))),
                    (z3.And(z3.Not(none), z3.Not(K)), ERR()),
                    (K, NIL)])
    if k == "if":
        cond = core.Vp(scope, vt, xt)
        th, el = z3.StringVal("then"), z3.StringVal("else")
        return Alt([(z3.And(cond, dhas(st, th)), D(scope, dget(st, th), xt, None, "then")),
                    (z3.And(z3.Not(cond), dhas(st, el)), D(scope, dget(st, el), xt, None, "else")),
                    (z3.Or(z3.And(cond, z3.Not(dhas(st, th))), z3.And(z3.Not(cond), z3.Not(dhas(st, el)))), NIL)])
    if k == "items":
        i = fresh_i()
        j = fresh_i()
        single = (kind(vt) == K_DICT) if d < 6 else z3.Or(kind(vt) == K_DICT, kind(vt) == K_BOOL)
        n = z3.If(llen(vt) < llen(xt), llen(vt), llen(xt))
        return when(arr, Alt([(single, For(i, llen(xt), D(scope, vt, lget(xt, i), i, None))),
                              (z3.Not(single), For(j, n, D(scope, lget(vt, j), lget(xt, j), j, j)))]))
    if k == "additionalItems":
        i = fresh_i()
        items = dget(st, z3.StringVal("items"))
        tup = z3.And(dhas(st, z3.StringVal("items")), kind(items) == K_LIST)
        n = llen(items)
        return when(z3.And(arr, tup),
                    Alt([(kind(vt) == K_DICT, For(i, llen(xt), D(scope, vt, lget(xt, i), i, None), lo=z3.If(n < llen(xt), n, llen(xt)))),
                         (z3.And(kind(vt) != K_DICT, z3.Not(K)), ERR()),
                         (z3.And(kind(vt) != K_DICT, K), NIL)]))
    if k == "properties":
        i = fresh_i()
        key, sub = dkey(vt, i), dval(vt, i)
        present = dhas(xt, key)
        body = [(present, D(scope, sub, dget(xt, key), smt.mk_str(key), smt.mk_str(key)))]
        if d == 3:
            req = z3.And(dhas(sub, z3.StringVal("required")), smt.truthy(dget(sub, z3.StringVal("required"))))
            body.append((z3.And(z3.Not(present), req),
                         ERR(validator=_lift("required"), validator_value=SV(dget(sub, z3.StringVal("required"))),
                             instance=x, schema=s, path=PathV(front=(SV(smt.mk_str(key)),)),
                             schema_path=PathV(back=(SV(smt.mk_str(key)), _lift("required"))))))
            body.append((z3.And(z3.Not(present), z3.Not(req)), NIL))
        else:
            body.append((z3.Not(present), NIL))
        return when(obj, For(i, dlen(vt), Alt(body)))
    if k == "patternProperties":
        i, j = fresh_i(), fresh_i()
        return when(obj, For(i, dlen(vt), For(j, dlen(xt), when(smt.re_search(dkey(vt, i), dkey(xt, j)),
                                                                D(scope, dval(vt, i), dval(xt, j), smt.mk_str(dkey(xt, j)), smt.mk_str(dkey(vt, i)))))))
    if k == "propertyNames":
        j = fresh_i()
        return when(obj, For(j, dlen(xt), D(scope, vt, smt.mk_str(dkey(xt, j)), None, None)))
    if k == "additionalProperties":
        j = fresh_i()
        from spec.drafts import _is_extra
        extra = _is_extra(o, s, dkey(xt, j))
        q = fresh_i()
        any_extra = z3.Exists([q], z3.And(0 <= q, q < dlen(xt), _is_extra(o, s, dkey(xt, q))))
        return when(obj, Alt([(kind(vt) == K_DICT, For(j, dlen(xt), when(extra, D(scope, vt, dval(xt, j), smt.mk_str(dkey(xt, j)), None)), unordered=True)),
                              (z3.And(kind(vt) != K_DICT, z3.Not(smt.truthy(vt)), any_extra), ERR()),
                              (z3.And(kind(vt) != K_DICT, z3.Not(z3.And(z3.Not(smt.truthy(vt)), any_extra))), NIL)]))
    if k == "dependencies":
        i, j = fresh_i(), fresh_i()
        key, dep = dkey(vt, i), dval(vt, i)
        missing = For(j, llen(dep), when(z3.Not(dhas(xt, sval(lget(dep, j)))), ERR()))
        sub = D(scope, dep, xt, None, smt.mk_str(key))
        if d == 3:
            inner = Alt([(kind(dep) == K_DICT, sub),
                         (kind(dep) == K_STR, when(z3.Not(dhas(xt, sval(dep))), ERR())),
                         (z3.And(kind(dep) != K_DICT, kind(dep) != K_STR), missing)])
        else:
            inner = Alt([(kind(dep) == K_LIST, missing), (kind(dep) != K_LIST, sub)])
        return when(obj, For(i, dlen(vt), when(dhas(xt, key), inner)))
    if k == "type" and d == 3:
        i = fresh_i()
        el = lget(vt, i)
        ctx = For(i, llen(vt), when(kind(el) == K_DICT, D(scope, el, xt, None, i)))
        return Alt([(z3.And(z3.Not(K), kind(vt) == K_STR), ERR()),
                    (z3.And(z3.Not(K), kind(vt) != K_STR), ERR(context=ctx)),
                    (K, NIL)])
    if k == "disallow":
        i = fresh_i()

        def acc(t):
            tv = SV(t)
            return z3.If(kind(t) == K_STR, drafts.T_sym(o, d, sval(t), x), core.Vp(scope, t, xt))
        return Alt([(kind(vt) == K_STR, when(drafts.T_sym(o, d, sval(vt), x), ERR())),
                    (kind(vt) != K_STR, For(i, llen(vt), when(acc(lget(vt, i)), ERR())))])
    return None


def _lift(c):
    from pyvc.interp import lift
    return lift(c)


def expected_iter_errors(repo, d, table, scope_in, x, s, KwGen):
    """iter_errors(x, s): for each member (k, v) of the schema object, in order, the errors of the
    keyword function bound to k, each with keyword/value/instance/schema filled in where still unset
    (innermost wins) and k prepended to its schema path (except `if` and `$ref`); `$ref` replaces all
    its siblings; `false` yields one error without keyword; `true` yields nothing.
    KwGen(k, scope, v, x, s) builds the Gen node of the keyword function's contract."""
    from contracts.tasks_core import rebase
    from pyvc.interp import lift
    st, xt = s.t, x.t
    scope = rebase(d, scope_in, s)

    def fin(k, v, gen):
        kv = lift(k)
        elem = ErrVal(base=ErrElem(gen))
        elem = elem.with_setif("validator", kv).with_setif("validator_value", v).with_setif("instance", x).with_setif("schema", s)
        if k not in ("if", "$ref"):
            elem = elem.with_field("schema_path", PathV(base=("elem", "schema_path")).appendleft(kv))
        return ForErr(gen, One(elem))

    i = fresh_i()
    key, val = dkey(st, i), SV(dval(st, i))
    cases = []
    for k in table:
        g = KwGen(k, scope, val, x, s)
        cases.append((z3.And(key == z3.StringVal(k), z3.Not(g.empty)), fin(k, val, g)))
    known = z3.Or([key == z3.StringVal(k) for k in table])
    rest = z3.Not(z3.Or([c for c, _ in cases]))
    cases.append((rest, NIL))
    obj_case = For(i, dlen(st), Alt(cases))
    refk = z3.StringVal("$ref")
    refv = SV(dget(st, refk))
    has_ref = z3.And(dhas(st, refk), kind(refv.t) != smt.K_NONE)
    if "$ref" in table:
        gref = KwGen("$ref", scope, refv, x, s)
        ref_case = when(z3.Not(gref.empty), fin("$ref", refv, gref))
    else:
        ref_case = NIL
    body = Alt([(has_ref, ref_case), (z3.Not(has_ref), obj_case)])
    if d >= 6:
        false_err = ERR(validator=lift(None), validator_value=lift(None), instance=x, schema=s)
        return Alt([(z3.And(kind(st) == K_BOOL, smt.bval(st)), NIL),
                    (z3.And(kind(st) == K_BOOL, z3.Not(smt.bval(st))), false_err),
                    (kind(st) != K_BOOL, body)])
    return body
