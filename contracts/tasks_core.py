"""Verification tasks for the validator's own methods (iter_errors dispatch, descend, is_valid,
validate, is_type) and for the type predicates of _types.py."""
import time
import traceback

import z3

from pyvc import smt, extract, tables as tables_mod
from pyvc.smt import V, kind, dhas, dget, dlen, dkey, dval, sval, K_DICT, K_STR, K_BOOL, K_NONE
from pyvc.values import *      # noqa
from pyvc.interp import State, Ctx, Interp, lift, Raised, branch, add_lemma
from spec import drafts
from contracts import core
from contracts.tasks_keywords import compile_assumptions, strengthen_iff

urljoin_f = z3.Function("urljoin", smt.S, smt.S, smt.S)


class AnyTable:
    """VALIDATORS in exit-path analysis: which keyword is looked up does not matter, only whether a
    function is found."""


def x_method_hook(I, st, obj, name, args, kwargs, node):
    if isinstance(obj, AnyTable) and name == "get":
        return [(st.fork(), KwFunc("<any>", "<any>")), (st.fork(), lift(None))]
    return None


class KwFunc:
    """A keyword function as found in VALIDATORS: the table entry (keyword -> function)."""
    def __init__(self, k, fkey):
        self.k, self.fkey = k, fkey

    def __repr__(self):
        return "KwFunc(%s->%s)" % (self.k, self.fkey)


def kw_pre(repo, d, k, schema, value, instance):
    ks = z3.StringVal(k)
    pre = [kind(schema.t) == K_DICT, dhas(schema.t, ks), dget(schema.t, ks) == value.t,
           smt.isjson(instance.t), smt.isjson(schema.t), core.WF[d](schema.t)]
    if k in drafts.K and k not in ("$ref",):
        pre.append(core.meta_eval(repo, d, schema, keys=[k] + drafts.siblings(d, k)))
    pre += compile_assumptions(d, schema, value, k)
    return pre


def kw_call_hook(I, st, f, args, kwargs, node):
    """Caller side of the keyword-function contract (proved by contracts/tasks_keywords.py):
    requires the keyword task's precondition, ensures empty(result) <=> K_k(d, value, instance, schema)."""
    if not isinstance(f, KwFunc):
        return None
    from pyvc import interp as _interp
    _interp.CONTRACTS_USED.add("keyword:" + f.k)
    ctx = I.ctx
    vm = ctx.config["vm"]
    d = vm.d
    self_, value, instance, schema = args
    scope = st.ghost["scope"]
    o = core.ops_for(d, scope)
    s = st
    if ctx.config.get("x_mode"):
        # exit-path analysis: the keyword function's generator either produces errors or raises while
        # being driven; its own contract makes its net effect on the scope stack zero at every exit
        emp = z3.Bool("kw_empty!%d" % ctx.new_oid())
        gen = kw_gen(f.k, scope, value, instance, schema, emp)
        return branch(ctx, st, [(None, gen), (None, Raised(ExcVal("CalleeExc", {}, origin="kw:" + f.k)))])
    if f.k == "$ref":
        emp = core.Vref(scope, value.t, instance.t)
    elif f.k == "format":
        emp = z3.BoolVal(True)
    else:
        s = core.require(I, s, "kw[%s].pre" % f.k, z3.And(kw_pre(I.repo, d, f.k, schema, value, instance)),
                         "precondition of the keyword function contract (schema object accepted by the draft, schema[k] == value, JSON instance, patterns compile)")
        emp = drafts.K[f.k](o, d, value, instance, schema)
    gen = kw_gen(f.k, scope, value, instance, schema, emp)
    return [(s, gen)]


def kw_gen(k, scope, value, instance, schema, emp):
    return Gen("kw:" + k, (scope, value.t, instance.t, schema.t), emp, {"keyword": k})


def kw_gen_spec(d):
    """Gen node of keyword k's contract, built on the spec side (same identity, same emptiness)"""
    def mk(k, scope, value, instance, schema):
        o = core.ops_for(d, scope)
        if k == "$ref":
            emp = core.Vref(scope, value.t, instance.t)
        elif k == "format":
            emp = z3.BoolVal(True)
        else:
            emp = drafts.K[k](o, d, value, instance, schema)
        return kw_gen(k, scope, value, instance, schema, emp)
    return mk


class PushScope(core.Contract):
    """RefResolver.push_scope(scope): stack' = stack ++ [urljoin(top(stack), scope)]  (X: depth + 1).
    pop_scope(): stack' = stack[:-1] (depth - 1).  The ghost `scopes` keeps the symbolic stack."""

    def __init__(self, key, which):
        self.key, self.which = key, which

    def apply(self, I, st, args, kwargs, fref):
        s = st.fork()
        stack = s.ghost.get("scopes", ())
        if self.which == "push" and I.ctx.config.get("x_mode"):
            # urljoin (through the cache) may raise *before* anything is appended
            s.ghost["scopes"] = stack + (s.ghost["scope"],)
            s.ghost["scope"] = z3.String("pushed!%d" % I.ctx.new_oid())
            s.ghost["depth"] = s.ghost["depth"] + 1
            return [(s, lift(None)), (st.fork(), Raised(ExcVal("ValueError", {}, origin="urljoin")))]
        if self.which == "pop" and I.ctx.config.get("x_mode"):
            I.ctx.obligations.append(core.Obligation("%s/X/no-underflow#%d" % (st.unit.key, I.ctx.new_oid()), "X", st.pc,
                                                     z3.simplify(st.ghost["depth"]) >= 1, note="pop_scope only after a matching push_scope in the same frame"))
        if self.which == "push":
            a = args[1]
            at = a.t if isinstance(a, SStr) else sval(a.t)
            new = urljoin_f(s.ghost["scope"], at)
            s.ghost["scopes"] = stack + (s.ghost["scope"],)
            s.ghost["scope"] = new
            s.ghost["depth"] = s.ghost["depth"] + 1
            s.ghost["events"] = s.ghost.get("events", ()) + ("push",)
        else:
            if not stack:
                s.ghost["underflow"] = True
                s.ghost["depth"] = s.ghost["depth"] - 1
                return [(s, lift(None))]
            s.ghost["scope"] = stack[-1]
            s.ghost["scopes"] = stack[:-1]
            s.ghost["depth"] = s.ghost["depth"] - 1
            s.ghost["events"] = s.ghost.get("events", ()) + ("pop",)
        return [(s, lift(None))]


class ResolveX(core.Contract):
    """RefResolver.resolve(ref) for exit-path analysis: returns (url, document) or raises
    RefResolutionError; no effect on the scope stack either way (C07: proved of its body by the
    resolver tasks)."""
    key = "validators:RefResolver.resolve"

    def apply(self, I, st, args, kwargs, fref):
        n = I.ctx.new_oid()
        url = SStr(z3.String("resolved_url!%d" % n))
        doc = SV(z3.Const("resolved_doc!%d" % n, V))
        s = st.fork()
        from pyvc.interp import add_lemma
        add_lemma(s, z3.And(core.WF[I.ctx.config["vm"].d](doc.t), smt.isjson(doc.t)))
        return [(s, PyTuple([url, doc])), (st.fork(), Raised(ExcVal("RefResolutionError", {}, origin="resolve")))]


def rebase(d, B, s):
    """base URI in effect inside schema object s (spec side)"""
    idk = z3.StringVal(drafts.ID_KEY[d])
    idv = dget(s.t, idk)
    has = z3.And(kind(s.t) == K_DICT, dhas(s.t, idk), smt.truthy(idv))
    return z3.If(has, urljoin_f(B, sval(idv)), B)


def V_def_rebased(repo, d, B, s, x):
    o = core.ops_for(d, rebase(d, B, s))
    return core.V_def(o, d, s, x)


class CoreTask:
    weight = 20

    def __init__(self, root, d, which, timeout_ms=20000):
        self.root, self.d, self.which, self.timeout_ms = root, d, which, timeout_ms
        self.name = "validators:create.Validator.%s@draft%d" % (which, d)

    def cache_key(self):
        from pyvc import driver
        mods = ("_utils", "_types", "exceptions", "validators")
        if self.which == "ref_x":
            mods += ("_validators", "_legacy_validators")      # this task executes the `$ref` keyword function itself
        dh = driver.dep_hash(self.root, modules=mods, drafts=(self.d,))
        return "core|%s|%s|%s" % (self.name, self.timeout_ms, dh)

    def run(self):
        t0 = time.time()
        res = {"task": self.name, "function": "validators:create.Validator.%s" % self.which, "draft": self.d,
               "obligations": [], "status": "ok", "paths": 0}
        try:
            getattr(self, "_run_" + self.which)(res)
        except OutOfSubset as e:
            res["status"] = "out-of-subset"
            res["detail"] = str(e)
        except Exception as e:      # noqa
            res["status"] = "crash"
            res["detail"] = "%s\n%s" % (e, traceback.format_exc())
        if res["status"] != "ok" or any(o["status"] != "discharged" for o in res["obligations"]):
            self.failure_search(res)
        res["wall_s"] = round(time.time() - t0, 3)
        return res

    def failure_search(self, res):
        """directed searches on the real code for an input that exhibits the failure"""
        from pyvc import driver
        if self.which == "iter_errors":
            # the dispatch level: two-keyword schemas, keywords outside the vocabulary, keywords next to a reference
            for mode, slot in (("verdict", "search"), ("errors", "search_errors")):
                try:
                    res[slot] = driver.rt_call("pyvc.rt_kw", {"cmd": "search_pairs", "mode": mode, "root": self.root, "drafts": [self.d], "limit": 3}, self.root, timeout=3000)
                    if not res[slot].get("failures"):
                        ex = driver.rt_call("pyvc.rt_kw", {"cmd": "search_extras", "root": self.root, "drafts": [self.d], "limit": 3}, self.root, timeout=3000)
                        res[slot] = {"failures": ex["failures"], "tried": res[slot].get("tried", 0) + ex["tried"]}
                except Exception as e:      # noqa
                    res[slot] = {"error": str(e)[-300:], "failures": []}
        elif self.which in ("iter_errors_x", "ref_x", "scope_cm_x") and type(self).__name__ == "CoreTask":
            # an unbalanced scope stack shows in what the SAME validator does next: operation histories, then references
            try:
                res["search"] = driver.rt_call("pyvc.rt_hist", {"cmd": "search", "root": self.root, "maxlen": 2, "limit": 3,
                                                                 "configs": [[True, "default"]]}, self.root, timeout=3000)
                if not res["search"].get("failures"):
                    res["search"] = driver.rt_call("pyvc.rt_ref", {"cmd": "search", "root": self.root, "limit": 3}, self.root, timeout=3000)
            except Exception as e:      # noqa
                res["search"] = {"error": str(e)[-300:], "failures": []}
        elif self.which == "is_type" and type(self).__name__ == "CoreTask":
            # is_type is observable through `type` and through every keyword guarded by a type test
            fails, tried = [], 0
            for k in ("type", "items", "minimum", "multipleOf" if self.d != 3 else "divisibleBy"):
                try:
                    r = driver.rt_call("pyvc.rt_kw", {"cmd": "search", "root": self.root, "draft": self.d, "keyword": k, "limit": 2}, self.root, timeout=3000)
                    fails += r["failures"]
                    tried += r["tried"]
                except Exception as e:      # noqa
                    res.setdefault("search_error", str(e)[-300:])
                if fails:
                    break
            res["search"] = {"failures": fails, "tried": tried}

    def setup(self, no_callee_exc=True):
        repo = extract.Repo(self.root)
        core.register_wf_axioms(repo)
        tabs = tables_mod.draft_tables(repo)
        contracts = core.base_contracts()
        contracts["validators:RefResolver.push_scope"] = PushScope("validators:RefResolver.push_scope", "push")
        contracts["validators:RefResolver.pop_scope"] = PushScope("validators:RefResolver.pop_scope", "pop")
        ctx = Ctx(repo, contracts=contracts, config={"no_callee_exc": no_callee_exc})
        ctx.config["closure_for"] = core.closure_hook(ctx)
        ctx.config["call_hook"] = kw_call_hook
        st = State()
        vm = core.ValidatorModel(repo, tabs, self.d)
        validator = vm.install(ctx, st)
        # the table entries carry their keyword name
        st.heap[(validator.oid, "VALIDATORS")] = PyDict({k: KwFunc(k, f) for k, f in tabs[self.d].keywords.items()})
        return repo, ctx, st, vm, validator, Interp(ctx)

    def finish(self, res, ctx, obls):
        # vacuity guard: the assumptions shared by every obligation (the task's preconditions) must be satisfiable
        pcs = [ob.pc for ob in obls if ob.pc]
        if len(pcs) >= 1:
            n = 0
            while all(len(p) > n for p in pcs) and all(p[n].eq(pcs[0][n]) for p in pcs):
                n += 1
            if n:
                cover = smt.check_sat(pcs[0][:n], timeout_ms=1000, use_cvc5=False)
                res["cover"] = cover.status
                if cover.status == "unsat":
                    raise RuntimeError("vacuous precondition in %s" % self.name)
        for ob in obls:
            ob.check(self.timeout_ms)
            rec = {"name": ob.name if ob.name.startswith(self.name) else self.name + "::" + ob.name,
                   "kind": ob.kind, "status": ob.status, "solver": ob.solver, "time_s": round(ob.time_s, 3), "note": ob.note}
            if ob.status == "unknown":
                rec["reason"] = ob.reason
            if ob.status == "failed" and getattr(ob, "model_inputs", None) is not None:
                rec["model"] = ob.model_inputs
            res["obligations"].append(rec)
        res["feas_calls"] = ctx.feas_calls
        seen = {}
        for unit_key, cls, origin in ctx.safety:
            key = (unit_key, cls, origin)
            seen[key] = seen.get(key, 0) + 1
        for (unit_key, cls, origin), n in sorted(seen.items()):
            res["obligations"].append({"name": "%s::%s/S/unreachable:%s@%s" % (self.name, unit_key, cls, origin), "kind": "S",
                                       "status": "discharged", "solver": "z3", "time_s": 0.0,
                                       "note": "%s from %s cannot occur (%d path(s))" % (cls, origin, n)})

    # -- iter_errors ---------------------------------------------------------------------------
    def _run_iter_errors(self, res):
        d = self.d
        repo, ctx, st, vm, validator, I = self.setup()
        # the callee under verification must not use its own contract
        del ctx.contracts["validators:create.Validator.iter_errors"]
        unit = repo.unit("validators:create.Validator.iter_errors")
        res["source_hash"] = unit.source_hash()
        instance = SV(z3.Const("instance", V))
        schema = SV(z3.Const("schema", V))
        B = st.ghost["scope"]
        i = smt.fresh("q", smt.I)
        pre = [smt.isjson(instance.t), smt.isjson(schema.t), core.WF[d](schema.t), core.meta_eval(repo, d, schema)]
        # C03's granted restrictions: patterns compile, $ref values are strings
        pre += compile_assumptions(d, schema, SV(dget(schema.t, z3.StringVal("pattern"))), "pattern")
        pre.append(z3.Implies(z3.And(kind(schema.t) == K_DICT, dhas(schema.t, z3.StringVal("$ref"))),
                              kind(dget(schema.t, z3.StringVal("$ref"))) == K_STR))
        st.pc.extend(pre)
        st.unit = unit
        st.closure = ctx.config["create_closure"]
        spec = V_def_rebased(repo, d, B, schema, instance)
        tabs_d = list(tables_mod.draft_tables(repo)[d].keywords)
        outs = I.run_unit(unit, st, [validator, instance, schema], {})
        res["paths"] = len(outs)
        obls = list(ctx.obligations)
        nf = 0
        for s, ctl in outs:
            if ctl[0] == "raise":
                exc = ctl[1]
                ob = core.Obligation("%s/S/raise:%s@%s" % (self.name, exc.cls, exc.origin), "S", s.pc, False,
                                     note="%s escapes iter_errors" % exc.cls)
                obls.append(ob)
                continue
            nf += 1
            emp = seq_empty(cat(*s.out))
            ob = core.Obligation("%s/F/verdict#%d" % (self.name, nf), "F", s.pc, emp == spec,
                                 note="empty(iter_errors(instance, schema)) <=> V_def(d, B, schema, instance)")
            ob.alt_goal = _iter_alt(emp, spec)
            obls.append(ob)
            # C05/C06: structural equation of the dispatch loop
            from contracts import structure
            from pyvc import seqmatch
            sname = "%s/F/structure#%d" % (self.name, nf)
            try:
                exp = structure.expected_iter_errors(repo, d, tabs_d, B, instance, schema, kw_gen_spec(d))
                facts = seqmatch.match(cat(*s.out), exp, s.pc)
                obls.append(core.Obligation(sname, "F", s.pc, z3.And(facts) if facts else z3.BoolVal(True),
                                            note="iter_errors == concat over the schema's members of fin_k(keyword_k(value, instance, schema)) (C05, C06)"))
            except seqmatch.Mismatch as e:
                res["obligations"].append({"name": sname, "kind": "F", "status": ("failed" if getattr(e, "definite", True) else "unknown"), "solver": "seqmatch", "time_s": 0.0,
                                           "note": "dispatch structure differs from the expected one: %s" % e, "reason": str(e)})
            # X: the scope stack is restored on every normal exit
            depth = z3.simplify(s.ghost["depth"])
            obx = core.Obligation("%s/X/balance#%d" % (self.name, nf), "X", s.pc, depth == 0,
                                  note="pushes == pops at normal exit")
            obls.append(obx)
            obls.append(core.Obligation("%s/X/scope#%d" % (self.name, nf), "X", s.pc, s.ghost["scope"] == B,
                                        note="resolution scope restored at normal exit"))
        if nf == 0:
            raise RuntimeError("no normal path")
        self.finish(res, ctx, obls)


    # -- is_valid / descend / validate ------------------------------------------------------------
    def _sub_setup(self, which):
        repo, ctx, st, vm, validator, I = self.setup()
        unit = repo.unit("validators:create.Validator.%s" % which)
        instance = SV(z3.Const("instance", V))
        schema = SV(z3.Const("schema", V))
        st.pc.extend([smt.isjson(instance.t), smt.isjson(schema.t), core.WF[self.d](schema.t)])
        st.unit = unit
        st.closure = ctx.config["create_closure"]
        return repo, ctx, st, vm, validator, I, unit, instance, schema

    def _run_is_valid(self, res):
        repo, ctx, st, vm, validator, I, unit, instance, schema = self._sub_setup("is_valid")
        res["source_hash"] = unit.source_hash()
        B = st.ghost["scope"]
        outs = I.run_unit(unit, st, [validator, instance, schema], {})
        res["paths"] = len(outs)
        obls = list(ctx.obligations)
        n = 0
        for s, ctl in outs:
            if ctl[0] == "raise":
                obls.append(core.Obligation("%s/S/raise:%s" % (self.name, ctl[1].cls), "S", s.pc, False, note="exception escapes"))
                continue
            n += 1
            from pyvc.interp import truth
            obls.append(core.Obligation("%s/F/result#%d" % (self.name, n), "F", s.pc,
                                        truth(ctx, s, ctl[1]) == core.Vp(B, schema.t, instance.t),
                                        note="is_valid(instance, schema) <=> empty(iter_errors(instance, schema))  (C04)"))
            obls.append(core.Obligation("%s/X/balance#%d" % (self.name, n), "X", s.pc, z3.simplify(s.ghost["depth"]) == 0,
                                        note="scope stack unchanged"))
        self.finish(res, ctx, obls)

    def _run_descend(self, res):
        n = 0
        all_obls = []
        ctx_last = None
        for pth in (None, "path"):
            for sp in (None, "schema_path"):
                repo, ctx, st, vm, validator, I, unit, instance, schema = self._sub_setup("descend")
                res["source_hash"] = unit.source_hash()
                B = st.ghost["scope"]
                kw = {}
                if pth:
                    kw["path"] = SV(z3.Const("path_elem", V))
                    st.pc.append(kind(kw["path"].t) != K_NONE)
                if sp:
                    kw["schema_path"] = SV(z3.Const("spath_elem", V))
                    st.pc.append(kind(kw["schema_path"].t) != K_NONE)
                outs = I.run_unit(unit, st, [validator, instance, schema], kw)
                res["paths"] += len(outs)
                all_obls += list(ctx.obligations)
                for s, ctl in outs:
                    if ctl[0] == "raise":
                        all_obls.append(core.Obligation("%s/S/raise:%s" % (self.name, ctl[1].cls), "S", s.pc, False))
                        continue
                    n += 1
                    emp = seq_empty(cat(*s.out))
                    all_obls.append(core.Obligation("%s/F/verdict#%d" % (self.name, n), "F", s.pc,
                                                    emp == core.Vp(B, schema.t, instance.t),
                                                    note="empty(descend(instance, schema, path=%s, schema_path=%s)) <=> empty(iter_errors(instance, schema))" % (pth, sp)))
                    # C06: each error of iter_errors(instance, schema), with path / schema_path prepended when given
                    from pyvc import seqmatch
                    gen = Gen("iter_errors", (B, schema.t, instance.t, None, None), core.Vp(B, schema.t, instance.t), {})
                    elem = ErrVal(base=ErrElem(gen))
                    if pth:
                        elem = elem.with_field("path", PathV(base=("elem", "path")).appendleft(kw["path"]))
                    if sp:
                        elem = elem.with_field("schema_path", PathV(base=("elem", "schema_path")).appendleft(kw["schema_path"]))
                    expd = ForErr(gen, One(elem)) if (pth or sp) else gen
                    sname = "%s/F/structure#%d" % (self.name, n)
                    try:
                        facts = seqmatch.match(cat(*s.out), expd, s.pc)
                        all_obls.append(core.Obligation(sname, "F", s.pc, z3.And(facts) if facts else z3.BoolVal(True),
                                                        note="descend yields iter_errors' errors with path/schema_path prepended exactly when given (C06)"))
                    except seqmatch.Mismatch as e:
                        res["obligations"].append({"name": sname, "kind": "F", "status": ("failed" if getattr(e, "definite", True) else "unknown"), "solver": "seqmatch", "time_s": 0.0,
                                                   "note": "descend structure: %s" % e, "reason": str(e)})
                ctx_last = ctx
        self.finish(res, ctx_last, all_obls)

    def _run_validate(self, res):
        repo, ctx, st, vm, validator, I, unit, instance, schema = self._sub_setup("validate")
        res["source_hash"] = unit.source_hash()
        B = st.ghost["scope"]
        outs = I.run_unit(unit, st, [validator, instance, schema], {})
        res["paths"] = len(outs)
        obls = list(ctx.obligations)
        v = core.Vp(B, schema.t, instance.t)
        n = 0
        for s, ctl in outs:
            n += 1
            if ctl[0] == "raise":
                exc = ctl[1]
                isfirst = isinstance(exc, ErrVal) and isinstance(exc.base, ErrElem) and exc.base.first
                obls.append(core.Obligation("%s/F/raises-first#%d" % (self.name, n), "F", s.pc,
                                            z3.And(z3.Not(v), z3.BoolVal(bool(isfirst))),
                                            note="validate raises exactly when iter_errors is non-empty, and raises its first error (C04)"))
            else:
                obls.append(core.Obligation("%s/F/returns#%d" % (self.name, n), "F", s.pc, v,
                                            note="validate returns normally only when iter_errors is empty (C04)"))
        self.finish(res, ctx, obls)

    def _run_err_set(self, res):
        """_Error._set(**kwargs): assigns each given field iff it is still unset (innermost wins, C06)"""
        repo, ctx, st, vm, validator, I = self.setup()
        del ctx.contracts["exceptions:_Error._set"]
        unit = repo.unit("exceptions:_Error._set")
        res["source_hash"] = unit.source_hash()
        res["function"] = "exceptions:_Error._set"
        names = ("validator", "validator_value", "instance", "schema")
        obls = []
        n = 0
        for mask in (0b0101, 0b1010, 0b0000, 0b1111):
            s0 = st.fork()
            s0.unit = unit
            oid = ctx.new_oid()
            old = {nm: (UNSET if (mask >> i) & 1 else SV(z3.Const("old_" + nm, V))) for i, nm in enumerate(names)}
            s0.heap[oid] = ErrVal("ValidationError", None, dict(old, message=Opaque("m"), path=PathV(), schema_path=PathV(), context=NIL))
            new = {nm: SV(z3.Const("new_" + nm, V)) for nm in names}
            for s, ctl in I.run_unit(unit, s0, [ErrRef(oid)], dict(new)):
                n += 1
                if ctl[0] == "raise":
                    obls.append(core.Obligation("%s/S/raise:%s#%d" % (self.name, ctl[1].cls, n), "S", s.pc, False, note="_set raises"))
                    continue
                e = s.heap[oid]
                ok = True
                goals = []
                for i, nm in enumerate(names):
                    want = new[nm] if (mask >> i) & 1 else old[nm]
                    got = e.fields.get(nm)
                    if not isinstance(got, SV):
                        ok = False
                    else:
                        goals.append(got.t == want.t)
                obls.append(core.Obligation("%s/F/fields#%d" % (self.name, n), "F", s.pc, z3.And(goals) if ok else z3.BoolVal(False),
                                            note="_set fills exactly the fields that were unset (mask %s)" % bin(mask)))
        res["paths"] = n
        self.finish(res, ctx, obls)

    def _x_finish(self, res, ctx, outs, B):
        obls = list(ctx.obligations)
        n = 0
        for s, ctl in outs:
            n += 1
            kind_ = "normal" if ctl[0] == "return" else "raise:%s" % getattr(ctl[1], "cls", "?")
            origin = getattr(ctl[1], "origin", "") if ctl[0] == "raise" else ""
            obls.append(core.Obligation("%s/X/exit#%d:%s%s" % (self.name, n, kind_, "@" + origin if origin else ""), "X", s.pc,
                                        z3.simplify(s.ghost["depth"]) == 0,
                                        note="pushes == pops on the %s exit%s" % (kind_, " (" + origin + ")" if origin else "")))
        res["paths"] = len(outs)
        self.finish(res, ctx, obls)

    def _run_iter_errors_x(self, res):
        """C07(b): on every exit of iter_errors - exhaustion, an exception of a keyword function or of
        push_scope, GeneratorExit delivered at the yield - the scope stack has its entry depth."""
        repo, ctx, st, vm, validator, I = self.setup(no_callee_exc=False)
        ctx.config["x_mode"] = True
        ctx.genexit = True
        ctx.config["method_hook"] = x_method_hook
        st.heap[(validator.oid, "VALIDATORS")] = AnyTable()
        del ctx.contracts["validators:create.Validator.iter_errors"]
        unit = repo.unit("validators:create.Validator.iter_errors")
        res["source_hash"] = unit.source_hash()
        res["function"] = "validators:create.Validator.iter_errors"
        instance, schema = SV(z3.Const("instance", V)), SV(z3.Const("schema", V))
        st.pc.extend([smt.isjson(instance.t), smt.isjson(schema.t), core.WF[self.d](schema.t),
                      core.meta_eval(repo, self.d, schema, keys=[drafts.ID_KEY[self.d], "$ref"])])
        st.unit = unit
        st.closure = ctx.config["create_closure"]
        outs = I.run_unit(unit, st, [validator, instance, schema], {})
        self._x_finish(res, ctx, outs, st.ghost["scope"])

    def _run_ref_x(self, res):
        """C07(b) for the `$ref` keyword function: resolve() raises before anything is pushed; the
        pushed scope is popped on exhaustion, on an exception of the sub-validation, on GeneratorExit."""
        repo, ctx, st, vm, validator, I = self.setup(no_callee_exc=False)
        ctx.config["x_mode"] = True
        ctx.genexit = True
        ctx.config["hasattr_hook"] = lambda I_, st_, obj, name: (isinstance(obj, ObjVal) and obj.cls == "RefResolver" and
                                                             ("validators:RefResolver.%s" % name) in I_.repo.units) or None
        ctx.contracts["validators:RefResolver.resolve"] = ResolveX()
        key = tables_mod.draft_tables(repo)[self.d].keywords["$ref"]
        unit = repo.unit(key)
        res["source_hash"] = unit.source_hash()
        res["function"] = key
        instance, schema, ref = SV(z3.Const("instance", V)), SV(z3.Const("schema", V)), SV(z3.Const("ref", V))
        st.pc.extend([smt.isjson(instance.t), smt.isjson(schema.t), kind(ref.t) == K_STR])
        st.unit = unit
        outs = I.run_unit(unit, st, [validator, ref, instance, schema], {})
        self._x_finish(res, ctx, outs, st.ghost["scope"])

    def _run_scope_cm_x(self, res):
        """C07(b): RefResolver.in_scope / resolving (context managers): the pushed scope is popped when
        the with-body returns, raises, or the generator is closed."""
        all_outs = []
        for meth in ("in_scope", "resolving"):
            repo, ctx, st, vm, validator, I = self.setup(no_callee_exc=False)
            ctx.config["x_mode"] = True
            ctx.config["throw_at_yield"] = True
            ctx.genexit = True
            ctx.contracts["validators:RefResolver.resolve"] = ResolveX()
            unit = repo.unit("validators:RefResolver.%s" % meth)
            res["function"] = "validators:RefResolver.in_scope+resolving"
            res["source_hash"] = res.get("source_hash", "") + unit.source_hash()
            arg = SV(z3.Const("arg", V))
            st.pc.append(kind(arg.t) == K_STR)
            st.unit = unit
            outs = I.run_unit(unit, st, [vm.resolver, arg], {})
            obls = list(ctx.obligations)
            n = 0
            for s, ctl in outs:
                n += 1
                kind_ = "normal" if ctl[0] == "return" else "raise:%s" % getattr(ctl[1], "cls", "?")
                origin = getattr(ctl[1], "origin", "") if ctl[0] == "raise" else ""
                obls.append(core.Obligation("%s/X/%s.exit#%d:%s%s" % (self.name, meth, n, kind_, "@" + origin if origin else ""), "X", s.pc,
                                            z3.simplify(s.ghost["depth"]) == 0, note="%s: pushes == pops on the %s exit" % (meth, kind_)))
            res["paths"] += len(outs)
            self.finish(res, ctx, obls)

    def _run_is_type(self, res):
        d = self.d
        repo, ctx, st, vm, validator, I = self.setup()
        del ctx.contracts["validators:create.Validator.is_type"]
        unit = repo.unit("validators:create.Validator.is_type")
        res["source_hash"] = unit.source_hash()
        instance = SV(z3.Const("instance", V))
        tname = SV(z3.Const("type_name", V))
        st.pc.extend([smt.isjson(instance.t), kind(tname.t) == K_STR])
        st.unit = unit
        st.closure = ctx.config["create_closure"]
        o = core.ops_for(d, st.ghost["scope"])
        outs = I.run_unit(unit, st, [validator, instance, tname], {})
        res["paths"] = len(outs)
        obls = list(ctx.obligations)
        known = drafts.known_type_name(o, d, sval(tname.t))
        n = 0
        from pyvc.interp import truth
        for s, ctl in outs:
            n += 1
            if ctl[0] == "raise":
                cls = ctl[1].cls
                if cls == "UnknownType":
                    obls.append(core.Obligation("%s/F/unknown-type#%d" % (self.name, n), "F", s.pc, z3.Not(known),
                                                note="UnknownType only for names the draft's checker does not define"))
                else:
                    obls.append(core.Obligation("%s/S/raise:%s#%d" % (self.name, cls, n), "S", s.pc, False, note="%s escapes is_type" % cls))
            else:
                obls.append(core.Obligation("%s/F/result#%d" % (self.name, n), "F", s.pc,
                                            z3.And(known, truth(ctx, s, ctl[1]) == drafts.T_sym(o, d, sval(tname.t), instance)),
                                            note="is_type(instance, t) == T_d(t, instance)"))
        self.finish(res, ctx, obls)


def _iter_alt(emp, spec):
    """spec = If(isbool, bval, If(has_ref, Vref, forall...)) ; emp on the object path is a forall."""
    def strip(e):
        out = [e]
        if z3.is_app(e) and e.decl().kind() == z3.Z3_OP_ITE:
            out += strip(e.arg(1)) + strip(e.arg(2))
        return out
    for cand in strip(spec):
        pw = smt.pointwise_iff(emp, cand)
        if pw is not None:
            return z3.And(pw, spec == cand)
    return None


def core_tasks(root, timeout_ms=20000, drafts_=(3, 4, 6, 7), which=("iter_errors", "is_valid", "descend", "validate", "is_type")):
    out = []
    for d in drafts_:
        for w in which:
            t = CoreTask(root, d, w, timeout_ms)
            t.weight = 40 if w == "iter_errors" else (10 if w.endswith("_x") else 2)
            out.append(t)
    return out


class IdOfTask:
    """id_of of draft d: returns schema[ID_KEY[d]] when present, "" otherwise (and "" for boolean
    schemas from draft 6 on); reads no other member (C10, C02)."""
    weight = 1

    def __init__(self, root, d, timeout_ms=10000):
        self.root, self.d, self.timeout_ms = root, d, timeout_ms
        self.name = "id_of@draft%d" % d

    def cache_key(self):
        from pyvc import driver
        return "idof|%s|%s" % (self.name, driver.dep_hash(self.root, modules=("validators",)))

    def run(self):
        t0 = time.time()
        res = {"task": self.name, "function": None, "draft": self.d, "obligations": [], "status": "ok", "paths": 0}
        try:
            self._run(res)
        except OutOfSubset as e:
            res["status"], res["detail"] = "out-of-subset", str(e)
        except Exception as e:      # noqa
            res["status"], res["detail"] = "crash", "%s\n%s" % (e, traceback.format_exc())
        res["wall_s"] = round(time.time() - t0, 3)
        return res

    def _run(self, res):
        from pyvc import frames
        d = self.d
        repo = extract.Repo(self.root)
        core.register_wf_axioms(repo)
        tabs = tables_mod.draft_tables(repo)
        key = tabs[d].id_of
        res["function"] = key
        unit = repo.unit(key)
        res["source_hash"] = unit.source_hash()
        ctx = Ctx(repo, contracts={}, config={})
        I = Interp(ctx)
        st = State()
        st.unit = unit
        schema = SV(z3.Const("schema", V))
        st.pc.extend([smt.isjson(schema.t), core.WF[d](schema.t),
                      core.meta_eval(repo, d, schema, keys=[drafts.ID_KEY[d]])])
        outs = I.run_unit(unit, st, [schema], {})
        res["paths"] = len(outs)
        idk = z3.StringVal(drafts.ID_KEY[d])
        obls = []
        n = 0
        for s, ctl in outs:
            n += 1
            if ctl[0] == "raise":
                obls.append(core.Obligation("%s/S/raise:%s" % (self.name, ctl[1].cls), "S", s.pc, False, note="id_of raises on an accepted schema"))
                continue
            r = ctl[1]
            from pyvc.interp import to_sv
            rt = to_sv(r).t
            expected = z3.If(z3.And(kind(schema.t) == K_DICT, dhas(schema.t, idk)), dget(schema.t, idk), smt.mk_str(z3.StringVal("")))
            obls.append(core.Obligation("%s/F/result#%d" % (self.name, n), "F", s.pc, rt == expected,
                                        note="id_of(schema) == schema[%r] if present else ''" % drafts.ID_KEY[d]))
        for ob in obls:
            ob.check(self.timeout_ms)
            res["obligations"].append({"name": ob.name, "kind": ob.kind, "status": ob.status, "solver": ob.solver,
                                       "time_s": round(ob.time_s, 3), "note": ob.note, "reason": ob.reason})
        # read frame of id_of
        pname = frames.param_names(unit.node)[0]
        keys, problems, _ = frames.schema_reads(repo, key, pname)
        ok = keys == {drafts.ID_KEY[d]} and not problems
        res["obligations"].append({"name": "%s/R/reads" % self.name, "kind": "R", "status": "discharged" if ok else "failed",
                                   "solver": "frames", "time_s": 0.0,
                                   "note": "id_of reads only %r (found %s %s)" % (drafts.ID_KEY[d], sorted(keys), problems)})
