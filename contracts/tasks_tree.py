"""Verification tasks for exceptions.ErrorTree (C17) over an abstract model of tree nodes:
a node is a term; its children, error map and recorded instance are uninterpreted functions of it."""
import time
import traceback

import z3

from pyvc import smt, extract
from pyvc.smt import V, kind, K_STR, K_INT, K_NONE
from pyvc.values import *      # noqa
from pyvc.interp import State, Ctx, Interp, lift, Raised, branch, truth
from pyvc.loops import LoopInv, IterSpec, seq_equal
from contracts import core
from contracts.tasks_core import CoreTask

chas = z3.Function("tree_has_child", V, V, smt.B)      # index in node._contents
child = z3.Function("tree_child", V, V, V)             # node._contents[index]
child_at = z3.Function("tree_child_at", V, smt.I, V)   # i-th child in iteration order
ckey_at = z3.Function("tree_key_at", V, smt.I, V)
csize = z3.Function("tree_nchildren", V, smt.I)
esize = z3.Function("tree_nerrors", V, smt.I)          # len(node.errors)
total = z3.Function("tree_total", V, smt.I)            # node.total_errors
inst_unset = z3.Function("tree_instance_unset", V, smt.B)
inst_of = z3.Function("tree_instance", V, V)


class TreeV:
    def __init__(self, t):
        self.t = t

    def __repr__(self):
        return "TreeV(%s)" % self.t


class AbsMap:
    def __init__(self, which, node):
        self.which, self.node = which, node


class InstV:
    def __init__(self, node):
        self.node = node


class AbsItems:
    def __init__(self, m):
        self.m = m


class IterOf:
    def __init__(self, m):
        self.m = m


class SumV:
    """len(errors) + sum(genexp): an int given as base term + summed parts"""
    def __init__(self, base, parts):
        self.base, self.parts = base, parts


class TotalC(core.Contract):
    """ErrorTree.total_errors / __len__ of a node: the uninterpreted tree_total(node) (its defining
    equation is what the total_errors task proves of the body)"""

    def __init__(self, key):
        self.key = key

    def apply(self, I, st, args, kwargs, fref):
        return [(st, SInt(total(args[0].t)))]


def tree_hooks(ctx):
    def getattr_hook(I, st, obj, attr):
        if isinstance(obj, TreeV):
            ov = st.heap.get(("tree", obj.t.get_id(), attr))
            if ov is not None:
                return [(st, ov)]
            if attr == "_contents":
                return [(st, AbsMap("contents", obj.t))]
            if attr == "errors":
                return [(st, AbsMap("errors", obj.t))]
            if attr == "_instance":
                return [(st, InstV(obj.t))]
            if attr == "total_errors":
                key = "exceptions:ErrorTree.total_errors"
                return I.call_func(st, FuncRef(key), [obj], {}, None)
            if attr == "__class__":
                return [(st, ClassRef("ErrorTree"))]
            return [(st, BoundMethod(obj, attr))]
        if isinstance(obj, AbsMap):
            return [(st, BoundMethod(obj, attr))]
        if isinstance(obj, AbsErr):
            if attr == "path":
                return [(st, AbsPath(obj.i))]
            if attr == "validator":
                return [(st, SV(err_validator(obj.i)))]
            if attr == "instance":
                return [(st, SV(err_instance(obj.i)))]
        return None

    def method_hook(I, st, obj, name, args, kwargs, node):
        if isinstance(obj, TreeV):
            key = "exceptions:ErrorTree.%s" % name
            if key in I.repo.units:
                return I.call_func(st, FuncRef(key), [obj] + list(args), kwargs, node)
        if isinstance(obj, AbsMap) and name == "items":
            return [(st, AbsItems(obj))]
        return None

    def in_hook(I, st, x, c):
        from pyvc.interp import to_sv
        if isinstance(c, AbsMap) and c.which == "contents":
            return [(st, SB(chas(c.node, to_sv(x).t)))]
        if isinstance(c, TreeV):
            return I.call_func(st, FuncRef("exceptions:ErrorTree.__contains__"), [c, x], {}, None)
        return None

    def subscript_hook(I, st, obj, key):
        from pyvc.interp import to_sv
        if isinstance(obj, AbsMap) and obj.which == "contents":
            k = to_sv(key)
            cases = [(z3.Not(smt.is_kind(k.t, smt.K_LIST, smt.K_DICT)), TreeV(child(obj.node, k.t))),
                     (smt.is_kind(k.t, smt.K_LIST, smt.K_DICT), Raised(ExcVal("TypeError", {}, origin="unhashable key")))]
            return branch(I.ctx, st, cases)
        if isinstance(obj, InstV):
            return prims_subscript(I, st, SV(inst_of(obj.node)), key)
        if isinstance(obj, TreeV):
            return I.call_func(st, FuncRef("exceptions:ErrorTree.__getitem__"), [obj, key], {}, None)
        return None

    def setitem_hook(I, st, obj, k, v):
        from pyvc.interp import to_sv
        if isinstance(obj, AbsMap):
            kt = to_sv(k).t
            s_ok = st.fork()
            s_ok.ghost["map_writes"] = s_ok.ghost.get("map_writes", ()) + ((obj.which, obj.node, k, v),)
            if obj.which == "errors" and "EM" in st.ghost and isinstance(v, AbsErr):
                em = st.ghost["EM"]
                s_ok.ghost["EM"] = z3.Store(em, obj.node, z3.Store(em[obj.node], kwkey(kt), v.i + 1))
            from pyvc.interp import assume
            outs = []
            a = assume(I.ctx, s_ok, z3.Not(smt.is_kind(kt, smt.K_LIST, smt.K_DICT)))
            if a is not None:
                outs.append((a, ("next", None)))
            b = assume(I.ctx, st.fork(), smt.is_kind(kt, smt.K_LIST, smt.K_DICT))
            if b is not None:
                outs.append((b, ("raise", ExcVal("TypeError", {}, origin="unhashable key"))))
            return outs
        return None

    def is_hook(I, st, a, b):
        for x, y in ((a, b), (b, a)):
            if y is UNSET and isinstance(x, InstV):
                return SB(inst_unset(x.node))
        return None

    def builtin_hook(I, st, name, args, kwargs, node):
        from pyvc.interp import GenExpArg
        from pyvc.loops import eval_collect
        if name == "iter" and isinstance(args[0], AbsMap):
            return [(st, IterOf(args[0]))]
        if name == "len" and isinstance(args[0], AbsMap) and args[0].which == "errors":
            return [(st, SInt(esize(args[0].node)))]
        if name == "len" and isinstance(args[0], TreeV):
            return I.call_func(st, FuncRef("exceptions:ErrorTree.__len__"), [args[0]], {}, None)
        if name == "sum" and args and isinstance(args[0], GenExpArg):
            res = []
            for s, lo in eval_collect(I, st, args[0].node, "list"):
                if isinstance(lo, Raised):
                    res.append((s, lo))
                else:
                    res.append((s, SumV(z3.IntVal(0), s.heap[lo.oid]["parts"])))
            return res
        if name == "collections.defaultdict":
            return [(st, Opaque("defaultdict"))]
        return None

    def iter_hook(I, st, it):
        if isinstance(it, AbsItems):
            m = it.m
            return [(st, IterSpec(n=csize(m.node), elem=lambda i: PyTuple([SV(ckey_at(m.node, i)), TreeV(child_at(m.node, i))])))]
        if isinstance(it, AbsErrors):
            return [(st, IterSpec(n=n_errors, elem=lambda i: AbsErr(i)))]
        if isinstance(it, AbsPath):
            return [(st, IterSpec(n=err_plen(it.i), elem=lambda j: SV(err_pelem(it.i, j))))]
        return None

    def write_hook(I, st, obj, attr, v):
        pass

    ctx.config.update(getattr_hook=getattr_hook, method_hook=method_hook, in_hook=in_hook, subscript_hook=subscript_hook,
                      setitem_hook=setitem_hook, is_hook=is_hook, builtin_hook=builtin_hook, iter_hook=iter_hook)


def prims_subscript(I, st, sv, key):
    from pyvc.prims import subscript
    return subscript(I, st, sv, key)


# abstract errors handed to the constructor
err_validator = z3.Function("err_validator", smt.I, V)
err_instance = z3.Function("err_instance", smt.I, V)
err_plen = z3.Function("err_path_len", smt.I, smt.I)
err_pelem = z3.Function("err_path_elem", smt.I, smt.I, V)
walknode = z3.Function("tree_walk_node", smt.I, smt.I, V)     # node reached for error i after k path elements


n_errors = z3.Int("n_errors")
EMSort = z3.ArraySort(V, z3.ArraySort(smt.S, smt.I))      # node -> (keyword key -> 1 + index of the error filed there, 0 = none)


def kwkey(v):
    """dict key of a keyword (a str or None) as a string: injective"""
    return z3.If(smt.kd(v, K_NONE), z3.StringVal(""), z3.Concat(z3.StringVal("s"), smt.sval(v)))


def final_node(i):
    return walknode(i, err_plen(i))


class FiledInv(LoopInv):
    """outer loop of the constructor, after k errors: for every error j < k, the node its path leads to maps
    its keyword to an error m < k that was filed at the same node under the same keyword"""

    def at(self, I, st, k, spec):
        j = z3.Int("jf")

        def formula(s):
            em = s.ghost["EM"]
            m = em[final_node(j)][kwkey(err_validator(j))] - 1
            return z3.And(k >= 0, z3.ForAll([j], z3.Implies(z3.And(0 <= j, j < k),
                                                            z3.And(0 <= m, m < k, final_node(m) == final_node(j),
                                                                   kwkey(err_validator(m)) == kwkey(err_validator(j))))))

        def havoc(s):
            s.ghost["EM"] = smt.fresh("EM", EMSort)
        return {"env": {}, "formula": formula, "havoc": havoc}


class AbsErrors:
    pass


class AbsErr:
    def __init__(self, i):
        self.i = i


class AbsPath:
    def __init__(self, i):
        self.i = i


class WalkNodeInv(LoopInv):
    """inner loop of the constructor: `container` is the node reached after k path elements"""

    def __init__(self, root):
        self.root = root

    def at(self, I, st, k, spec):
        errs = [v for v in st.env.values() if isinstance(v, AbsErr)]      # the outer loop's current error, whatever it is called
        i = errs[-1].i
        return {"env": {"container": TreeV(walknode(i, k))},
                "axiom_instances": [walknode(i, 0) == self.root.t, walknode(i, k + 1) == child(walknode(i, k), err_pelem(i, k))]}


import pyvc.loops as _loops      # noqa: E402
_orig_value_equal = _loops.value_equal


def _value_equal(a, b):
    if isinstance(a, TreeV) and isinstance(b, TreeV):
        return a.t == b.t
    return _orig_value_equal(a, b)


_loops.value_equal = _value_equal


class TreeTask(CoreTask):
    def __init__(self, root, which, timeout_ms=10000):
        CoreTask.__init__(self, root, 7, which, timeout_ms)
        self.name = "tree:%s" % which
        self.weight = 1

    def cache_key(self):
        from pyvc import driver
        return "tree|%s|%s|%s" % (self.name, self.timeout_ms, driver.dep_hash(self.root, modules=("exceptions",)))

    def _ctx(self):
        repo = extract.Repo(self.root)
        ctx = Ctx(repo, contracts={}, config={})
        tree_hooks(ctx)
        ctx.config["global_hook"] = lambda m, name: UNSET if (m, name) == ("exceptions", "_unset") else None
        return repo, ctx, Interp(ctx)

    def _finish(self, res, ctx, obls):
        self.finish(res, ctx, obls)

    def _run_methods(self, res):
        """__contains__, __getitem__, __setitem__, __iter__, __len__ against the abstract node"""
        node = TreeV(z3.Const("node", V))
        index = SV(z3.Const("index", V))
        obls_all = []
        res["function"] = "exceptions:ErrorTree.{__contains__,__getitem__,__setitem__,__iter__,__len__}"
        hashes = ""
        for meth in ("__contains__", "__getitem__", "__setitem__", "__iter__", "__len__"):
            repo, ctx, I = self._ctx()
            ctx.contracts["exceptions:ErrorTree.total_errors"] = TotalC("exceptions:ErrorTree.total_errors")
            unit = repo.unit("exceptions:ErrorTree.%s" % meth)
            hashes += unit.source_hash()
            st = State()
            st.unit = unit
            st.pc.append(z3.Not(smt.is_kind(index.t, smt.K_LIST, smt.K_DICT)))
            args = [node] + ([index] if meth in ("__contains__", "__getitem__", "__setitem__") else []) + ([TreeV(z3.Const("value", V))] if meth == "__setitem__" else [])
            outs = I.run_unit(unit, st, args, {})
            res["paths"] += len(outs)
            obls = list(ctx.obligations)
            n = 0
            for s, ctl in outs:
                n += 1
                nm = "%s/F/%s#%d" % (self.name, meth, n)
                if meth == "__contains__":
                    ok = ctl[0] == "return"
                    obls.append(core.Obligation(nm, "F", s.pc, truth(ctx, s, ctl[1]) == chas(node.t, index.t) if ok else z3.BoolVal(False),
                                                note="index in tree  <=>  index in tree._contents"))
                elif meth == "__getitem__":
                    present_or_unset = z3.Or(inst_unset(node.t), chas(node.t, index.t))
                    if ctl[0] == "return":
                        r = ctl[1]
                        obls.append(core.Obligation(nm, "F", s.pc, (r.t == child(node.t, index.t)) if isinstance(r, TreeV) else z3.BoolVal(False),
                                                    note="tree[index] is the child node for index (created on demand)"))
                    else:
                        obls.append(core.Obligation(nm, "F", s.pc, z3.Not(present_or_unset),
                                                    note="tree[index] raises only what instance[index] raises, and only for an index without errors when an instance is recorded"))
                elif meth == "__setitem__":
                    w = s.ghost.get("map_writes", ())
                    ok = ctl[0] == "return" and len(w) == 1 and w[0][0] == "contents" and w[0][1].eq(node.t) and w[0][2] is index
                    obls.append(core.Obligation(nm, "F", s.pc, z3.BoolVal(bool(ok)), note="tree[index] = value stores the child under index and nothing else"))
                elif meth == "__iter__":
                    r = ctl[1] if ctl[0] == "return" else None
                    ok = isinstance(r, IterOf) and r.m.which == "contents" and r.m.node.eq(node.t)
                    obls.append(core.Obligation(nm, "F", s.pc, z3.BoolVal(bool(ok)), note="iter(tree) iterates the children's indices (all of them)"))
                else:
                    r = ctl[1] if ctl[0] == "return" else None
                    obls.append(core.Obligation(nm, "F", s.pc, (r.t == total(node.t)) if isinstance(r, SInt) else z3.BoolVal(False), note="len(tree) == tree.total_errors"))
            self._finish(res, ctx, obls)
        res["source_hash"] = hashes

    def _run_total_errors(self, res):
        """total_errors == len(self.errors) + sum over all children of len(child)   (recursive calls by contract)"""
        repo, ctx, I = self._ctx()
        ctx.contracts["exceptions:ErrorTree.__len__"] = TotalC("exceptions:ErrorTree.__len__")
        unit = repo.unit("exceptions:ErrorTree.total_errors")
        res["function"], res["source_hash"] = unit.key, unit.source_hash()
        node = TreeV(z3.Const("node", V))
        st = State()
        st.unit = unit

        import pyvc.prims as _pr
        orig_binop = _pr.binop

        def binop2(I_, st_, op, a, b, node_=None):
            import ast as _ast
            if isinstance(op, _ast.Add) and (isinstance(a, SumV) or isinstance(b, SumV)):
                sv, other = (a, b) if isinstance(a, SumV) else (b, a)
                if isinstance(other, SInt):
                    return [(st_, SumV(sv.base + other.t, sv.parts))]
            return orig_binop(I_, st_, op, a, b, node_)
        _pr.binop = binop2
        try:
            outs = I.run_unit(unit, st, [node], {})
        finally:
            _pr.binop = orig_binop
        res["paths"] = len(outs)
        obls = list(ctx.obligations)
        n = 0
        i = smt.fresh("c", smt.I)
        expected_parts = (For(i, csize(node.t), One(SInt(total(child_at(node.t, i))))),)
        for s, ctl in outs:
            n += 1
            r = ctl[1] if ctl[0] == "return" else None
            if not isinstance(r, SumV):
                obls.append(core.Obligation("%s/F/sum#%d" % (self.name, n), "F", s.pc, z3.BoolVal(False), note="total_errors is len(errors) + sum(len(child) for all children)"))
                continue
            try:
                facts = seq_equal(r.parts, expected_parts)
                goal = z3.And([r.base == esize(node.t)] + facts)
            except OutOfSubset as e:
                goal = z3.BoolVal(False)
            obls.append(core.Obligation("%s/F/sum#%d" % (self.name, n), "F", s.pc, goal, note="total_errors == len(self.errors) + sum over every child of len(child)"))
        self._finish(res, ctx, obls)

    def _run_init_files(self, res):
        """ErrorTree(errors) files every error where its path says: after the constructor, for every error j the node
        reached by walking j's path from the root maps j's keyword to an error that was filed at that same node under
        that same keyword (outer-loop invariant over a ghost map of the nodes' `errors` dicts)"""
        self._run_init_safety(res, files=True)

    def _run_init_safety(self, res, files=False):
        """ErrorTree(errors) never raises, for any arrival order: paths of hashable elements, keyword a
        str or None; each error is filed under its keyword at the node its path leads to, and that
        node records the error's instance."""
        repo, ctx, I = self._ctx()
        unit = repo.unit("exceptions:ErrorTree.__init__")
        res["function"], res["source_hash"] = unit.key, unit.source_hash()
        root = TreeV(z3.Const("root", V))
        # the inner loop is the one nested in the loop over errors
        import ast as _ast
        from pyvc.loops import loop_ordinal
        inner = [n for n in _ast.walk(unit.node) if isinstance(n, _ast.For) and any(isinstance(p, _ast.For) and n in _ast.walk(p) and p is not n for p in _ast.walk(unit.node))]
        ctx.config["loop_invs"] = {(unit.key, loop_ordinal(unit, f)): WalkNodeInv(root) for f in inner}
        ii, jj = z3.Ints("ii jj")
        st = State()
        st.unit = unit
        if files:
            outer = [n for n in _ast.walk(unit.node) if isinstance(n, _ast.For) and n not in inner]
            for f in outer:
                ctx.config["loop_invs"][(unit.key, loop_ordinal(unit, f))] = FiledInv()
            st.ghost["EM"] = z3.Const("EM0", EMSort)
            st.pc.append(n_errors >= 0)
        st.pc.extend([z3.ForAll([ii], smt.is_kind(err_validator(ii), K_STR, K_NONE)),
                      z3.ForAll([ii, jj], smt.is_kind(err_pelem(ii, jj), K_STR, K_INT)),
                      z3.ForAll([ii], err_plen(ii) >= 0)])

        def set_attr_hook(I_, st_, obj, attr, v):
            pass
        orig_set = I.set_attr

        def set_attr(st_, obj, attr, v):
            if isinstance(obj, TreeV):
                s = st_.fork()
                if attr in ("errors", "_contents"):
                    # the node's own maps stay abstract (AbsMap); a new `errors` dict is an empty map
                    if attr == "errors" and "EM" in s.ghost:
                        s.ghost["EM"] = z3.Store(s.ghost["EM"], obj.t, z3.K(smt.S, z3.IntVal(0)))
                    s.ghost["attr_writes"] = s.ghost.get("attr_writes", ()) + ((obj.t, attr, v),)
                    return [(s, ("next", None))]
                s.heap[("tree", obj.t.get_id(), attr)] = v if attr != "_instance" else None
                s.ghost["attr_writes"] = s.ghost.get("attr_writes", ()) + ((obj.t, attr, v),)
                if attr == "_instance":
                    s.heap.pop(("tree", obj.t.get_id(), attr), None)
                return [(s, ("next", None))]
            return orig_set(st_, obj, attr, v)
        I.set_attr = set_attr
        outs = I.run_unit(unit, st, [root, AbsErrors()], {})
        res["paths"] = len(outs)
        obls = list(ctx.obligations)
        n = 0
        for s, ctl in outs:
            n += 1
            if ctl[0] == "raise":
                obls.append(core.Obligation("%s/S/raise:%s@%s#%d" % (self.name, ctl[1].cls, ctl[1].origin, n), "S", s.pc, False,
                                            note="the constructor raises %s" % ctl[1].cls))
            elif files:
                jq = z3.Int("jq")
                em = s.ghost["EM"]
                m = em[final_node(jq)][kwkey(err_validator(jq))] - 1
                obls.append(core.Obligation("%s/F/filed#%d" % (self.name, n), "F", s.pc,
                                            z3.ForAll([jq], z3.Implies(z3.And(0 <= jq, jq < n_errors),
                                                                       z3.And(0 <= m, m < n_errors, final_node(m) == final_node(jq),
                                                                              kwkey(err_validator(m)) == kwkey(err_validator(jq))))),
                                            note="for every error, the node its path leads to maps its keyword to an error filed at that node under that keyword"))
            else:
                obls.append(core.Obligation("%s/F/returns#%d" % (self.name, n), "F", s.pc, z3.BoolVal(True), note="constructor completes"))
        self._finish(res, ctx, obls)


def tree_tasks(root, timeout_ms=10000):
    return [TreeTask(root, w, timeout_ms) for w in ("methods", "total_errors", "init_safety", "init_files")]
