"""Verification tasks for draft selection and registration (C20): validator_for, validates."""
import time
import traceback

import z3

from pyvc import smt, extract, tables as tables_mod
from pyvc.smt import V, kind, sval, dhas, dget, K_DICT, K_BOOL, K_STR
from pyvc.values import *      # noqa
from pyvc.interp import State, Ctx, Interp, lift, Raised, branch, truth
from contracts import core
from contracts.tasks_core import CoreTask
from contracts.tasks_entry import ClassVal

normalize = z3.Function("uri_normalize", smt.S, smt.S)       # URIDict.normalize: urlsplit(u).geturl()   (assumed)
reg_has = z3.Function("reg_has", smt.S, smt.B)               # normalised key present in meta_schemas
reg_cls = z3.Function("reg_cls", smt.S, smt.I)               # the class registered under it (an id)


class AbsRegistry:
    def __init__(self, name):
        self.name = name


class AbsClass:
    """a validator class identified by an integer term"""
    def __init__(self, t):
        self.t = t


def registry_hooks(ctx):
    def global_hook(m, name):
        if m == "validators" and name in ("meta_schemas", "validators"):
            return AbsRegistry(name)
        if m == "validators" and name == "_LATEST_VERSION":
            return AbsClass(z3.IntVal(7))
        return None

    def in_hook(I, st, x, c):
        if isinstance(c, AbsRegistry) and c.name == "meta_schemas":
            xs = x if isinstance(x, SV) else None
            cases = [(smt.kd(xs.t, K_STR), SB(reg_has(normalize(sval(xs.t))))),
                     (z3.Not(smt.kd(xs.t, K_STR)), Raised(ExcVal("AttributeError", {}, origin="urlsplit(non-str)")))]
            return branch(I.ctx, st, cases)
        return None

    def method_hook(I, st, obj, name, args, kwargs, node):
        if isinstance(obj, AbsRegistry) and name == "get":
            x, dflt = args[0], args[1] if len(args) > 1 else lift(None)
            key = normalize(sval(x.t))
            cases = [(z3.And(smt.kd(x.t, K_STR), reg_has(key)), AbsClass(reg_cls(key))),
                     (z3.And(smt.kd(x.t, K_STR), z3.Not(reg_has(key))), dflt),
                     (z3.Not(smt.kd(x.t, K_STR)), Raised(ExcVal("AttributeError", {}, origin="urlsplit(non-str)")))]
            return branch(I.ctx, st, cases)
        return None

    def builtin_hook(I, st, name, args, kwargs, node):
        if name == "warnings.warn":
            s = st.fork()
            cat_ = args[1] if len(args) > 1 else kwargs.get("category")
            s.ghost["warned"] = s.ghost.get("warned", ()) + (getattr(cat_, "name", repr(cat_)),)
            return [(s, lift(None))]
        return None

    def setitem_hook(I, st, obj, k, v):
        if isinstance(obj, AbsRegistry):
            s = st.fork()
            s.ghost["reg_writes"] = s.ghost.get("reg_writes", ()) + ((obj.name, k, v),)
            return [(s, ("next", None))]
        return None

    def getattr_hook(I, st, obj, attr):
        if isinstance(obj, AbsRegistry):
            return [(st, BoundMethod(obj, attr))]
        return None

    ctx.config.update(global_hook=global_hook, in_hook=in_hook, method_hook=method_hook, builtin_hook=builtin_hook, setitem_hook=setitem_hook,
                      getattr_hook=getattr_hook)


class RegistryTask(CoreTask):
    def __init__(self, root, which, timeout_ms=10000):
        CoreTask.__init__(self, root, 7, which, timeout_ms)
        self.name = "registry:%s" % which
        self.weight = 1

    def cache_key(self):
        from pyvc import driver
        return "reg|%s|%s|%s" % (self.name, self.timeout_ms, driver.dep_hash(self.root, modules=("validators", "_utils")))

    def _run_validator_for(self, res):
        repo = extract.Repo(self.root)
        ctx = Ctx(repo, contracts={}, config={})
        registry_hooks(ctx)
        I = Interp(ctx)
        unit = repo.unit("validators:validator_for")
        res["function"], res["source_hash"] = unit.key, unit.source_hash()
        schema = SV(z3.Const("schema", V))
        default = AbsClass(z3.Int("default_cls"))
        st = State()
        st.unit = unit
        # $schema, when present, is a string (the metaschemas say `format: uri`, type string)
        sk = z3.StringVal("$schema")
        st.pc.extend([smt.isjson(schema.t), z3.Implies(z3.And(kind(schema.t) == K_DICT, dhas(schema.t, sk)), kind(dget(schema.t, sk)) == K_STR)])
        outs = I.run_unit(unit, st, [schema, default], {})
        res["paths"] = len(outs)
        obls = list(ctx.obligations)
        has = z3.And(kind(schema.t) == K_DICT, dhas(schema.t, sk))
        key = normalize(sval(dget(schema.t, sk)))
        n = 0
        for s, ctl in outs:
            n += 1
            warned = s.ghost.get("warned", ())
            if ctl[0] == "raise":
                obls.append(core.Obligation("%s/S/raise:%s@%s#%d" % (self.name, ctl[1].cls, ctl[1].origin, n), "S", s.pc, False, note="validator_for raises"))
                continue
            r = ctl[1]
            rt = r.t if isinstance(r, AbsClass) else None
            if rt is None:
                obls.append(core.Obligation("%s/F/result#%d" % (self.name, n), "F", s.pc, z3.BoolVal(False), note="returns a class"))
                continue
            expected = z3.If(z3.Not(has), default.t, z3.If(reg_has(key), reg_cls(key), z3.IntVal(7)))
            want_warn = z3.And(has, z3.Not(reg_has(key)))
            obls.append(core.Obligation("%s/F/selects#%d" % (self.name, n), "F", s.pc, rt == expected,
                                        note="no $schema (or a non-mapping): the default; registered id: its class; otherwise the latest draft"))
            obls.append(core.Obligation("%s/F/warning#%d" % (self.name, n), "F", s.pc,
                                        want_warn == z3.BoolVal(len(warned) == 1 and "DeprecationWarning" in warned[0]) if len(warned) <= 1 else z3.BoolVal(False),
                                        note="exactly one DeprecationWarning iff $schema is present and not registered (got %s)" % (warned,)))
        self.finish(res, ctx, obls)

    def _run_validates(self, res):
        """validates(version)(cls): validators[version] = cls; meta_schemas[cls.ID_OF(cls.META_SCHEMA)] = cls
        when that id is non-empty; nothing else is written; returns cls (C20, C16)."""
        for d in (3, 4, 6, 7):
            repo = extract.Repo(self.root)
            tabs = tables_mod.draft_tables(repo)
            ctx = Ctx(repo, contracts={}, config={})
            registry_hooks(ctx)
            from spec.ops import lift_json
            meta = lift_json(repo.schemas[d])

            def getattr_hook(I, st, obj, attr, d=d, meta=meta, tabs=tabs):
                if isinstance(obj, AbsRegistry):
                    return [(st, BoundMethod(obj, attr))]
                if isinstance(obj, ClassVal):
                    if attr == "META_SCHEMA":
                        return [(st, meta)]
                    if attr == "ID_OF":
                        return [(st, FuncRef(tabs[d].id_of))]
                return None
            ctx.config["getattr_hook"] = getattr_hook
            I = Interp(ctx)
            outer = repo.unit("validators:validates")
            inner = repo.unit("validators:validates._validates")
            res["function"], res["source_hash"] = inner.key, inner.source_hash()
            version = SV(z3.Const("version", V))
            st = State()
            st.unit = inner
            st.closure = {"version": version}
            cls = ClassVal(d)
            outs = I.run_unit(inner, st, [cls], {})
            res["paths"] += len(outs)
            obls = list(ctx.obligations)
            idk = {3: "id", 4: "id", 6: "$id", 7: "$id"}[d]
            want_id = repo.schemas[d].get(idk, "")
            for s, ctl in outs:
                if ctl[0] == "raise":
                    obls.append(core.Obligation("%s/S/raise:%s@draft%d" % (self.name, ctl[1].cls, d), "S", s.pc, False, note="validates raises"))
                    continue
                w = s.ghost.get("reg_writes", ())
                ok = ctl[1] is cls and len(w) == (2 if want_id else 1) and w[0][0] == "validators" and w[0][1] is version and w[0][2] is cls
                if want_id and ok:
                    ok = w[1][0] == "meta_schemas" and isinstance(w[1][1], SV) and w[1][1].known and w[1][1].conc == want_id and w[1][2] is cls
                obls.append(core.Obligation("%s/F/registers@draft%d" % (self.name, d), "F", s.pc, z3.BoolVal(bool(ok)),
                                            note="registers cls under the version name and under its own metaschema id %r, writes nothing else, returns cls" % want_id))
            self.finish(res, ctx, obls)


def registry_tasks(root, timeout_ms=10000):
    return [RegistryTask(root, "validator_for", timeout_ms), RegistryTask(root, "validates", timeout_ms)]
