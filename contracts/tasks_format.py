"""Verification tasks for `format` (C12): the keyword function, FormatChecker.check / conforms, the
non-string guard of every built-in checker function; registration table by reflection (C13 wrappers)."""
import ast
import time
import traceback

import z3

from pyvc import smt, extract, tables as tables_mod
from pyvc.smt import V, kind, K_STR
from pyvc.values import *      # noqa
from pyvc.interp import State, Ctx, Interp, lift, Raised, truth, EXC_PARENTS
from contracts import core
from contracts.tasks_core import CoreTask

EXC_PARENTS.setdefault("ListedExc", "Exception")       # an exception that is an instance of the checker's `raises`
EXC_PARENTS.setdefault("UnlistedExc", "Exception")     # any other exception of a custom checker function

fmt_known = z3.Function("fmt_known", V, smt.B)          # format name is registered in checker.checkers


class AbsCheckers:
    pass


class AbsFunc:
    pass


class AbsRaises:
    pass


def install_checker_model(ctx):
    def getattr_hook(I, st, obj, attr):
        if isinstance(obj, ObjVal) and obj.cls == "FormatChecker" and attr == "checkers":
            return [(st, AbsCheckers())]
        return None

    def in_hook(I, st, x, c):
        if isinstance(c, AbsCheckers):
            return [(st, SB(fmt_known(x.t)))]
        return None

    def subscript_hook(I, st, obj, key):
        if isinstance(obj, AbsCheckers):
            from pyvc.interp import branch
            return branch(I.ctx, st, [(fmt_known(key.t), PyTuple([AbsFunc(), AbsRaises()])),
                                      (z3.Not(fmt_known(key.t)), Raised(ExcVal("KeyError", {}, origin="checkers[]")))])
        return None

    def call_hook(I, st, f, args, kwargs, node):
        if isinstance(f, AbsFunc):
            outs = []
            r = SV(smt.fresh("func_result", V))
            outcomes = [("ret", r), ("listed", Raised(ExcVal("ListedExc", {}, origin="func"))),
                        ("unlisted", Raised(ExcVal("UnlistedExc", {}, origin="func")))]
            # the function may raise an instance of ANY class: also of each built-in class that the code under
            # verification names in an `except` clause (listed in `raises` or not)
            for base in I.ctx.config.get("named_exception_classes", ()):
                EXC_PARENTS.setdefault("Listed" + base, base)
                EXC_PARENTS.setdefault("Unlisted" + base, base)
                outcomes.append(("listed", Raised(ExcVal("Listed" + base, {}, origin="func"))))
                outcomes.append(("unlisted", Raised(ExcVal("Unlisted" + base, {}, origin="func"))))
            for tag, payload in outcomes:
                s = st.fork()
                s.ghost["func_outcome"] = (tag, payload)
                s.ghost["func_calls"] = s.ghost.get("func_calls", 0) + 1
                outs.append((s, payload))
            return outs
        return None

    def exc_names_hook(I, v, st):
        if isinstance(v, AbsRaises):
            return ["ListedExc"] + ["Listed" + b for b in I.ctx.config.get("named_exception_classes", ())]
        return None

    def unpack_hook(I, v, n, st):
        return None

    ctx.config.update(getattr_hook=getattr_hook, in_hook=in_hook, subscript_hook=subscript_hook, call_hook=call_hook,
                      exc_names_hook=exc_names_hook)


class FormatCheckC(core.Contract):
    """FormatChecker.check(instance, format) (proved by the `check` task):
       format not registered                      -> returns
       func returns r, truthy(r)                  -> returns
       func returns r, not truthy(r)              -> raises FormatError(cause=None)
       func raises an instance of `raises`        -> raises FormatError(cause=that exception)
       func raises anything else                  -> that exception propagates unchanged"""
    key = "_format:FormatChecker.check"

    def apply(self, I, st, args, kwargs, fref):
        from pyvc.interp import branch
        fmt = args[2]
        known = fmt_known(fmt.t)
        ok = z3.Bool("check_ok!%d" % I.ctx.new_oid())
        cause = SV(smt.fresh("cause", V))
        outs = []
        for cond, tag, payload in ((z3.Not(known), "returns", lift(None)), (z3.And(known, ok), "returns", lift(None)),
                                   (z3.And(known, z3.Not(ok)), "format-error", Raised(ExcVal("FormatError", {"message": Opaque("msg"), "cause": cause}, origin="check"))),
                                   (known, "unlisted", Raised(ExcVal("UnlistedExc", {}, origin="check")))):
            s = st.fork()
            s.ghost["check_calls"] = s.ghost.get("check_calls", ()) + ((tag, args[1], args[2]),)
            outs.extend(branch(I.ctx, s, [(cond, payload)]))
        return outs


class FormatTask(CoreTask):
    def __init__(self, root, which, timeout_ms=10000):
        CoreTask.__init__(self, root, 7, which, timeout_ms)
        self.name = "format:%s" % which
        self.weight = 1

    def cache_key(self):
        from pyvc import driver
        return "fmt|%s|%s|%s" % (self.name, self.timeout_ms, driver.dep_hash(self.root, modules=("_format", "_validators", "exceptions")))

    def _checker_state(self):
        repo, ctx, st, vm, validator, I = self.setup()
        install_checker_model(ctx)
        fc = ObjVal("FormatChecker", ctx.new_oid())
        return repo, ctx, st, vm, validator, I, fc

    def _run_check(self, res):
        repo, ctx, st, vm, validator, I, fc = self._checker_state()
        unit = repo.unit("_format:FormatChecker.check")
        res["function"], res["source_hash"] = unit.key, unit.source_hash()
        inst, fmt = SV(z3.Const("instance", V)), SV(z3.Const("format", V))
        st.unit = unit
        st.pc.append(kind(fmt.t) == K_STR)
        named = set()
        for h in ast.walk(unit.node):
            if isinstance(h, ast.ExceptHandler) and h.type is not None:
                for nm in ast.walk(h.type):
                    if isinstance(nm, ast.Name) and nm.id in EXC_PARENTS and nm.id not in ("Exception", "BaseException"):
                        named.add(nm.id)
        ctx.config["named_exception_classes"] = tuple(sorted(named))
        outs = I.run_unit(unit, st, [fc, inst, fmt], {})
        res["paths"] = len(outs)
        obls = list(ctx.obligations)
        known = fmt_known(fmt.t)
        n = 0
        for s, ctl in outs:
            n += 1
            oc = s.ghost.get("func_outcome")
            calls = s.ghost.get("func_calls", 0)
            if ctl[0] == "return":
                if oc is None:
                    goal, note = z3.Not(known), "returns without calling anything only for an unregistered format"
                else:
                    goal = z3.And(known, z3.BoolVal(oc[0] == "ret" and calls == 1), smt.truthy(oc[1].t) if oc[0] == "ret" else z3.BoolVal(False))
                    note = "returns after the function returned a truthy value (called exactly once)"
                obls.append(core.Obligation("%s/F/returns#%d" % (self.name, n), "F", s.pc, goal, note=note))
            else:
                exc = ctl[1]
                if exc.cls == "FormatError":
                    cause = exc.fields.get("cause")
                    if oc and oc[0] == "ret":
                        good = isinstance(cause, SV) and cause.known and cause.conc is None
                        goal = z3.And(known, z3.Not(smt.truthy(oc[1].t)), z3.BoolVal(bool(good)))
                        note = "FormatError(cause=None) exactly when the function returned a falsy value"
                    elif oc and oc[0] == "listed":
                        good = isinstance(cause, ExcVal) and cause is oc[1].exc
                        goal = z3.And(known, z3.BoolVal(bool(good)))
                        note = "FormatError whose cause is the listed exception the function raised"
                    else:
                        goal, note = z3.BoolVal(False), "FormatError without a reason"
                    obls.append(core.Obligation("%s/F/format-error#%d" % (self.name, n), "F", s.pc, goal, note=note))
                elif exc.cls.startswith("Unlisted"):
                    good = oc and oc[0] == "unlisted" and exc is oc[1].exc
                    obls.append(core.Obligation("%s/F/propagates#%d" % (self.name, n), "F", s.pc, z3.BoolVal(bool(good)),
                                                note="an exception not listed in `raises` reaches the caller unchanged"))
                else:
                    obls.append(core.Obligation("%s/S/raise:%s@%s#%d" % (self.name, exc.cls, exc.origin, n), "S", s.pc, False, note="%s escapes check" % exc.cls))
        self.finish(res, ctx, obls)

    def _run_conforms(self, res):
        repo, ctx, st, vm, validator, I, fc = self._checker_state()
        ctx.contracts[FormatCheckC.key] = FormatCheckC()
        unit = repo.unit("_format:FormatChecker.conforms")
        res["function"], res["source_hash"] = unit.key, unit.source_hash()
        inst, fmt = SV(z3.Const("instance", V)), SV(z3.Const("format", V))
        st.unit = unit
        st.pc.append(kind(fmt.t) == K_STR)
        outs = I.run_unit(unit, st, [fc, inst, fmt], {})
        res["paths"] = len(outs)
        obls = list(ctx.obligations)
        n = 0
        kinds = set()
        for s, ctl in outs:
            n += 1
            if ctl[0] == "return":
                v = ctl[1]
                isbool = isinstance(v, SV) and v.known and isinstance(v.conc, bool)
                kinds.add(("ret", v.conc if isbool else None))
                obls.append(core.Obligation("%s/F/boolean#%d" % (self.name, n), "F", s.pc, z3.BoolVal(bool(isbool)), note="conforms returns True / False"))
            else:
                exc = ctl[1]
                kinds.add(("raise", exc.cls))
                obls.append(core.Obligation("%s/F/propagates#%d" % (self.name, n), "F", s.pc, z3.BoolVal(exc.cls == "UnlistedExc"),
                                            note="conforms lets only unlisted exceptions of a custom function through (FormatError becomes False)"))
        want = {("ret", True), ("ret", False), ("raise", "UnlistedExc")}
        obls.append(core.Obligation("%s/F/outcomes" % self.name, "F", [], z3.BoolVal(kinds == want),
                                    note="conforms: True when check returns, False when it raises FormatError, otherwise the exception (%s)" % sorted(map(str, kinds))))
        self.finish(res, ctx, obls)

    def _run_keyword(self, res):
        """_validators.format: without checker no error; with one: exactly one error (message and cause
        of the FormatError) iff check raises FormatError; other exceptions propagate."""
        for with_checker in (False, True):
            repo, ctx, st, vm, validator, I, fc = self._checker_state()
            ctx.contracts[FormatCheckC.key] = FormatCheckC()
            key = tables_mod.draft_tables(repo)[7].keywords["format"]
            unit = repo.unit(key)
            res["function"], res["source_hash"] = key, unit.source_hash()
            st.heap[(validator.oid, "format_checker")] = fc if with_checker else lift(None)
            inst, fmt, schema = SV(z3.Const("instance", V)), SV(z3.Const("format", V)), SV(z3.Const("schema", V))
            st.unit = unit
            st.pc.append(kind(fmt.t) == K_STR)
            outs = I.run_unit(unit, st, [validator, fmt, inst, schema], {})
            res["paths"] += len(outs)
            obls = list(ctx.obligations)
            n = 0
            seen = set()
            for s, ctl in outs:
                n += 1
                out = cat(*s.out)
                tag = "with-checker" if with_checker else "no-checker"
                calls = s.ghost.get("check_calls", ())
                consulted = len(calls) == 1 and calls[0][1] is inst and calls[0][2] is fmt
                obls.append(core.Obligation("%s/F/%s.consults-checker#%d" % (self.name, tag, n), "F", s.pc,
                                            z3.BoolVal(bool(consulted) if with_checker else len(calls) == 0),
                                            note="with a checker, check(instance, format) is called exactly once for every instance of every type; without one, never"))
                if ctl[0] == "return":
                    if isinstance(out, Nil):
                        seen.add("none")
                        obls.append(core.Obligation("%s/F/%s.no-error#%d" % (self.name, tag, n), "F", s.pc,
                                                    z3.BoolVal(not with_checker or (consulted and calls[0][0] == "returns")),
                                                    note="no error exactly when check returned"))
                        continue
                    ok = isinstance(out, One) and isinstance(out.val, ErrVal) and isinstance(out.val.fields.get("cause"), SV)
                    ok = ok and consulted and calls[0][0] == "format-error"
                    seen.add("one")
                    obls.append(core.Obligation("%s/F/%s.error#%d" % (self.name, tag, n), "F", s.pc, z3.BoolVal(bool(ok and with_checker)),
                                                note="one ValidationError carrying the FormatError's cause, exactly when check raised FormatError"))
                else:
                    seen.add("raise:" + ctl[1].cls)
                    obls.append(core.Obligation("%s/F/%s.propagates#%d" % (self.name, tag, n), "F", s.pc, z3.BoolVal(ctl[1].cls == "UnlistedExc" and with_checker),
                                                note="only unlisted exceptions of a custom checker propagate"))
            want = {"none", "one", "raise:UnlistedExc"} if with_checker else {"none"}
            obls.append(core.Obligation("%s/F/%s.outcomes" % (self.name, "with-checker" if with_checker else "no-checker"), "F", [], z3.BoolVal(seen == want),
                                        note="outcomes %s" % sorted(seen)))
            self.finish(res, ctx, obls)

    def _run_guards(self, res):
        """every checker function registered in this installation returns True for a non-string
        instance without consulting anything else (C12)"""
        from pyvc import driver
        repo = extract.Repo(self.root)
        reg = driver.rt_call("pyvc.rt_fmt", {"cmd": "registry", "root": self.root}, self.root)
        funcs = sorted({e["func"] for chk in reg["checkers"].values() for e in chk.values()})
        res["function"] = "_format:<registered checker functions>"
        res["registry"] = reg
        n = 0
        for fname in funcs:
            key = "_format:%s" % fname
            if key not in repo.units:
                res["obligations"].append({"name": "%s/T/source:%s" % (self.name, fname), "kind": "T", "status": "failed", "solver": "tables",
                                           "note": "registered function %s has no source in _format.py" % fname})
                continue
            ctx = Ctx(repo, contracts={}, config={})
            I = Interp(ctx)
            st = State()
            unit = repo.unit(key)
            st.unit = unit
            inst = SV(z3.Const("instance", V))
            st.pc.extend([smt.isjson(inst.t), kind(inst.t) != K_STR])
            try:
                outs = I.run_unit(unit, st, [inst], {})
            except OutOfSubset as e:
                res["obligations"].append({"name": "%s/F/non-string:%s" % (self.name, fname), "kind": "F", "status": "failed", "solver": "pyvc",
                                           "note": "a non-string instance reaches code beyond the guard: %s" % e, "reason": str(e)})
                continue
            obls = list(ctx.obligations)
            for s, ctl in outs:
                n += 1
                if ctl[0] == "return":
                    obls.append(core.Obligation("%s/F/non-string:%s#%d" % (self.name, fname, n), "F", s.pc, truth(ctx, s, ctl[1]),
                                                note="%s(non-string) is truthy" % fname))
                else:
                    obls.append(core.Obligation("%s/S/non-string:%s#%d" % (self.name, fname, n), "S", s.pc, False, note="%s raises on a non-string" % fname))
            self.finish(res, ctx, obls)
        res["paths"] = n


def format_tasks(root, timeout_ms=10000):
    return [FormatTask(root, w, timeout_ms) for w in ("check", "conforms", "keyword", "guards")]


# ---------------------------------------------------------------------------------------------------
# C13: the repository's own part of the built-in format functions, by symbolic execution

dep_v4 = z3.Function("ipaddress_IPv4Address_accepts", smt.S, smt.B)      # ipaddress.IPv4Address(s) returns (else AddressValueError)
dep_v6 = z3.Function("ipaddress_IPv6Address_accepts", smt.S, smt.B)
dep_v6_scope = z3.Function("ipaddress_IPv6Address_scope_id", smt.S, smt.S)   # .scope_id of the parsed address ('' when none)
dep_re = z3.Function("re_compile_accepts", smt.S, smt.B)                 # re.compile(s) returns (else re.error / OverflowError)
dep_iso = z3.Function("date_fromisoformat_accepts", smt.S, smt.B)        # date.fromisoformat(s) returns (else ValueError)
dep_hms = z3.Function("strptime_HMS_accepts", smt.S, smt.B)

EXC_PARENTS.setdefault("AddressValueError", "ValueError")
EXC_PARENTS.setdefault("error", "Exception")          # re.error


class AddrV:
    def __init__(self, s):
        self.s = s


class RegexV:
    """a compiled pattern of the repository: its language as an SMT regular expression"""
    def __init__(self, r, text):
        self.r, self.text = r, text


class DepFn:
    def __init__(self, name):
        self.name = name


def sre_to_z3(pattern, ascii_flag):
    """Python regular expression -> z3 regular expression for the subset: literals, ., classes with ranges and
    \\d, repetition, groups, alternation, ^ $ anchors at the ends (for fullmatch: `$` cannot consume the final
    newline, so under fullmatch it matches only at the very end).  Parsing is Python's own (re._parser)."""
    try:
        import re._parser as sp      # 3.11+
        import re._constants as sc
    except ImportError:      # pragma: no cover
        import sre_parse as sp
        import sre_constants as sc
    digit = z3.Range("0", "9")
    if not ascii_flag:
        raise OutOfSubset("\\d without re.ASCII matches every Unicode decimal digit: not expressible here")

    def seq(items):
        rs = [one(op, av) for op, av in items]
        rs = [r for r in rs if r is not None]
        if not rs:
            return z3.Re(z3.StringVal(""))
        return rs[0] if len(rs) == 1 else z3.Concat(*rs)

    def cls(av):
        parts = []
        neg = False
        for op, a in av:
            if op is sc.NEGATE:
                neg = True
            elif op is sc.LITERAL:
                parts.append(z3.Re(z3.StringVal(chr(a))))
            elif op is sc.RANGE:
                parts.append(z3.Range(chr(a[0]), chr(a[1])))
            elif op is sc.CATEGORY and a is sc.CATEGORY_DIGIT:
                parts.append(digit)
            else:
                raise OutOfSubset("regex class item %s" % (op,))
        r = parts[0] if len(parts) == 1 else z3.Union(*parts)
        if neg:
            r = z3.Intersect(z3.AllChar(z3.ReSort(smt.S)), z3.Complement(r))
        return r

    def one(op, av):
        if op is sc.LITERAL:
            return z3.Re(z3.StringVal(chr(av)))
        if op is sc.IN:
            return cls(av)
        if op is sc.MAX_REPEAT or op is sc.MIN_REPEAT:
            lo, hi, sub = av
            r = seq(list(sub))
            if hi is sc.MAXREPEAT:
                return z3.Concat(z3.Loop(r, lo, lo), z3.Star(r)) if lo else z3.Star(r)
            return z3.Loop(r, lo, hi)
        if op is sc.SUBPATTERN:
            return seq(list(av[3]))
        if op is sc.BRANCH:
            return z3.Union(*[seq(list(b)) for b in av[1]])
        if op is sc.AT:
            if av in (sc.AT_BEGINNING, sc.AT_BEGINNING_STRING, sc.AT_END, sc.AT_END_STRING):
                return None      # positions checked below
            raise OutOfSubset("regex anchor %s" % (av,))
        if op is sc.ANY:
            return z3.Intersect(z3.AllChar(z3.ReSort(smt.S)), z3.Complement(z3.Re(z3.StringVal("\n"))))
        raise OutOfSubset("regex construct %s" % (op,))
    parsed = list(sp.parse(pattern, sc.SRE_FLAG_ASCII if ascii_flag else 0))
    for i, (op, av) in enumerate(parsed):
        if op is sc.AT and av in (sc.AT_BEGINNING, sc.AT_BEGINNING_STRING) and i != 0:
            raise OutOfSubset("^ inside the pattern")
        if op is sc.AT and av in (sc.AT_END, sc.AT_END_STRING) and i != len(parsed) - 1:
            raise OutOfSubset("$ inside the pattern")
    return seq(parsed)


SPEC_DATE = z3.Concat(z3.Loop(z3.Range("0", "9"), 4, 4), z3.Re(z3.StringVal("-")), z3.Loop(z3.Range("0", "9"), 2, 2),
                      z3.Re(z3.StringVal("-")), z3.Loop(z3.Range("0", "9"), 2, 2))      # RFC 3339 full-date shape


def _module_regexes(repo):
    """module-level NAME = re.compile(<str constant>[, flags]) of _format.py"""
    out = {}
    for n in ast.walk(repo.trees["_format"]):
        if isinstance(n, ast.Assign) and len(n.targets) == 1 and isinstance(n.targets[0], ast.Name) and isinstance(n.value, ast.Call) and \
                ast.unparse(n.value.func) == "re.compile" and n.value.args and isinstance(n.value.args[0], ast.Constant) and isinstance(n.value.args[0].value, str):
            flags = " ".join(ast.unparse(a) for a in n.value.args[1:]) + " ".join(ast.unparse(k.value) for k in n.value.keywords)
            out[n.targets[0].id] = (n.value.args[0].value, flags)
    return out


def _module_aliases(repo):
    """NAME = dotted.name at module level (also inside if/try), e.g. _is_date = datetime.date.fromisoformat"""
    out = {}
    for n in ast.walk(repo.trees["_format"]):
        if isinstance(n, ast.Assign) and len(n.targets) == 1 and isinstance(n.targets[0], ast.Name) and isinstance(n.value, (ast.Attribute, ast.Name)):
            out.setdefault(n.targets[0].id, set()).add(ast.unparse(n.value))
    return out


WRAPPER_SPECS = {
    # function -> (spec of "accepts" over the string s, exceptions that may escape = the registered `raises`)
    "is_email": lambda s: z3.Contains(s, z3.StringVal("@")),
    "is_ipv4": lambda s: dep_v4(s),
    "is_ipv6": lambda s: z3.And(dep_v6(s), dep_v6_scope(s) == z3.StringVal("")),
    "is_regex": lambda s: dep_re(s),
    "is_date": lambda s: z3.And(z3.InRe(s, SPEC_DATE), dep_iso(s)),
    "is_draft3_time": lambda s: dep_hms(s),
}


def _run_wrappers(self, res):
    """For every string s: each built-in function of the repository itself (email, ipv4, ipv6, regex, date, draft-3 time)
    returns a truthy value exactly when its specification over the assumed dependency contracts holds, and lets
    nothing escape but the exceptions registered for it (which check turns into FormatError, C12)."""
    from pyvc import driver
    from pyvc.interp import branch
    repo = extract.Repo(self.root)
    reg = driver.rt_call("pyvc.rt_fmt", {"cmd": "registry", "root": self.root}, self.root)
    raises_of = {}
    for chk in reg["checkers"].values():
        for e in chk.values():
            raises_of.setdefault(e["func"], set()).update(e["raises"])
    regexes, aliases = _module_regexes(repo), _module_aliases(repo)
    res["function"] = "_format:{%s}" % ",".join(sorted(WRAPPER_SPECS))
    hashes = ""
    npaths = 0
    for fname in sorted(WRAPPER_SPECS):
        key = "_format:%s" % fname
        if fname not in raises_of:
            continue      # not registered in this installation
        if key not in repo.units:
            res["obligations"].append({"name": "%s/T/source:%s" % (self.name, fname), "kind": "T", "status": "failed", "solver": "tables", "note": "no source for %s" % fname})
            continue
        unit = repo.unit(key)
        hashes += unit.source_hash()
        ctx = Ctx(repo, contracts={}, config={})
        inst = SV(z3.Const("instance", V))
        s_ = smt.sval(inst.t)

        def dep(acc, excs):
            def f(I, st, *a):
                cases = [(acc, lift(True))] + [(z3.Not(acc), Raised(ExcVal(e, {}, origin="dependency"))) for e in excs]
                return branch(I.ctx, st, cases)
            return f

        def builtin_hook(I, st, name, a, k, node, s_=s_):
            same = a and isinstance(a[0], SV) and a[0].t.eq(inst.t)
            if name == "ipaddress.IPv4Address" and same:
                return branch(I.ctx, st, [(dep_v4(s_), lift(True)), (z3.Not(dep_v4(s_)), Raised(ExcVal("AddressValueError", {}, origin="ipaddress")))])
            if name == "ipaddress.IPv6Address" and same:
                return branch(I.ctx, st, [(dep_v6(s_), AddrV(s_)), (z3.Not(dep_v6(s_)), Raised(ExcVal("AddressValueError", {}, origin="ipaddress")))])
            if name == "re.compile" and same and len(a) == 1:
                return branch(I.ctx, st, [(dep_re(s_), lift(True)), (z3.Not(dep_re(s_)), Raised(ExcVal("error", {}, origin="re.compile"))),
                                          (z3.Not(dep_re(s_)), Raised(ExcVal("OverflowError", {}, origin="re.compile")))])
            if name == "datetime.datetime.strptime" and same and len(a) == 2 and isinstance(a[1], SV) and a[1].known and a[1].conc == "%H:%M:%S":
                return branch(I.ctx, st, [(dep_hms(s_), lift(True)), (z3.Not(dep_hms(s_)), Raised(ExcVal("ValueError", {}, origin="strptime")))])
            if name == "datetime.date.fromisoformat" and same:
                return branch(I.ctx, st, [(dep_iso(s_), lift(True)), (z3.Not(dep_iso(s_)), Raised(ExcVal("ValueError", {}, origin="fromisoformat")))])
            if name == "getattr" and len(a) == 3 and isinstance(a[0], AddrV) and isinstance(a[1], SV) and a[1].known and a[1].conc == "scope_id":
                return [(st, SStr(dep_v6_scope(a[0].s)))]
            if name == "bool" and len(a) == 1:
                return [(st, SB(truth(I.ctx, st, a[0])))]
            return None

        def global_hook(m, name):
            if m == "_format" and name in regexes:
                pat, flags = regexes[name]
                return RegexV(sre_to_z3(pat, "ASCII" in flags or "re.A" in flags.split()), pat)
            if m == "_format" and name in aliases and name.startswith("_is_"):
                tg = aliases[name]
                if tg == {"datetime.date.fromisoformat"}:
                    return DepFn("datetime.date.fromisoformat")
                raise OutOfSubset("alias %s = %s" % (name, sorted(tg)))
            return None

        def getattr_hook(I, st, obj, attr):
            if isinstance(obj, RegexV):
                return [(st, BoundMethod(obj, attr))]
            return None

        def method_hook(I, st, obj, name, a, k, node):
            if isinstance(obj, RegexV) and name == "fullmatch" and len(a) == 1 and isinstance(a[0], SV):
                m = z3.InRe(smt.sval(a[0].t), obj.r)
                return branch(I.ctx, st, [(m, lift(True)), (z3.Not(m), lift(None))])
            if isinstance(obj, RegexV):
                raise OutOfSubset("regex method %s" % name)
            if isinstance(obj, Builtin) and obj.name in ("datetime.datetime", "datetime.date"):
                return builtin_hook(I, st, obj.name + "." + name, a, k, node)
            return None

        def call_hook(I, st, f, a, k, node):
            if isinstance(f, DepFn):
                return builtin_hook(I, st, f.name, a, k, node)
            return None
        ctx.config.update(builtin_hook=builtin_hook, global_hook=global_hook, getattr_hook=getattr_hook, method_hook=method_hook, call_hook=call_hook)
        I = Interp(ctx)
        st = State()
        st.unit = unit
        st.pc.append(kind(inst.t) == K_STR)
        try:
            outs = I.run_unit(unit, st, [inst], {})
        except OutOfSubset as e:
            res["obligations"].append({"name": "%s/F/accepts:%s" % (self.name, fname), "kind": "F", "status": "unknown", "solver": "pyvc",
                                       "note": "%s leaves the verified subset: %s" % (fname, e), "reason": "out of subset: %s" % e})
            continue
        spec = WRAPPER_SPECS[fname](s_)
        listed = raises_of[fname]
        obls = list(ctx.obligations)
        for n, (s, ctl) in enumerate(outs):
            npaths += 1
            if ctl[0] == "raise":
                cls_ = ctl[1].cls
                ok = cls_ in listed or any(EXC_PARENTS.get(cls_) == l for l in listed)
                obls.append(core.Obligation("%s/S/%s.raises:%s#%d" % (self.name, fname, cls_, n + 1), "S", s.pc,
                                            z3.And(z3.BoolVal(bool(ok)), z3.Not(spec)),
                                            note="%s lets only its registered exceptions %s escape, and only for strings outside the grammar" % (fname, sorted(listed))))
            else:
                v = ctl[1]
                t = z3.BoolVal(True) if isinstance(v, AddrV) else truth(ctx, s, v)
                obls.append(core.Obligation("%s/F/%s.accepts#%d" % (self.name, fname, n + 1), "F", s.pc, t == spec,
                                            note="%s(s) is truthy exactly when s is in its grammar (over the assumed dependency contract)" % fname))
        self.finish(res, ctx, obls)
    res["paths"] = npaths
    res["source_hash"] = hashes
    if any(o["status"] != "discharged" for o in res["obligations"]):
        try:
            res["search"] = driver.rt_call("pyvc.rt_fmt", {"cmd": "search", "root": self.root, "limit": 3}, self.root, timeout=3000)
        except Exception as e:      # noqa
            res["search"] = {"failures": [], "error": str(e)[-300:]}


FormatTask._run_wrappers = _run_wrappers


def wrapper_tasks(root, timeout_ms=10000):
    return [FormatTask(root, "wrappers", timeout_ms)]


# ---------------------------------------------------------------------------------------------------
# exceptions.FormatError.__init__: the error carries exactly the message and the cause it is given

def _run_format_error_init(self, res):
    """FormatError(message, cause): self.message is the message, self.cause and self.__cause__ are the very exception object
    given as cause (the one the checker function raised) - not something derived from it"""
    repo = extract.Repo(self.root)
    unit = repo.unit("exceptions:FormatError.__init__")
    res["function"], res["source_hash"] = unit.key, unit.source_hash()
    ctx = Ctx(repo, contracts={}, config={})

    class _Super:
        pass

    def builtin_hook(I, st, name, a, k, node):
        if name == "super":
            return [(st, _Super())]
        return None

    def getattr_hook(I, st, obj, attr):
        if isinstance(obj, _Super):
            return [(st, BoundMethod(obj, attr))]
        return None

    def method_hook(I, st, obj, name, a, k, node):
        if isinstance(obj, _Super) and name == "__init__":
            return [(st, lift(None))]      # Exception.__init__ stores its arguments in .args (trusted)
        return None
    ctx.config.update(builtin_hook=builtin_hook, getattr_hook=getattr_hook, method_hook=method_hook)
    I = Interp(ctx)
    st = State()
    st.unit = unit
    me = ObjVal("FormatError", ctx.new_oid())
    msg = Opaque("message", [])
    cause = ExcVal("ListedExc", {}, origin="func")
    outs = I.run_unit(unit, st, [me, msg, cause], {})
    res["paths"] = len(outs)
    obls = list(ctx.obligations)
    for n, (s, ctl) in enumerate(outs):
        nm = "format:format_error_init/F/fields#%d" % (n + 1)
        ok = ctl[0] == "return" and s.heap.get((me.oid, "message")) is msg and s.heap.get((me.oid, "cause")) is cause and s.heap.get((me.oid, "__cause__")) is cause
        obls.append(core.Obligation(nm, "F", s.pc, z3.BoolVal(bool(ok)), note="message, cause and __cause__ are exactly the arguments"))
    self.finish(res, ctx, obls)


FormatTask._run_format_error_init = _run_format_error_init
_old_format_tasks = format_tasks


def format_tasks(root, timeout_ms=10000):      # noqa: F811
    return _old_format_tasks(root, timeout_ms) + [FormatTask(root, "format_error_init", timeout_ms)]
