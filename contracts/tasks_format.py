"""Verification tasks for `format` (C12): the keyword function, FormatChecker.check / conforms, the
non-string guard of every built-in checker function; registration table by reflection (C13 wrappers)."""
import ast
import time
import traceback

import z3

from pyvc import smt, extract, tables as tables_mod
from pyvc.smt import V, kind, K_STR
from pyvc.values import *      # noqa
from pyvc.interp import State, Ctx, Interp, lift, Raised, truth, EXC_PARENTS
from contracts import core
from contracts.tasks_core import CoreTask

EXC_PARENTS.setdefault("ListedExc", "Exception")       # an exception that is an instance of the checker's `raises`
EXC_PARENTS.setdefault("UnlistedExc", "Exception")     # any other exception of a custom checker function

fmt_known = z3.Function("fmt_known", V, smt.B)          # format name is registered in checker.checkers


class AbsCheckers:
    pass


class AbsFunc:
    pass


class AbsRaises:
    pass


def install_checker_model(ctx):
    def getattr_hook(I, st, obj, attr):
        if isinstance(obj, ObjVal) and obj.cls == "FormatChecker" and attr == "checkers":
            return [(st, AbsCheckers())]
        return None

    def in_hook(I, st, x, c):
        if isinstance(c, AbsCheckers):
            return [(st, SB(fmt_known(x.t)))]
        return None

    def subscript_hook(I, st, obj, key):
        if isinstance(obj, AbsCheckers):
            from pyvc.interp import branch
            return branch(I.ctx, st, [(fmt_known(key.t), PyTuple([AbsFunc(), AbsRaises()])),
                                      (z3.Not(fmt_known(key.t)), Raised(ExcVal("KeyError", {}, origin="checkers[]")))])
        return None

    def call_hook(I, st, f, args, kwargs, node):
        if isinstance(f, AbsFunc):
            outs = []
            r = SV(smt.fresh("func_result", V))
            for tag, payload in (("ret", r), ("listed", Raised(ExcVal("ListedExc", {}, origin="func"))),
                                 ("unlisted", Raised(ExcVal("UnlistedExc", {}, origin="func")))):
                s = st.fork()
                s.ghost["func_outcome"] = (tag, payload)
                s.ghost["func_calls"] = s.ghost.get("func_calls", 0) + 1
                outs.append((s, payload))
            return outs
        return None

    def exc_names_hook(I, v, st):
        if isinstance(v, AbsRaises):
            return ["ListedExc"]
        return None

    def unpack_hook(I, v, n, st):
        return None

    ctx.config.update(getattr_hook=getattr_hook, in_hook=in_hook, subscript_hook=subscript_hook, call_hook=call_hook,
                      exc_names_hook=exc_names_hook)


class FormatCheckC(core.Contract):
    """FormatChecker.check(instance, format) (proved by the `check` task):
       format not registered                      -> returns
       func returns r, truthy(r)                  -> returns
       func returns r, not truthy(r)              -> raises FormatError(cause=None)
       func raises an instance of `raises`        -> raises FormatError(cause=that exception)
       func raises anything else                  -> that exception propagates unchanged"""
    key = "_format:FormatChecker.check"

    def apply(self, I, st, args, kwargs, fref):
        from pyvc.interp import branch
        fmt = args[2]
        known = fmt_known(fmt.t)
        ok = z3.Bool("check_ok!%d" % I.ctx.new_oid())
        cause = SV(smt.fresh("cause", V))
        outs = []
        for cond, tag, payload in ((z3.Not(known), "returns", lift(None)), (z3.And(known, ok), "returns", lift(None)),
                                   (z3.And(known, z3.Not(ok)), "format-error", Raised(ExcVal("FormatError", {"message": Opaque("msg"), "cause": cause}, origin="check"))),
                                   (known, "unlisted", Raised(ExcVal("UnlistedExc", {}, origin="check")))):
            s = st.fork()
            s.ghost["check_calls"] = s.ghost.get("check_calls", ()) + ((tag, args[1], args[2]),)
            outs.extend(branch(I.ctx, s, [(cond, payload)]))
        return outs


class FormatTask(CoreTask):
    def __init__(self, root, which, timeout_ms=10000):
        CoreTask.__init__(self, root, 7, which, timeout_ms)
        self.name = "format:%s" % which
        self.weight = 1

    def cache_key(self):
        from pyvc import driver
        return "fmt|%s|%s|%s" % (self.name, self.timeout_ms, driver.dep_hash(self.root, modules=("_format", "_validators", "exceptions")))

    def _checker_state(self):
        repo, ctx, st, vm, validator, I = self.setup()
        install_checker_model(ctx)
        fc = ObjVal("FormatChecker", ctx.new_oid())
        return repo, ctx, st, vm, validator, I, fc

    def _run_check(self, res):
        repo, ctx, st, vm, validator, I, fc = self._checker_state()
        unit = repo.unit("_format:FormatChecker.check")
        res["function"], res["source_hash"] = unit.key, unit.source_hash()
        inst, fmt = SV(z3.Const("instance", V)), SV(z3.Const("format", V))
        st.unit = unit
        st.pc.append(kind(fmt.t) == K_STR)
        outs = I.run_unit(unit, st, [fc, inst, fmt], {})
        res["paths"] = len(outs)
        obls = list(ctx.obligations)
        known = fmt_known(fmt.t)
        n = 0
        for s, ctl in outs:
            n += 1
            oc = s.ghost.get("func_outcome")
            calls = s.ghost.get("func_calls", 0)
            if ctl[0] == "return":
                if oc is None:
                    goal, note = z3.Not(known), "returns without calling anything only for an unregistered format"
                else:
                    goal = z3.And(known, z3.BoolVal(oc[0] == "ret" and calls == 1), smt.truthy(oc[1].t) if oc[0] == "ret" else z3.BoolVal(False))
                    note = "returns after the function returned a truthy value (called exactly once)"
                obls.append(core.Obligation("%s/F/returns#%d" % (self.name, n), "F", s.pc, goal, note=note))
            else:
                exc = ctl[1]
                if exc.cls == "FormatError":
                    cause = exc.fields.get("cause")
                    if oc and oc[0] == "ret":
                        good = isinstance(cause, SV) and cause.known and cause.conc is None
                        goal = z3.And(known, z3.Not(smt.truthy(oc[1].t)), z3.BoolVal(bool(good)))
                        note = "FormatError(cause=None) exactly when the function returned a falsy value"
                    elif oc and oc[0] == "listed":
                        good = isinstance(cause, ExcVal) and cause is oc[1].exc
                        goal = z3.And(known, z3.BoolVal(bool(good)))
                        note = "FormatError whose cause is the listed exception the function raised"
                    else:
                        goal, note = z3.BoolVal(False), "FormatError without a reason"
                    obls.append(core.Obligation("%s/F/format-error#%d" % (self.name, n), "F", s.pc, goal, note=note))
                elif exc.cls == "UnlistedExc":
                    good = oc and oc[0] == "unlisted" and exc is oc[1].exc
                    obls.append(core.Obligation("%s/F/propagates#%d" % (self.name, n), "F", s.pc, z3.BoolVal(bool(good)),
                                                note="an exception not listed in `raises` reaches the caller unchanged"))
                else:
                    obls.append(core.Obligation("%s/S/raise:%s@%s#%d" % (self.name, exc.cls, exc.origin, n), "S", s.pc, False, note="%s escapes check" % exc.cls))
        self.finish(res, ctx, obls)

    def _run_conforms(self, res):
        repo, ctx, st, vm, validator, I, fc = self._checker_state()
        ctx.contracts[FormatCheckC.key] = FormatCheckC()
        unit = repo.unit("_format:FormatChecker.conforms")
        res["function"], res["source_hash"] = unit.key, unit.source_hash()
        inst, fmt = SV(z3.Const("instance", V)), SV(z3.Const("format", V))
        st.unit = unit
        st.pc.append(kind(fmt.t) == K_STR)
        outs = I.run_unit(unit, st, [fc, inst, fmt], {})
        res["paths"] = len(outs)
        obls = list(ctx.obligations)
        n = 0
        kinds = set()
        for s, ctl in outs:
            n += 1
            if ctl[0] == "return":
                v = ctl[1]
                isbool = isinstance(v, SV) and v.known and isinstance(v.conc, bool)
                kinds.add(("ret", v.conc if isbool else None))
                obls.append(core.Obligation("%s/F/boolean#%d" % (self.name, n), "F", s.pc, z3.BoolVal(bool(isbool)), note="conforms returns True / False"))
            else:
                exc = ctl[1]
                kinds.add(("raise", exc.cls))
                obls.append(core.Obligation("%s/F/propagates#%d" % (self.name, n), "F", s.pc, z3.BoolVal(exc.cls == "UnlistedExc"),
                                            note="conforms lets only unlisted exceptions of a custom function through (FormatError becomes False)"))
        want = {("ret", True), ("ret", False), ("raise", "UnlistedExc")}
        obls.append(core.Obligation("%s/F/outcomes" % self.name, "F", [], z3.BoolVal(kinds == want),
                                    note="conforms: True when check returns, False when it raises FormatError, otherwise the exception (%s)" % sorted(map(str, kinds))))
        self.finish(res, ctx, obls)

    def _run_keyword(self, res):
        """_validators.format: without checker no error; with one: exactly one error (message and cause
        of the FormatError) iff check raises FormatError; other exceptions propagate."""
        for with_checker in (False, True):
            repo, ctx, st, vm, validator, I, fc = self._checker_state()
            ctx.contracts[FormatCheckC.key] = FormatCheckC()
            key = tables_mod.draft_tables(repo)[7].keywords["format"]
            unit = repo.unit(key)
            res["function"], res["source_hash"] = key, unit.source_hash()
            st.heap[(validator.oid, "format_checker")] = fc if with_checker else lift(None)
            inst, fmt, schema = SV(z3.Const("instance", V)), SV(z3.Const("format", V)), SV(z3.Const("schema", V))
            st.unit = unit
            st.pc.append(kind(fmt.t) == K_STR)
            outs = I.run_unit(unit, st, [validator, fmt, inst, schema], {})
            res["paths"] += len(outs)
            obls = list(ctx.obligations)
            n = 0
            seen = set()
            for s, ctl in outs:
                n += 1
                out = cat(*s.out)
                tag = "with-checker" if with_checker else "no-checker"
                calls = s.ghost.get("check_calls", ())
                consulted = len(calls) == 1 and calls[0][1] is inst and calls[0][2] is fmt
                obls.append(core.Obligation("%s/F/%s.consults-checker#%d" % (self.name, tag, n), "F", s.pc,
                                            z3.BoolVal(bool(consulted) if with_checker else len(calls) == 0),
                                            note="with a checker, check(instance, format) is called exactly once for every instance of every type; without one, never"))
                if ctl[0] == "return":
                    if isinstance(out, Nil):
                        seen.add("none")
                        obls.append(core.Obligation("%s/F/%s.no-error#%d" % (self.name, tag, n), "F", s.pc,
                                                    z3.BoolVal(not with_checker or (consulted and calls[0][0] == "returns")),
                                                    note="no error exactly when check returned"))
                        continue
                    ok = isinstance(out, One) and isinstance(out.val, ErrVal) and isinstance(out.val.fields.get("cause"), SV)
                    ok = ok and consulted and calls[0][0] == "format-error"
                    seen.add("one")
                    obls.append(core.Obligation("%s/F/%s.error#%d" % (self.name, tag, n), "F", s.pc, z3.BoolVal(bool(ok and with_checker)),
                                                note="one ValidationError carrying the FormatError's cause, exactly when check raised FormatError"))
                else:
                    seen.add("raise:" + ctl[1].cls)
                    obls.append(core.Obligation("%s/F/%s.propagates#%d" % (self.name, tag, n), "F", s.pc, z3.BoolVal(ctl[1].cls == "UnlistedExc" and with_checker),
                                                note="only unlisted exceptions of a custom checker propagate"))
            want = {"none", "one", "raise:UnlistedExc"} if with_checker else {"none"}
            obls.append(core.Obligation("%s/F/%s.outcomes" % (self.name, "with-checker" if with_checker else "no-checker"), "F", [], z3.BoolVal(seen == want),
                                        note="outcomes %s" % sorted(seen)))
            self.finish(res, ctx, obls)

    def _run_guards(self, res):
        """every checker function registered in this installation returns True for a non-string
        instance without consulting anything else (C12)"""
        from pyvc import driver
        repo = extract.Repo(self.root)
        reg = driver.rt_call("pyvc.rt_fmt", {"cmd": "registry", "root": self.root}, self.root)
        funcs = sorted({e["func"] for chk in reg["checkers"].values() for e in chk.values()})
        res["function"] = "_format:<registered checker functions>"
        res["registry"] = reg
        n = 0
        for fname in funcs:
            key = "_format:%s" % fname
            if key not in repo.units:
                res["obligations"].append({"name": "%s/T/source:%s" % (self.name, fname), "kind": "T", "status": "failed", "solver": "tables",
                                           "note": "registered function %s has no source in _format.py" % fname})
                continue
            ctx = Ctx(repo, contracts={}, config={})
            I = Interp(ctx)
            st = State()
            unit = repo.unit(key)
            st.unit = unit
            inst = SV(z3.Const("instance", V))
            st.pc.extend([smt.isjson(inst.t), kind(inst.t) != K_STR])
            try:
                outs = I.run_unit(unit, st, [inst], {})
            except OutOfSubset as e:
                res["obligations"].append({"name": "%s/F/non-string:%s" % (self.name, fname), "kind": "F", "status": "failed", "solver": "pyvc",
                                           "note": "a non-string instance reaches code beyond the guard: %s" % e, "reason": str(e)})
                continue
            obls = list(ctx.obligations)
            for s, ctl in outs:
                n += 1
                if ctl[0] == "return":
                    obls.append(core.Obligation("%s/F/non-string:%s#%d" % (self.name, fname, n), "F", s.pc, truth(ctx, s, ctl[1]),
                                                note="%s(non-string) is truthy" % fname))
                else:
                    obls.append(core.Obligation("%s/S/non-string:%s#%d" % (self.name, fname, n), "S", s.pc, False, note="%s raises on a non-string" % fname))
            self.finish(res, ctx, obls)
        res["paths"] = n


def format_tasks(root, timeout_ms=10000):
    return [FormatTask(root, w, timeout_ms) for w in ("check", "conforms", "keyword", "guards")]
