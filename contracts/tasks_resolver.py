"""Verification tasks for the reference resolver (C14 resolve_fragment; C02/C15 resolve*, C20 helpers)."""
import time
import traceback

import z3

from pyvc import smt, extract, prims
from pyvc.smt import V, kind, sval, llen, lget, dhas, dget, K_STR, K_LIST, K_DICT
from pyvc.values import *      # noqa
from pyvc.interp import State, Ctx, Interp, truth
from pyvc.loops import LoopInv
from contracts import core

# ---- RFC 6901 evaluation as SMT functions (mirror of spec/pointer.py) ------------------------------
walk = z3.Function("ptr_walk", V, V, smt.I, V)           # document after the first k tokens
walk_ok = z3.Function("ptr_walk_ok", V, V, smt.I, smt.B)  # no error in the first k steps
INDEX = z3.Union(z3.Re("0"), z3.Concat(z3.Range("1", "9"), z3.Star(z3.Range("0", "9"))))
is_index = z3.Function("ptr_is_index", smt.S, smt.B)     # token is an RFC 6901 array index: 0|[1-9][0-9]*   (definition)
idx = z3.Function("ptr_idx", smt.S, smt.I)               # its numeric value


def unescape(tok):
    """RFC 6901 section 4: first ~1 -> /, then ~0 -> ~"""
    return prims.str_replace(prims.str_replace(tok, z3.StringVal("~1"), z3.StringVal("/")), z3.StringVal("~0"), z3.StringVal("~"))


def step_ok(cur, tok):
    return z3.Or(z3.And(kind(cur) == K_DICT, dhas(cur, tok)),
                 z3.And(kind(cur) == K_LIST, is_index(tok), idx(tok) < llen(cur)))


def step_val(cur, tok):
    return z3.If(kind(cur) == K_DICT, dget(cur, tok), lget(cur, idx(tok)))


def index_lemma_goal(s):
    """pure string fact, discharged on its own (one string variable, no quantifier):
    s == "0" or (s in [0-9]+ and s[0] != "0")   <=>   s in 0|[1-9][0-9]*"""
    code_side = z3.Or(s == z3.StringVal("0"), z3.And(z3.InRe(s, prims.ASCII_DIGITS), z3.SubString(s, 0, 1) != z3.StringVal("0")))
    return code_side == z3.InRe(s, INDEX)


@smt.register_axioms
def _ptr_axioms(names):
    if not (names & {"ptr_walk", "ptr_walk_ok"}):
        return []
    d, t = z3.Consts("d t", V)
    k, j = z3.Ints("k j")
    tok = unescape(sval(lget(t, k)))
    cur = walk(d, t, k)
    s = z3.String("s")
    lemma = [
        # LEMMA (discharged separately as .../L/index-language, with the assumed str contracts
        # isdigit & isascii <=> [0-9]+ and int(s) == decimal value): what the code tests is the RFC's index language
        z3.ForAll([s], is_index(s) == z3.Or(s == z3.StringVal("0"),
                                            z3.And(prims.py_isdigit(s), prims.py_isascii(s), z3.SubString(s, 0, 1) != z3.StringVal("0"))),
                  patterns=[is_index(s), prims.py_isdigit(s)]),
        z3.ForAll([s], z3.Implies(is_index(s), z3.And(prims.py_int_ok(s), prims.py_int_val(s) == idx(s), idx(s) >= 0)), patterns=[is_index(s), prims.py_int_ok(s)]),
        z3.ForAll([s], z3.Implies(s == z3.StringVal("0"), z3.And(prims.py_int_ok(s), prims.py_int_val(s) == 0, idx(s) == 0)), patterns=[prims.py_int_ok(s)]),
    ]
    return lemma + [
        z3.ForAll([d, t], z3.And(walk(d, t, 0) == d, walk_ok(d, t, 0)), patterns=[walk(d, t, 0)]),
        z3.ForAll([d, t], walk_ok(d, t, 0), patterns=[walk_ok(d, t, 0)]),
        z3.ForAll([d, t, k], z3.Implies(k >= 0, z3.And(walk_ok(d, t, k + 1) == z3.And(walk_ok(d, t, k), step_ok(cur, tok)),
                                                       z3.Implies(z3.And(walk_ok(d, t, k), step_ok(cur, tok)), walk(d, t, k + 1) == step_val(cur, tok)))),
                  patterns=[walk_ok(d, t, k + 1)]),
        z3.ForAll([d, t, k, j], z3.Implies(z3.And(0 <= j, j <= k, walk_ok(d, t, k)), walk_ok(d, t, j)),
                  patterns=[z3.MultiPattern(walk_ok(d, t, k), walk_ok(d, t, j))]),
        z3.ForAll([d, t, k], z3.Implies(z3.And(smt.isjson(d), walk_ok(d, t, k), k >= 0), smt.isjson(walk(d, t, k))), patterns=[walk(d, t, k)]),
    ]


class WalkInv(LoopInv):
    """document == ptr_walk(doc0, tokens, k)  and no step of the first k failed"""

    def __init__(self, doc0, toks):
        self.doc0, self.toks = doc0, toks

    def at(self, I, st, k, spec):
        d, t = self.doc0.t, self.toks
        tok = unescape(sval(lget(t, k)))
        cur = walk(d, t, k)
        # the definitional unfolding of the walk at the current step: an *instance of the axiom* in
        # _ptr_axioms (k := k), supplied explicitly so the exit obligations need no quantifier instantiation
        unfold = z3.And(walk_ok(d, t, k + 1) == z3.And(walk_ok(d, t, k), step_ok(cur, tok)),
                        z3.Implies(z3.And(walk_ok(d, t, k), step_ok(cur, tok)), walk(d, t, k + 1) == step_val(cur, tok)))
        return {"env": {"document": SV(cur)}, "formula": z3.And(walk_ok(d, t, k), k >= 0), "axiom_instances": [z3.Implies(k >= 0, unfold)]}


class ResolverTask:
    weight = 5

    def __init__(self, root, which, timeout_ms=20000):
        self.root, self.which, self.timeout_ms = root, which, timeout_ms
        self.name = "validators:RefResolver.%s" % which

    def cache_key(self):
        from pyvc import driver
        mods = ("validators", "_utils")
        if self.which == "ref_keyword":
            mods += ("_validators", "_legacy_validators", "exceptions")      # executes the `$ref` keyword function
        return "resolver|%s|%s|%s" % (self.name, self.timeout_ms, driver.dep_hash(self.root, modules=mods))

    def run(self):
        t0 = time.time()
        res = {"task": self.name, "function": self.name, "obligations": [], "status": "ok", "paths": 0}
        try:
            getattr(self, "_run_" + self.which)(res)
        except OutOfSubset as e:
            res["status"], res["detail"] = "out-of-subset", str(e)
        except Exception as e:      # noqa
            res["status"], res["detail"] = "crash", "%s\n%s" % (e, traceback.format_exc())
        if res["status"] != "ok" or any(o["status"] != "discharged" for o in res["obligations"]):
            self.failure_search(res)
        res["wall_s"] = round(time.time() - t0, 3)
        return res

    def failure_search(self, res):
        """directed search on the real code for an input that exhibits the failure"""
        from pyvc import driver
        helper = "pyvc.rt_ptr" if self.which == "resolve_fragment" else "pyvc.rt_ref"
        try:
            res["search"] = driver.rt_call(helper, {"cmd": "search", "root": self.root, "limit": 3}, self.root, timeout=3000)
            if self.which == "resolve_from_url" and not res["search"].get("failures"):
                # reference targets are found by document URL only (C10): identifier-looking objects elsewhere are not targets
                res["search"] = driver.rt_call("pyvc.rt_kw", {"cmd": "search_extras", "root": self.root, "limit": 3}, self.root, timeout=3000)
            if self.which != "resolve_fragment" and not res["search"].get("failures"):
                # fetch accounting / cache behaviour
                res["search"] = driver.rt_call("pyvc.rt_hist", {"cmd": "search", "root": self.root, "maxlen": 2, "limit": 3,
                                                                 "configs": [[True, "default"], [False, "default"]]}, self.root, timeout=3000)
        except Exception as e:      # noqa
            res["search"] = {"error": str(e)[-300:], "failures": []}


    def finish(self, res, ctx, obls):
        for ob in obls:
            ob.check(self.timeout_ms)
            rec = {"name": ob.name if ob.name.startswith(self.name) else self.name + "::" + ob.name, "kind": ob.kind,
                   "status": ob.status, "solver": ob.solver, "time_s": round(ob.time_s, 3), "note": ob.note}
            if ob.status != "discharged":
                rec["reason"] = ob.reason
            res["obligations"].append(rec)
        seen = {}
        for unit_key, cls, origin in ctx.safety:
            seen[(unit_key, cls, origin)] = seen.get((unit_key, cls, origin), 0) + 1
        for (unit_key, cls, origin), n in sorted(seen.items()):
            res["obligations"].append({"name": "%s::%s/S/unreachable:%s@%s" % (self.name, unit_key, cls, origin), "kind": "S",
                                       "status": "discharged", "solver": "z3", "time_s": 0.0,
                                       "note": "%s from %s cannot occur (%d path(s))" % (cls, origin, n)})

    def _run_resolve_fragment(self, res):
        """resolve_fragment(document, fragment) == RFC 6901 evaluation of the percent-decoded fragment
        (empty: whole document; else one leading '/', tokens split on '/', ~1 then ~0 unescaped, member
        by exact name, array index 0|[1-9][0-9]* in range); RefResolutionError exactly when the RFC
        evaluation fails; nothing else is raised."""
        repo = extract.Repo(self.root)
        ctx = Ctx(repo, contracts={}, config={})
        unit = repo.unit("validators:RefResolver.resolve_fragment")
        res["source_hash"] = unit.source_hash()
        doc, frag = SV(z3.Const("document", V)), SV(z3.Const("fragment", V))
        dec = prims.unquote_f(sval(frag.t))
        # the pointer proper: precondition of the property (a JSON pointer is "" or starts with "/")
        pointer_ok = z3.Or(dec == z3.StringVal(""), z3.PrefixOf(z3.StringVal("/"), dec))
        toks = prims.ssplit(prims.str_slice_from(dec, z3.IntVal(1)), z3.StringVal("/"))      # pointer[1:].split("/")
        ctx.config["loop_invs"] = {(unit.key, 0): WalkInv(doc, toks)}
        I = Interp(ctx)
        st = State()
        st.unit = unit
        st.pc.extend([smt.isjson(doc.t), kind(frag.t) == K_STR, pointer_ok])
        this = ObjVal("RefResolver", ctx.new_oid())
        outs = I.run_unit(unit, st, [this, doc, frag], {})
        res["paths"] = len(outs)
        obls = list(ctx.obligations)
        n_tok = llen(toks)
        n = 0
        for s, ctl in outs:
            n += 1
            if ctl[0] == "raise":
                cls = ctl[1].cls
                if cls == "RefResolutionError":
                    obls.append(core.Obligation("%s/F/error#%d" % (self.name, n), "F", s.pc,
                                                z3.And(dec != z3.StringVal(""), z3.Not(walk_ok(doc.t, toks, n_tok))),
                                                note="RefResolutionError only when the RFC 6901 evaluation fails"))
                else:
                    obls.append(core.Obligation("%s/S/raise:%s@%s#%d" % (self.name, cls, ctl[1].origin, n), "S", s.pc, False,
                                                note="%s escapes resolve_fragment" % cls))
            else:
                r = ctl[1]
                expected = z3.If(dec == z3.StringVal(""), doc.t, walk(doc.t, toks, n_tok))
                ok = z3.Or(dec == z3.StringVal(""), walk_ok(doc.t, toks, n_tok))
                obls.append(core.Obligation("%s/F/value#%d" % (self.name, n), "F", s.pc, z3.And(ok, r.t == expected),
                                            note="returns exactly the value addressed by the pointer"))
        # the string lemma used as an axiom above, discharged here by the string solver alone
        sv = z3.String("tok")
        lem = core.Obligation("%s/L/index-language" % self.name, "L", [], index_lemma_goal(sv),
                              note='for every string s: s == "0" or (s in [0-9]+ and s[0] != "0")  <=>  s in 0|[1-9][0-9]*')
        lem.strings_first = True
        obls.append(lem)
        self.finish(res, ctx, obls)


def resolver_tasks(root, timeout_ms=20000, which=("resolve_fragment",)):
    return [ResolverTask(root, w, timeout_ms) for w in which]


# =====================================================================================================
# resolve / resolve_from_url / resolve_remote / push_scope / __init__   (C02, C15, C07 (c))

from pyvc.interp import lift, Raised, branch, add_lemma, EXC_PARENTS      # noqa: E402
from contracts.tasks_core import urljoin_f      # noqa: E402

EXC_PARENTS.setdefault("FetchError", "Exception")       # whatever a handler / requests / urlopen raises

defrag_url = z3.Function("urldefrag_url", smt.S, smt.S)       # urldefrag(u)[0]
defrag_frag = z3.Function("urldefrag_fragment", smt.S, smt.S)  # urldefrag(u)[1]
normalize = z3.Function("uri_normalize", smt.S, smt.S)         # URIDict.normalize
scheme_of = z3.Function("url_scheme", smt.S, smt.S)            # urlsplit(u).scheme
store0_has = z3.Function("store0_has", smt.S, smt.B)           # store at entry, by normalised key
store0_doc = z3.Function("store0_doc", smt.S, V)
handler_has = z3.Function("handlers_has", smt.S, smt.B)        # scheme in self.handlers
fetched = z3.Function("fetched", smt.S, V)                     # the document a retrieval of uri yields (deterministic environment)


class AbsStore:
    pass


class AbsHandlers:
    pass


class AbsHandler:
    def __init__(self, scheme):
        self.scheme = scheme


class AbsCache:
    def __init__(self, which):
        self.which = which


def store_lookup(st, key_norm):
    """(has, doc) terms for the current store: writes made on this path shadow the entry state"""
    has, doc = store0_has(key_norm), store0_doc(key_norm)
    for k, v in st.ghost.get("store_writes", ()):
        has = z3.Or(normalize(k) == key_norm, has)
        doc = z3.If(normalize(k) == key_norm, v, doc)
    return has, doc


def resolver_hooks(ctx, this, cache_remote, requests_present):
    def sstr(x):
        if isinstance(x, SStr):
            return x.t
        if isinstance(x, SV):
            return sval(x.t)
        raise OutOfSubset("string expected, got %r" % (x,))

    def fetch(I, st, uri, via):
        s_ok, s_bad = st.fork(), st.fork()
        for s in (s_ok, s_bad):
            s.ghost["fetches"] = s.ghost.get("fetches", ()) + ((via, uri),)
        add_lemma(s_ok, smt.isjson(fetched(sstr(uri))))
        return [(s_ok, SV(fetched(sstr(uri)))), (s_bad, Raised(ExcVal("FetchError", {}, origin="fetch via %s" % via)))]

    def getattr_hook(I, st, obj, attr):
        if isinstance(obj, ObjVal) and obj.cls == "RefResolver":
            if attr == "store":
                return [(st, AbsStore())]
            if attr == "handlers":
                return [(st, AbsHandlers())]
            if attr == "cache_remote":
                return [(st, lift(cache_remote)) if cache_remote is not None else (st, SV(z3.Const("cache_remote", V)))]
            if attr == "_urljoin_cache":
                return [(st, AbsCache("urljoin"))]
            if attr == "_remote_cache":
                return [(st, AbsCache("remote"))]
            if attr == "_scopes_stack":
                return [(st, AbsStack())]
            if attr in ("resolution_scope", "base_uri"):
                key = "validators:RefResolver.%s" % attr
                if key in I.repo.units and not I.ctx.config.get("props_by_contract"):
                    return I.call_func(st, FuncRef(key), [obj], {}, None)
                return [(st, SStr(st.ghost["scope"]))]
        if isinstance(obj, AbsSplit) and attr == "scheme":
            return [(st, SStr(scheme_of(obj.u)))]
        if isinstance(obj, (AbsStore, AbsHandlers, AbsStack, Opaque)):
            return [(st, BoundMethod(obj, attr))]
        return None

    def subscript_hook(I, st, obj, key):
        if isinstance(obj, AbsStore):
            kn = normalize(sstr(key))
            has, doc = store_lookup(st, kn)
            s1 = st.fork()
            s1.ghost["store_reads"] = s1.ghost.get("store_reads", ()) + (kn,)
            return branch(I.ctx, s1, [(has, SV(doc)), (z3.Not(has), Raised(ExcVal("KeyError", {}, origin="store[]")))])
        if isinstance(obj, AbsHandlers):
            return [(st, AbsHandler(sstr(key)))]
        if isinstance(obj, AbsStack):
            if isinstance(key, SV) and key.known and key.conc == -1:
                return [(st, SStr(st.ghost["scope"]))]
        return None

    def setitem_hook(I, st, obj, k, v):
        if isinstance(obj, AbsStore):
            s = st.fork()
            s.ghost["store_writes"] = s.ghost.get("store_writes", ()) + ((sstr(k), v.t),)
            return [(s, ("next", None))]
        return None

    def in_hook(I, st, x, c):
        if isinstance(c, AbsHandlers):
            return [(st, SB(handler_has(sstr(x))))]
        return None

    def call_hook(I, st, f, a, k, node):
        if isinstance(f, AbsHandler):
            return fetch(I, st, a[0], "handler")
        if isinstance(f, AbsCache) and f.which == "urljoin":
            # functools.lru_cache(urljoin) or any cache satisfying the cache contract: the value of urljoin
            return [(st, SStr(urljoin_f(sstr(a[0]), sstr(a[1]))))]
        if isinstance(f, AbsCache) and f.which == "remote":
            # any cache of resolve_from_url: either a remembered normal result or a call now
            key = "validators:RefResolver.resolve_from_url"
            c = I.ctx.contracts.get(key)
            if c is not None:
                return c.apply(I, st, [this, a[0]], {}, None)
            return I.call_func(st, FuncRef(key), [this, a[0]], {}, node)
        return None

    def builtin_hook(I, st, name, a, k, node):
        if name == "urllib.parse.urldefrag":
            u = sstr(a[0])
            return [(st, PyTuple([SStr(defrag_url(u)), SStr(defrag_frag(u))]))]
        if name == "urllib.parse.urlsplit":
            return [(st, AbsSplit(sstr(a[0])))]
        if name == "urllib.parse.urljoin":
            return [(st, SStr(urljoin_f(sstr(a[0]), sstr(a[1]))))]
        if name == "urllib.request.urlopen":
            return [(st, Opaque("urlopen", [a[0]]))]
        if name == "json.loads":
            return [(st, a[0])]
        return None

    def method_hook(I, st, obj, name, a, k, node):
        if isinstance(obj, Opaque) and obj.tag == "requests" and name == "get":
            return [(st, Opaque("response", [a[0]]))]
        if isinstance(obj, Opaque) and obj.tag == "response" and name == "json":
            return fetch(I, st, obj.args[0], "requests")
        if isinstance(obj, Opaque) and obj.tag == "urlopen-handle" and name in ("read",):
            return [(st, Opaque("urlopen-bytes", obj.args))]
        if isinstance(obj, Opaque) and obj.tag == "urlopen-bytes" and name == "decode":
            r = fetch(I, st, obj.args[0], "urlopen")
            return r
        if isinstance(obj, AbsStack):
            if name == "append":
                s = st.fork()
                s.ghost["scopes"] = s.ghost.get("scopes", ()) + (s.ghost["scope"],)
                s.ghost["scope"] = sstr(a[0])
                s.ghost["depth"] = s.ghost["depth"] + 1
                return [(s, lift(None))]
            if name == "pop":
                stack = st.ghost.get("scopes", ())
                if not stack:
                    # popping the entry element: the list may then be empty -> IndexError possible
                    return [(st.fork(), Raised(ExcVal("IndexError", {}, origin="pop from empty stack")))]
                s = st.fork()
                s.ghost["scope"] = stack[-1]
                s.ghost["scopes"] = stack[:-1]
                s.ghost["depth"] = s.ghost["depth"] - 1
                return [(s, lift(None))]
        return None

    def import_hook(I, node, st):
        names = [a.asname or a.name for a in node.names]
        outs = []
        for present in ((True, False) if requests_present is None else (requests_present,)):
            s = st.fork()
            if present:
                for n in names:
                    s.env[n] = Opaque("requests")
                outs.append((s, ("next", None)))
            else:
                outs.append((s, ("raise", ExcVal("ImportError", {}, origin="import requests"))))
        return outs

    def with_hook(I, node, st):
        # `with urlopen(uri) as url:` : the handle is opaque; closing it has no modelled effect
        outs = []
        item = node.items[0]
        for s, v in I.eval(item.context_expr, st):
            if isinstance(v, Raised):
                outs.append((s, ("raise", v.exc)))
                continue
            s2 = s.fork()
            if item.optional_vars is not None:
                s2.env[item.optional_vars.id] = Opaque("urlopen-handle", v.args if isinstance(v, Opaque) else [v])
            outs.extend(I.exec_block(node.body, s2))
        return outs

    ctx.config.update(getattr_hook=getattr_hook, subscript_hook=subscript_hook, setitem_hook=setitem_hook, in_hook=in_hook, call_hook=call_hook,
                      builtin_hook=builtin_hook, method_hook=method_hook, import_hook=import_hook, with_hook=with_hook)

    import pyvc.interp as _pi
    return _pi


class AbsSplit:
    def __init__(self, u):
        self.u = u


class AbsStack:
    pass


class ResolveFragmentC(core.Contract):
    """resolve_fragment(document, fragment): the RFC 6901 value or RefResolutionError (proved: C14)"""
    key = "validators:RefResolver.resolve_fragment"

    def apply(self, I, st, args, kwargs, fref):
        doc, frag = args[1], args[2]
        ft = frag.t if isinstance(frag, SStr) else sval(frag.t)
        ok = ptr_ok(doc.t, ft)
        s1 = st.fork()
        add_lemma(s1, smt.isjson(ptr_value(doc.t, ft)))
        return branch(I.ctx, s1, [(ok, SV(ptr_value(doc.t, ft))), (z3.Not(ok), Raised(ExcVal("RefResolutionError", {}, origin="resolve_fragment")))])


ptr_ok = z3.Function("ptr_resolves", V, smt.S, smt.B)
ptr_value = z3.Function("ptr_value", V, smt.S, V)


def rfu_spec(st, url):
    """specification of resolve_from_url(url) in the store state of `st`:
       (has_doc, document, needs_fetch)"""
    u, f = defrag_url(url), defrag_frag(url)
    has, doc = store_lookup(st, normalize(u))
    return u, f, has, doc


class ResolveFromUrlC(core.Contract):
    """resolve_from_url(url) (proved by its task): with (u, f) = urldefrag(url): the document is
    store[u] when present (no retrieval), otherwise one resolve_remote(u) whose failure surfaces as
    RefResolutionError; the result is resolve_fragment(document, f)."""
    key = "validators:RefResolver.resolve_from_url"

    def apply(self, I, st, args, kwargs, fref):
        url = args[1]
        ut = url.t if isinstance(url, SStr) else sval(url.t)
        u, f, has, doc = rfu_spec(st, ut)
        outs = []
        from pyvc.interp import assume
        # served from the store
        s1 = assume(I.ctx, st.fork(), has)
        if s1 is not None:
            outs.extend(ResolveFragmentC().apply(I, s1, [args[0], SV(doc), SStr(f)], {}, None))
        s2 = assume(I.ctx, st.fork(), z3.Not(has))
        if s2 is not None:
            ok, bad = s2.fork(), s2.fork()
            for s in (ok, bad):
                s.ghost["fetches"] = s.ghost.get("fetches", ()) + (("resolve_remote", SStr(u)),)
            outs.append((bad, Raised(ExcVal("RefResolutionError", {}, origin="resolve_remote failed"))))
            add_lemma(ok, smt.isjson(fetched(u)))
            cr = I.ctx.config.get("cache_remote_term")
            if cr is not None:
                ok.ghost["store_writes_if"] = ok.ghost.get("store_writes_if", ()) + ((cr, u, fetched(u)),)
            outs.extend(ResolveFragmentC().apply(I, ok, [args[0], SV(fetched(u)), SStr(f)], {}, None))
        return outs


def _resolver_task_common(self, cache_remote=None, requests_present=None):
    repo = extract.Repo(self.root)
    ctx = Ctx(repo, contracts={}, config={})
    this = ObjVal("RefResolver", ctx.new_oid())
    resolver_hooks(ctx, this, cache_remote, requests_present)
    st = State()
    st.ghost["scope"] = z3.String("scope0")
    st.ghost["depth"] = z3.IntVal(0)
    return repo, ctx, Interp(ctx), st, this


def _run_resolve_remote(self, res):
    """resolve_remote(uri): exactly one retrieval, through handlers[scheme] when the scheme has a
    handler, else requests (http/https with requests importable) else urlopen; the store gains
    uri -> result exactly when cache_remote; the result is returned; a failing retrieval propagates
    and leaves the store unchanged."""
    res["function"] = "validators:RefResolver.resolve_remote"
    n = 0
    for cache_remote in (True, False):
        for requests_present in (True, False):
            repo, ctx, I, st, this = _resolver_task_common(self, cache_remote, requests_present)
            unit = repo.unit("validators:RefResolver.resolve_remote")
            res["source_hash"] = unit.source_hash()
            uri = SV(z3.Const("uri", V))
            st.unit = unit
            st.pc.append(kind(uri.t) == K_STR)
            outs = I.run_unit(unit, st, [this, uri], {})
            res["paths"] += len(outs)
            obls = list(ctx.obligations)
            sch = scheme_of(sval(uri.t))
            has_h = handler_has(sch)
            is_http = z3.Or(sch == z3.StringVal("http"), sch == z3.StringVal("https"))
            tag = "cache_remote=%s,requests=%s" % (cache_remote, requests_present)
            for s, ctl in outs:
                n += 1
                f = s.ghost.get("fetches", ())
                w = s.ghost.get("store_writes", ())
                one = len(f) == 1
                via = f[0][0] if one else None
                want_via = z3.If(has_h, z3.StringVal("handler"), z3.If(z3.And(is_http, z3.BoolVal(requests_present)), z3.StringVal("requests"), z3.StringVal("urlopen")))
                obls.append(core.Obligation("%s/F/%s.one-fetch#%d" % (self.name, tag, n), "F", s.pc,
                                            z3.And(z3.BoolVal(one), want_via == z3.StringVal(via or "none")),
                                            note="exactly one retrieval, chosen by scheme: handler, else requests for http(s) when importable, else urlopen"))
                if ctl[0] == "return":
                    r = ctl[1]
                    okw = (len(w) == 1 and cache_remote) or (len(w) == 0 and not cache_remote)
                    goal = z3.And(z3.BoolVal(bool(okw)), r.t == fetched(sval(uri.t)) if isinstance(r, SV) else z3.BoolVal(False))
                    if cache_remote and len(w) == 1:
                        goal = z3.And(goal, w[0][0] == sval(uri.t), w[0][1] == fetched(sval(uri.t)))
                    obls.append(core.Obligation("%s/F/%s.store#%d" % (self.name, tag, n), "F", s.pc, goal,
                                                note="returns the retrieved document; the store gains uri -> document exactly when cache_remote"))
                else:
                    obls.append(core.Obligation("%s/F/%s.failure#%d" % (self.name, tag, n), "F", s.pc,
                                                z3.BoolVal(ctl[1].cls == "FetchError" and len(w) == 0),
                                                note="only the retrieval's own exception propagates, and nothing is stored"))
            self.finish(res, ctx, obls)


def _run_resolve_from_url(self, res):
    """resolve_from_url(url): see ResolveFromUrlC"""
    res["function"] = "validators:RefResolver.resolve_from_url"
    repo, ctx, I, st, this = _resolver_task_common(self)
    ctx.contracts[ResolveFragmentC.key] = ResolveFragmentC()
    ctx.contracts["validators:RefResolver.resolve_remote"] = ResolveRemoteC()
    unit = repo.unit("validators:RefResolver.resolve_from_url")
    res["source_hash"] = unit.source_hash()
    url = SV(z3.Const("url", V))
    st.unit = unit
    st.pc.append(kind(url.t) == K_STR)
    outs = I.run_unit(unit, st, [this, url], {})
    res["paths"] = len(outs)
    obls = list(ctx.obligations)
    u, f, has, doc = rfu_spec(st, sval(url.t))
    n = 0
    for s, ctl in outs:
        n += 1
        fetches = s.ghost.get("fetches", ())
        served = z3.And(has, z3.BoolVal(len(fetches) == 0))
        fetched_once = z3.And(z3.Not(has), z3.BoolVal(len(fetches) == 1 and fetches[0][0] == "resolve_remote"))
        if len(fetches) == 1:
            fetched_once = z3.And(fetched_once, (fetches[0][1].t if isinstance(fetches[0][1], SStr) else sval(fetches[0][1].t)) == u)
        obls.append(core.Obligation("%s/F/frugal#%d" % (self.name, n), "F", s.pc, z3.Or(served, fetched_once),
                                    note="a document present in the store (by normalised, defragmented URL) is never retrieved; an absent one is retrieved exactly once"))
        if ctl[0] == "return":
            r = ctl[1]
            document = z3.If(has, doc, fetched(u))
            obls.append(core.Obligation("%s/F/value#%d" % (self.name, n), "F", s.pc,
                                        z3.And(ptr_ok(document, f), r.t == ptr_value(document, f)) if isinstance(r, SV) else z3.BoolVal(False),
                                        note="the result is the fragment's value inside the stored / retrieved document"))
        else:
            obls.append(core.Obligation("%s/F/error#%d" % (self.name, n), "F", s.pc, z3.BoolVal(ctl[1].cls == "RefResolutionError"),
                                        note="any retrieval failure and any unresolvable pointer surface as RefResolutionError (got %s)" % ctl[1].cls))
    self.finish(res, ctx, obls)


class ResolveRemoteC(core.Contract):
    """resolve_remote(uri) (proved by its task): one retrieval; returns fetched(uri) or raises"""
    key = "validators:RefResolver.resolve_remote"

    def apply(self, I, st, args, kwargs, fref):
        uri = args[1]
        ok, bad = st.fork(), st.fork()
        for s in (ok, bad):
            s.ghost["fetches"] = s.ghost.get("fetches", ()) + (("resolve_remote", uri),)
        ut = uri.t if isinstance(uri, SStr) else sval(uri.t)
        add_lemma(ok, smt.isjson(fetched(ut)))
        return [(ok, SV(fetched(ut))), (bad, Raised(ExcVal("FetchError", {}, origin="resolve_remote")))]


def _run_resolve(self, res):
    """resolve(ref): url = urljoin(resolution_scope, ref); returns (url, resolve_from_url(url)) - through
    whatever caches were supplied (cache contract: a cache returns what the wrapped function returns);
    the scope stack is untouched; only RefResolutionError escapes."""
    res["function"] = "validators:RefResolver.resolve"
    repo, ctx, I, st, this = _resolver_task_common(self)
    ctx.contracts[ResolveFromUrlC.key] = ResolveFromUrlC()
    ctx.config["props_by_contract"] = False
    unit = repo.unit("validators:RefResolver.resolve")
    res["source_hash"] = unit.source_hash() + repo.unit("validators:RefResolver.resolution_scope").source_hash()
    ref = SV(z3.Const("ref", V))
    st.unit = unit
    st.pc.append(kind(ref.t) == K_STR)
    B = st.ghost["scope"]
    outs = I.run_unit(unit, st, [this, ref], {})
    res["paths"] = len(outs)
    obls = list(ctx.obligations)
    url = urljoin_f(B, sval(ref.t))
    u, f, has, doc = rfu_spec(st, url)
    n = 0
    for s, ctl in outs:
        n += 1
        obls.append(core.Obligation("%s/X/stack#%d" % (self.name, n), "X", s.pc, z3.And(z3.simplify(s.ghost["depth"]) == 0, s.ghost["scope"] == B),
                                    note="resolve leaves the scope stack untouched (also when it raises)"))
        if ctl[0] == "return":
            r = ctl[1]
            ok = isinstance(r, PyTuple) and len(r.items) == 2 and isinstance(r.items[0], SStr) and isinstance(r.items[1], SV)
            document = z3.If(has, doc, fetched(u))
            goal = z3.And(r.items[0].t == url, ptr_ok(document, f), r.items[1].t == ptr_value(document, f)) if ok else z3.BoolVal(False)
            obls.append(core.Obligation("%s/F/value#%d" % (self.name, n), "F", s.pc, goal,
                                        note="(url, document) with url = urljoin(top of the scope stack, ref) and document the designated value"))
        else:
            obls.append(core.Obligation("%s/F/error#%d" % (self.name, n), "F", s.pc, z3.BoolVal(ctl[1].cls == "RefResolutionError"),
                                        note="only RefResolutionError escapes resolve (got %s)" % ctl[1].cls))
    self.finish(res, ctx, obls)


def _run_scopes(self, res):
    """push_scope / pop_scope / resolution_scope / base_uri over the symbolic stack"""
    res["function"] = "validators:RefResolver.{push_scope,pop_scope,resolution_scope,base_uri}"
    hashes = ""
    for meth in ("push_scope", "pop_scope", "resolution_scope", "base_uri"):
        repo, ctx, I, st, this = _resolver_task_common(self)
        unit = repo.unit("validators:RefResolver.%s" % meth)
        hashes += unit.source_hash()
        st.unit = unit
        # one element below the current top, so that pop is defined
        st.ghost["scopes"] = (z3.String("scope_below"),)
        B = st.ghost["scope"]
        arg = SV(z3.Const("scope_arg", V))
        st.pc.append(kind(arg.t) == K_STR)
        args = [this] + ([arg] if meth == "push_scope" else [])
        outs = I.run_unit(unit, st, args, {})
        res["paths"] += len(outs)
        obls = list(ctx.obligations)
        n = 0
        for s, ctl in outs:
            n += 1
            nm = "%s/F/%s#%d" % (self.name, meth, n)
            if ctl[0] == "raise":
                obls.append(core.Obligation(nm, "S", s.pc, False, note="%s raises %s" % (meth, ctl[1].cls)))
                continue
            if meth == "push_scope":
                goal = z3.And(s.ghost["scope"] == urljoin_f(B, sval(arg.t)), z3.simplify(s.ghost["depth"]) == 1,
                              z3.BoolVal(len(s.ghost.get("scopes", ())) == 2 and s.ghost["scopes"][-1].eq(B)))
                note = "push_scope appends urljoin(current scope, scope)"
            elif meth == "pop_scope":
                goal = z3.And(s.ghost["scope"] == z3.String("scope_below"), z3.simplify(s.ghost["depth"]) == -1)
                note = "pop_scope removes the top element"
            elif meth == "resolution_scope":
                r = ctl[1]
                goal = (r.t == B) if isinstance(r, SStr) else z3.BoolVal(False)
                note = "resolution_scope is the top of the stack"
            else:
                r = ctl[1]
                goal = (r.t == defrag_url(B)) if isinstance(r, SStr) else z3.BoolVal(False)
                note = "base_uri is the top of the stack without its fragment"
            obls.append(core.Obligation(nm, "F", s.pc, goal, note=note))
        self.finish(res, ctx, obls)
    res["source_hash"] = hashes


ResolverTask._run_resolve_remote = _run_resolve_remote
ResolverTask._run_resolve_from_url = _run_resolve_from_url
ResolverTask._run_resolve = _run_resolve
ResolverTask._run_scopes = _run_scopes


# ---- the `$ref` keyword function (C02) ---------------------------------------------------------------
designated = z3.Function("designated", smt.S, V)      # the value a URL designates in the resolver's store (after retrieval)
ref_fails = z3.Function("ref_unresolvable", smt.S, smt.B)


class ResolveC(core.Contract):
    """resolve(ref) (proved by the resolve task): (url, designated(url)) with url = urljoin(scope, ref),
    or RefResolutionError; the scope stack is untouched.
    ASSUMED here (precondition of C02, DESIGN.md F13): a designated value is itself a schema of the draft."""
    key = "validators:RefResolver.resolve"

    def apply(self, I, st, args, kwargs, fref):
        ref = args[1]
        B = st.ghost["scope"]
        url = urljoin_f(B, sval(ref.t))
        d = I.ctx.config["vm"].d
        ok = st.fork()
        add_lemma(ok, z3.And(core.WF[d](designated(url)), smt.isjson(designated(url))))
        return branch(I.ctx, ok, [(z3.Not(ref_fails(url)), PyTuple([SStr(url), SV(designated(url))])),
                                  (ref_fails(url), Raised(ExcVal("RefResolutionError", {}, origin="resolve")))])


def join_idempotent_axiom():
    """ASSUMED (RFC 3986 section 5.2): the result of reference resolution is absolute, and an absolute URI resolves to itself"""
    b, r = z3.Strings("b r")
    return z3.ForAll([b, r], urljoin_f(b, urljoin_f(b, r)) == urljoin_f(b, r), patterns=[urljoin_f(b, urljoin_f(b, r))])


@smt.register_axioms
def _join_ax(names):
    return [join_idempotent_axiom()] if "urljoin" in names else []


def ref_keyword_task_run(self, res):
    """_validators.ref: errors of the designated schema under the designated scope, nothing else:
    result == descend(instance, designated(url)) evaluated with the resolution scope set to url;
    empty(result) <=> Vp(url, designated(url), instance); siblings are not even looked at (no read of `schema`)."""
    from contracts.tasks_core import CoreTask, PushScope
    from contracts import structure
    from pyvc import seqmatch, tables as tables_mod, frames
    for d in (3, 4, 6, 7):
        ct = CoreTask(self.root, d, "ref_x", self.timeout_ms)
        repo, ctx, st, vm, validator, I = ct.setup()
        ctx.contracts["validators:RefResolver.resolve"] = ResolveC()
        ctx.config["hasattr_hook"] = lambda I_, st_, obj, name: (isinstance(obj, ObjVal) and obj.cls == "RefResolver" and
                                                             ("validators:RefResolver.%s" % name) in I_.repo.units) or None
        key = tables_mod.draft_tables(repo)[d].keywords["$ref"]
        unit = repo.unit(key)
        res["function"], res["source_hash"] = key, unit.source_hash()
        instance, schema, ref = SV(z3.Const("instance", V)), SV(z3.Const("schema", V)), SV(z3.Const("ref", V))
        st.pc.extend([smt.isjson(instance.t), smt.isjson(schema.t), kind(ref.t) == K_STR])
        st.unit = unit
        B = st.ghost["scope"]
        outs = I.run_unit(unit, st, [validator, ref, instance, schema], {})
        res["paths"] += len(outs)
        obls = list(ctx.obligations)
        url = urljoin_f(B, sval(ref.t))
        n = 0
        for s, ctl in outs:
            n += 1
            nm = "%s@draft%d" % (self.name, d)
            if ctl[0] == "raise":
                obls.append(core.Obligation("%s/F/error#%d" % (nm, n), "F", s.pc, z3.And(z3.BoolVal(ctl[1].cls == "RefResolutionError"), ref_fails(url)),
                                            note="only RefResolutionError, and only when the reference cannot be resolved"))
                continue
            out = cat(*s.out)
            expected = structure.D(url, SV(designated(url)), instance, None, None)
            try:
                facts = seqmatch.match(out, expected, s.pc)
                obls.append(core.Obligation("%s/F/transparent#%d" % (nm, n), "F", s.pc, z3.And(facts) if facts else z3.BoolVal(True),
                                            note="result == errors of the designated schema on the same instance, evaluated under the designated URL as scope, with nothing added to any path"))
            except seqmatch.Mismatch as e:
                res["obligations"].append({"name": "%s/F/transparent#%d" % (nm, n), "kind": "F", "status": ("failed" if getattr(e, "definite", True) else "unknown"), "solver": "seqmatch", "time_s": 0.0,
                                           "note": "result structure differs: %s" % e, "reason": str(e)})
            obls.append(core.Obligation("%s/F/verdict#%d" % (nm, n), "F", s.pc, seq_empty(out) == core.Vp(url, designated(url), instance.t),
                                        note="empty(result) <=> the designated schema accepts the instance (definition of Vref)"))
            obls.append(core.Obligation("%s/X/scope#%d" % (nm, n), "X", s.pc, z3.And(s.ghost["scope"] == B, z3.simplify(s.ghost["depth"]) == 0),
                                        note="scope restored"))
        keys, problems, _ = frames.schema_reads(repo, key, frames.param_names(unit.node)[3])
        res["obligations"].append({"name": "%s@draft%d/R/ignores-siblings" % (self.name, d), "kind": "R", "status": "discharged" if not keys and not problems else "failed",
                                   "solver": "frames", "time_s": 0.0, "note": "the $ref function reads nothing of the schema object it stands in (%s %s)" % (sorted(keys), problems)})
        self.finish(res, ctx, obls)


def init_obligations(repo):
    """RefResolver.__init__ / from_schema / URIDict: what the store contains and how keys are normalised (AST)"""
    import ast as _ast
    recs = []

    def rec(name, ok, note):
        recs.append({"name": name, "kind": "T", "status": "discharged" if ok else "failed", "solver": "tables", "note": note})
    init = repo.units["validators:RefResolver.__init__"].node
    stmts = [_ast.unparse(s) for s in init.body if not (isinstance(s, _ast.Expr) and isinstance(s.value, _ast.Constant))]
    def idx(prefix):
        for i, s in enumerate(stmts):
            if s.startswith(prefix):
                return i
        return -1
    a = idx("self.store = _utils.URIDict(((id, validator.META_SCHEMA) for id, validator in meta_schemas.items()))")
    b = idx("self.store.update(store)")
    c = idx("self.store[base_uri] = referrer")
    rec("validators:RefResolver.__init__/T/store-seeding", 0 <= a < b < c,
        "the store is seeded with every registered metaschema, then the caller's store (through the normalising update), then base_uri -> referrer (last, so it wins): positions %s" % ((a, b, c),))
    recs[-1]["rt_search"] = [("pyvc.rt_ref", {"cmd": "search"}, "ref"),
                             ("pyvc.rt_hist", {"cmd": "search", "maxlen": 2, "configs": [[True, "default"], [False, "default"]]}, "hist")]
    rec("validators:RefResolver.__init__/T/stack", "self._scopes_stack = [base_uri]" in stmts, "the scope stack starts as [base_uri]")
    rec("validators:RefResolver.__init__/T/handlers", "self.handlers = dict(handlers)" in stmts, "handlers are copied")
    fs = _ast.unparse(repo.units["validators:RefResolver.from_schema"].node)
    rec("validators:RefResolver.from_schema/T/base", "return cls(*args, base_uri=id_of(schema), referrer=schema, **kwargs)" in fs or
        "return cls(base_uri=id_of(schema), referrer=schema, *args, **kwargs)" in fs, "from_schema uses id_of(schema) as base URI and the schema as referrer")
    # URIDict.normalize / __getitem__ / __setitem__ / __delitem__ / __iter__ / __len__: proved by symbolic execution (contracts/tasks_derive.py: uridict:methods)
    cls = [n for n in _ast.walk(repo.trees["_utils"]) if isinstance(n, _ast.ClassDef) and n.name == "URIDict"]
    rec("_utils:URIDict/T/mutable-mapping", bool(cls) and [_ast.unparse(b) for b in cls[0].bases] == ["MutableMapping"] and
        not any(isinstance(s, _ast.FunctionDef) and s.name in ("update", "setdefault", "get", "__contains__") for s in cls[0].body),
        "URIDict inherits update/get/setdefault/__contains__ from MutableMapping, which are defined through the normalising __getitem__/__setitem__ (assumed contract of the ABC)")
    return recs


ResolverTask._run_ref_keyword = ref_keyword_task_run
