"""Verification tasks for the reference resolver (C14 resolve_fragment; C02/C15 resolve*, C20 helpers)."""
import time
import traceback

import z3

from pyvc import smt, extract, prims
from pyvc.smt import V, kind, sval, llen, lget, dhas, dget, K_STR, K_LIST, K_DICT
from pyvc.values import *      # noqa
from pyvc.interp import State, Ctx, Interp, truth
from pyvc.loops import LoopInv
from contracts import core

# ---- RFC 6901 evaluation as SMT functions (mirror of spec/pointer.py) ------------------------------
walk = z3.Function("ptr_walk", V, V, smt.I, V)           # document after the first k tokens
walk_ok = z3.Function("ptr_walk_ok", V, V, smt.I, smt.B)  # no error in the first k steps
INDEX = z3.Union(z3.Re("0"), z3.Concat(z3.Range("1", "9"), z3.Star(z3.Range("0", "9"))))
is_index = z3.Function("ptr_is_index", smt.S, smt.B)     # token is an RFC 6901 array index: 0|[1-9][0-9]*   (definition)
idx = z3.Function("ptr_idx", smt.S, smt.I)               # its numeric value


def unescape(tok):
    """RFC 6901 section 4: first ~1 -> /, then ~0 -> ~"""
    return prims.str_replace(prims.str_replace(tok, z3.StringVal("~1"), z3.StringVal("/")), z3.StringVal("~0"), z3.StringVal("~"))


def step_ok(cur, tok):
    return z3.Or(z3.And(kind(cur) == K_DICT, dhas(cur, tok)),
                 z3.And(kind(cur) == K_LIST, is_index(tok), idx(tok) < llen(cur)))


def step_val(cur, tok):
    return z3.If(kind(cur) == K_DICT, dget(cur, tok), lget(cur, idx(tok)))


def index_lemma_goal(s):
    """pure string fact, discharged on its own (one string variable, no quantifier):
    s == "0" or (s in [0-9]+ and s[0] != "0")   <=>   s in 0|[1-9][0-9]*"""
    code_side = z3.Or(s == z3.StringVal("0"), z3.And(z3.InRe(s, prims.ASCII_DIGITS), z3.SubString(s, 0, 1) != z3.StringVal("0")))
    return code_side == z3.InRe(s, INDEX)


@smt.register_axioms
def _ptr_axioms(names):
    if not (names & {"ptr_walk", "ptr_walk_ok"}):
        return []
    d, t = z3.Consts("d t", V)
    k, j = z3.Ints("k j")
    tok = unescape(sval(lget(t, k)))
    cur = walk(d, t, k)
    s = z3.String("s")
    lemma = [
        # LEMMA (discharged separately as .../L/index-language, with the assumed str contracts
        # isdigit & isascii <=> [0-9]+ and int(s) == decimal value): what the code tests is the RFC's index language
        z3.ForAll([s], is_index(s) == z3.Or(s == z3.StringVal("0"),
                                            z3.And(prims.py_isdigit(s), prims.py_isascii(s), z3.SubString(s, 0, 1) != z3.StringVal("0"))),
                  patterns=[is_index(s), prims.py_isdigit(s)]),
        z3.ForAll([s], z3.Implies(is_index(s), z3.And(prims.py_int_ok(s), prims.py_int_val(s) == idx(s), idx(s) >= 0)), patterns=[is_index(s), prims.py_int_ok(s)]),
        z3.ForAll([s], z3.Implies(s == z3.StringVal("0"), z3.And(prims.py_int_ok(s), prims.py_int_val(s) == 0, idx(s) == 0)), patterns=[prims.py_int_ok(s)]),
    ]
    return lemma + [
        z3.ForAll([d, t], z3.And(walk(d, t, 0) == d, walk_ok(d, t, 0)), patterns=[walk(d, t, 0)]),
        z3.ForAll([d, t], walk_ok(d, t, 0), patterns=[walk_ok(d, t, 0)]),
        z3.ForAll([d, t, k], z3.Implies(k >= 0, z3.And(walk_ok(d, t, k + 1) == z3.And(walk_ok(d, t, k), step_ok(cur, tok)),
                                                       z3.Implies(z3.And(walk_ok(d, t, k), step_ok(cur, tok)), walk(d, t, k + 1) == step_val(cur, tok)))),
                  patterns=[walk_ok(d, t, k + 1)]),
        z3.ForAll([d, t, k, j], z3.Implies(z3.And(0 <= j, j <= k, walk_ok(d, t, k)), walk_ok(d, t, j)),
                  patterns=[z3.MultiPattern(walk_ok(d, t, k), walk_ok(d, t, j))]),
        z3.ForAll([d, t, k], z3.Implies(z3.And(smt.isjson(d), walk_ok(d, t, k), k >= 0), smt.isjson(walk(d, t, k))), patterns=[walk(d, t, k)]),
    ]


class WalkInv(LoopInv):
    """document == ptr_walk(doc0, tokens, k)  and no step of the first k failed"""

    def __init__(self, doc0, toks):
        self.doc0, self.toks = doc0, toks

    def at(self, I, st, k, spec):
        d, t = self.doc0.t, self.toks
        tok = unescape(sval(lget(t, k)))
        cur = walk(d, t, k)
        # the definitional unfolding of the walk at the current step: an *instance of the axiom* in
        # _ptr_axioms (k := k), supplied explicitly so the exit obligations need no quantifier instantiation
        unfold = z3.And(walk_ok(d, t, k + 1) == z3.And(walk_ok(d, t, k), step_ok(cur, tok)),
                        z3.Implies(z3.And(walk_ok(d, t, k), step_ok(cur, tok)), walk(d, t, k + 1) == step_val(cur, tok)))
        return {"env": {"document": SV(cur)}, "formula": z3.And(walk_ok(d, t, k), k >= 0), "axiom_instances": [z3.Implies(k >= 0, unfold)]}


class ResolverTask:
    weight = 5

    def __init__(self, root, which, timeout_ms=20000):
        self.root, self.which, self.timeout_ms = root, which, timeout_ms
        self.name = "validators:RefResolver.%s" % which

    def cache_key(self):
        from pyvc import driver
        return "resolver|%s|%s|%s" % (self.name, self.timeout_ms, driver.dep_hash(self.root, modules=("validators", "_utils")))

    def run(self):
        t0 = time.time()
        res = {"task": self.name, "function": self.name, "obligations": [], "status": "ok", "paths": 0}
        try:
            getattr(self, "_run_" + self.which)(res)
        except OutOfSubset as e:
            res["status"], res["detail"] = "out-of-subset", str(e)
        except Exception as e:      # noqa
            res["status"], res["detail"] = "crash", "%s\n%s" % (e, traceback.format_exc())
        if self.which == "resolve_fragment" and (res["status"] != "ok" or any(o["status"] != "discharged" for o in res["obligations"])):
            from pyvc import driver
            try:
                res["search"] = driver.rt_call("pyvc.rt_ptr", {"cmd": "search", "root": self.root, "limit": 3}, self.root, timeout=3000)
            except Exception as e:      # noqa
                res["search"] = {"error": str(e)[-300:], "failures": []}
        res["wall_s"] = round(time.time() - t0, 3)
        return res

    def finish(self, res, ctx, obls):
        for ob in obls:
            ob.check(self.timeout_ms)
            rec = {"name": ob.name if ob.name.startswith(self.name) else self.name + "::" + ob.name, "kind": ob.kind,
                   "status": ob.status, "solver": ob.solver, "time_s": round(ob.time_s, 3), "note": ob.note}
            if ob.status != "discharged":
                rec["reason"] = ob.reason
            res["obligations"].append(rec)
        seen = {}
        for unit_key, cls, origin in ctx.safety:
            seen[(unit_key, cls, origin)] = seen.get((unit_key, cls, origin), 0) + 1
        for (unit_key, cls, origin), n in sorted(seen.items()):
            res["obligations"].append({"name": "%s::%s/S/unreachable:%s@%s" % (self.name, unit_key, cls, origin), "kind": "S",
                                       "status": "discharged", "solver": "z3", "time_s": 0.0,
                                       "note": "%s from %s cannot occur (%d path(s))" % (cls, origin, n)})

    def _run_resolve_fragment(self, res):
        """resolve_fragment(document, fragment) == RFC 6901 evaluation of the percent-decoded fragment
        (empty: whole document; else one leading '/', tokens split on '/', ~1 then ~0 unescaped, member
        by exact name, array index 0|[1-9][0-9]* in range); RefResolutionError exactly when the RFC
        evaluation fails; nothing else is raised."""
        repo = extract.Repo(self.root)
        ctx = Ctx(repo, contracts={}, config={})
        unit = repo.unit("validators:RefResolver.resolve_fragment")
        res["source_hash"] = unit.source_hash()
        doc, frag = SV(z3.Const("document", V)), SV(z3.Const("fragment", V))
        dec = prims.unquote_f(sval(frag.t))
        # the pointer proper: precondition of the property (a JSON pointer is "" or starts with "/")
        pointer_ok = z3.Or(dec == z3.StringVal(""), z3.PrefixOf(z3.StringVal("/"), dec))
        toks = prims.ssplit(prims.str_slice_from(dec, z3.IntVal(1)), z3.StringVal("/"))      # pointer[1:].split("/")
        ctx.config["loop_invs"] = {(unit.key, 0): WalkInv(doc, toks)}
        I = Interp(ctx)
        st = State()
        st.unit = unit
        st.pc.extend([smt.isjson(doc.t), kind(frag.t) == K_STR, pointer_ok])
        this = ObjVal("RefResolver", ctx.new_oid())
        outs = I.run_unit(unit, st, [this, doc, frag], {})
        res["paths"] = len(outs)
        obls = list(ctx.obligations)
        n_tok = llen(toks)
        n = 0
        for s, ctl in outs:
            n += 1
            if ctl[0] == "raise":
                cls = ctl[1].cls
                if cls == "RefResolutionError":
                    obls.append(core.Obligation("%s/F/error#%d" % (self.name, n), "F", s.pc,
                                                z3.And(dec != z3.StringVal(""), z3.Not(walk_ok(doc.t, toks, n_tok))),
                                                note="RefResolutionError only when the RFC 6901 evaluation fails"))
                else:
                    obls.append(core.Obligation("%s/S/raise:%s@%s#%d" % (self.name, cls, ctl[1].origin, n), "S", s.pc, False,
                                                note="%s escapes resolve_fragment" % cls))
            else:
                r = ctl[1]
                expected = z3.If(dec == z3.StringVal(""), doc.t, walk(doc.t, toks, n_tok))
                ok = z3.Or(dec == z3.StringVal(""), walk_ok(doc.t, toks, n_tok))
                obls.append(core.Obligation("%s/F/value#%d" % (self.name, n), "F", s.pc, z3.And(ok, r.t == expected),
                                            note="returns exactly the value addressed by the pointer"))
        # the string lemma used as an axiom above, discharged here by the string solver alone
        sv = z3.String("tok")
        lem = core.Obligation("%s/L/index-language" % self.name, "L", [], index_lemma_goal(sv),
                              note='for every string s: s == "0" or (s in [0-9]+ and s[0] != "0")  <=>  s in 0|[1-9][0-9]*')
        lem.strings_first = True
        obls.append(lem)
        self.finish(res, ctx, obls)


def resolver_tasks(root, timeout_ms=20000, which=("resolve_fragment",)):
    return [ResolverTask(root, w, timeout_ms) for w in which]
