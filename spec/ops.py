"""Two interpretations of the specification language ("ghost Python", DESIGN.md section 3.3).

Spec functions in spec/*.py are written once against an `ops` object:
  Z3Ops  - values are SV (SMT terms, with the concrete value when statically known), formulas are
           z3 BoolRefs; quantifiers over container elements become SMT quantifiers, or finite
           conjunctions when the container is concrete (partial evaluation of the metaschemas).
  PyOps  - values are plain Python JSON values, formulas are Python bools: the executable oracle
           used for replay and for the bounded stand-ins.
"""
import math
import re
from fractions import Fraction

import z3

from pyvc import smt
from pyvc.smt import kind, bval, ival, fval, sval, llen, lget, dlen, dkey, dval, dhas, dget
from pyvc.smt import K_NONE, K_BOOL, K_INT, K_FLOAT, K_STR, K_LIST, K_DICT, K_OBJ
from pyvc.values import SV, NOCONC
from pyvc.interp import lift as _lift_scalar


def lift_json(x):
    """Concrete JSON value -> SV with .conc set.  Containers get fresh constants constrained lazily
    by Z3Ops (which folds on .conc, so the term itself is rarely inspected)."""
    if isinstance(x, SV):
        return x
    if x is None or isinstance(x, (bool, int, float, str)):
        return _lift_scalar(x)
    return SV(_const_term(x), x)


_const_cache = {}
_const_defs = []      # (term, python value) for which definitional facts may be needed


def _const_term(x):
    import json
    key = json.dumps(x, sort_keys=False, default=str)
    t = _const_cache.get(key)
    if t is None:
        t = smt.fresh("const", smt.V)
        _const_cache[key] = t
        _const_defs.append((t, x))
    return t


_missing_term = z3.Const("missing_value", smt.V)


def const_facts(x_sv):
    """Ground facts describing a lifted container constant (only when a term escapes folding)."""
    out = []

    def go(t, x):
        if isinstance(x, list):
            out.append(kind(t) == K_LIST)
            out.append(llen(t) == len(x))
            for i, e in enumerate(x):
                c = lift_json(e)
                out.append(lget(t, i) == c.t)
                go(c.t, e)
        elif isinstance(x, dict):
            out.append(kind(t) == K_DICT)
            out.append(dlen(t) == len(x))
            for i, (k, e) in enumerate(x.items()):
                c = lift_json(e)
                out.append(dkey(t, i) == z3.StringVal(k))
                out.append(dval(t, i) == c.t)
                go(c.t, e)
    go(x_sv.t, x_sv.conc)
    return out


def C(x):
    """statically known structure of x: its concrete value, or the shape of a built container"""
    if x.known:
        return x.conc
    return x.shape


def hasC(x):
    return x.known or x.shape is not None


class Z3Ops:
    symbolic = True

    def __init__(self, draft, Vp=None, meta_root=None, wf_pred=None, scope=None):
        self.d = draft
        self.Vp = Vp                  # z3 function (S?, V, V) -> Bool  : sub-validation results
        self.meta_root = meta_root    # concrete root document for "#..." references (metaschema evaluation)
        self.wf_pred = wf_pred        # z3 predicate V -> Bool standing for {"$ref": "#"} in a metaschema
        self.scope = scope

    # formulas
    true = z3.BoolVal(True)
    false = z3.BoolVal(False)

    def And(self, *xs):
        xs = [x for x in xs if not z3.is_true(x)]
        if any(z3.is_false(x) for x in xs):
            return self.false
        return z3.And(xs) if len(xs) > 1 else (xs[0] if xs else self.true)

    def Or(self, *xs):
        xs = [x for x in xs if not z3.is_false(x)]
        if any(z3.is_true(x) for x in xs):
            return self.true
        return z3.Or(xs) if len(xs) > 1 else (xs[0] if xs else self.false)

    def Not(self, x):
        if z3.is_true(x):
            return self.false
        if z3.is_false(x):
            return self.true
        return z3.Not(x)

    def Implies(self, a, b):
        return self.Or(self.Not(a), b)

    def Iff(self, a, b):
        return a == b

    def Ite(self, c, a, b):
        if z3.is_true(c):
            return a
        if z3.is_false(c):
            return b
        return z3.If(c, a, b)

    def bool(self, b):
        return z3.BoolVal(bool(b))

    # values
    def const(self, x):
        return lift_json(x)

    def _k(self, x, *ks):
        if hasC(x):
            return self.bool(_pykind(C(x)) in ks)
        return smt.is_kind(x.t, *ks)

    def is_obj(self, x):
        return self._k(x, K_DICT)

    def is_arr(self, x):
        return self._k(x, K_LIST)

    def is_str(self, x):
        return self._k(x, K_STR)

    def is_bool(self, x):
        return self._k(x, K_BOOL)

    def is_null(self, x):
        return self._k(x, K_NONE)

    def is_num(self, x):
        return self._k(x, K_INT, K_FLOAT)

    def is_intkind(self, x):
        return self._k(x, K_INT)

    def is_integral(self, x):
        """JSON number with zero fractional part"""
        if x.known:
            c = x.conc
            return self.bool(isinstance(c, int) and not isinstance(c, bool) or isinstance(c, float) and c.is_integer())
        return z3.Or(kind(x.t) == K_INT, z3.And(kind(x.t) == K_FLOAT, z3.IsInt(fval(x.t))))

    def truthy(self, x):
        if x.known:
            return self.bool(x.conc)
        if x.shape is not None:
            return self.bool(len(x.shape) > 0)
        return smt.truthy(x.t)

    def is_true(self, x):
        if x.known:
            return self.bool(x.conc is True)
        return z3.And(kind(x.t) == K_BOOL, bval(x.t))

    def is_false(self, x):
        if x.known:
            return self.bool(x.conc is False)
        return z3.And(kind(x.t) == K_BOOL, z3.Not(bval(x.t)))

    def num(self, x):
        if x.known:
            return z3.RealVal(str(Fraction(x.conc))) if isinstance(x.conc, (int, float)) else z3.RealVal(0)
        return smt.num(x.t)

    def lt(self, a, b):
        return a < b

    def le(self, a, b):
        return a <= b

    def eqn(self, a, b):
        return a == b

    def len(self, x):
        """length of array / object / string (code points) as an integer term"""
        if hasC(x):
            return z3.IntVal(len(C(x)) if isinstance(C(x), (list, dict, str)) else 0)
        return z3.If(kind(x.t) == K_LIST, llen(x.t), z3.If(kind(x.t) == K_DICT, dlen(x.t), z3.Length(sval(x.t))))

    def int_of_len(self, n):
        return z3.ToReal(n)

    def str_of(self, x):
        if x.known:
            return z3.StringVal(x.conc if isinstance(x.conc, str) else "")
        return sval(x.t)

    def mk_str(self, s):
        if z3.is_string_value(s):
            return _lift_scalar(s.as_string())
        return SV(smt.mk_str(s))

    def str_eq(self, a, b):
        if isinstance(a, str):
            a = z3.StringVal(a)
        if isinstance(b, str):
            b = z3.StringVal(b)
        return z3.simplify(a == b)

    def has(self, x, key):
        if not isinstance(key, str) and z3.is_string_value(key):
            key = key.as_string()
        if isinstance(key, str):
            if hasC(x):
                return self.bool(isinstance(C(x), dict) and key in C(x))
            key = z3.StringVal(key)
        elif hasC(x):
            if not isinstance(C(x), dict) or not C(x):
                return self.false
            return self.Or(*[key == z3.StringVal(k) for k in C(x)])
        return z3.And(kind(x.t) == K_DICT, dhas(x.t, key))

    def get(self, x, key):
        if not isinstance(key, str) and z3.is_string_value(key):
            key = key.as_string()
        if isinstance(key, str):
            if hasC(x):
                if isinstance(C(x), dict) and key in C(x):
                    return lift_json(C(x)[key])
                return SV(_missing_term)        # total: arbitrary value outside the domain
            key = z3.StringVal(key)
        elif hasC(x):
            # symbolic key into a concrete object: an SV built by If-chain over the concrete members
            if not isinstance(C(x), dict) or not C(x):
                return SV(_missing_term)
            items = list(C(x).items())
            t = lift_json(items[-1][1]).t
            for k, v in reversed(items[:-1]):
                t = z3.If(key == z3.StringVal(k), lift_json(v).t, t)
            return SV(t)
        return SV(dget(x.t, key))

    def all_idx(self, x, f):
        if hasC(x):
            if not isinstance(C(x), list):
                return self.true
            return self.And(*[f(z3.IntVal(i), lift_json(e)) for i, e in enumerate(C(x))])
        i = smt.fresh("q", smt.I)
        body = f(i, SV(lget(x.t, i)))
        if z3.is_true(body):
            return self.true
        return z3.ForAll([i], z3.Implies(z3.And(0 <= i, i < llen(x.t)), body))

    def any_idx(self, x, f):
        if hasC(x):
            if not isinstance(C(x), list):
                return self.false
            return self.Or(*[f(z3.IntVal(i), lift_json(e)) for i, e in enumerate(C(x))])
        i = smt.fresh("q", smt.I)
        body = f(i, SV(lget(x.t, i)))
        if z3.is_false(body):
            return self.false
        return z3.Exists([i], z3.And(0 <= i, i < llen(x.t), body))

    def all_items(self, x, f):
        """f(key: z3 String, value: SV)"""
        if hasC(x):
            if not isinstance(C(x), dict):
                return self.true
            return self.And(*[f(z3.StringVal(k), lift_json(v)) for k, v in C(x).items()])
        i = smt.fresh("q", smt.I)
        body = f(dkey(x.t, i), SV(dval(x.t, i)))
        if z3.is_true(body):
            return self.true
        return z3.ForAll([i], z3.Implies(z3.And(0 <= i, i < dlen(x.t)), body))

    def any_items(self, x, f):
        if hasC(x):
            if not isinstance(C(x), dict):
                return self.false
            return self.Or(*[f(z3.StringVal(k), lift_json(v)) for k, v in C(x).items()])
        i = smt.fresh("q", smt.I)
        body = f(dkey(x.t, i), SV(dval(x.t, i)))
        return z3.Exists([i], z3.And(0 <= i, i < dlen(x.t), body))

    def exactly_one_idx(self, x, f):
        if hasC(x):
            if not isinstance(C(x), list):
                return self.false
            fs = [f(z3.IntVal(i), lift_json(e)) for i, e in enumerate(C(x))]
            return self.Or(*[self.And(fs[i], *[self.Not(fs[j]) for j in range(len(fs)) if j != i]) for i in range(len(fs))])
        i = smt.fresh("q", smt.I)
        j = smt.fresh("q", smt.I)
        fi = f(i, SV(lget(x.t, i)))
        fj = z3.substitute(fi, (i, j))
        return z3.Exists([i], z3.And(0 <= i, i < llen(x.t), fi,
                                     z3.ForAll([j], z3.Implies(z3.And(0 <= j, j < llen(x.t), j != i), z3.Not(fj)))))

    def at(self, x, i):
        if hasC(x) and z3.is_int_value(i):
            if isinstance(C(x), list) and 0 <= i.as_long() < len(C(x)):
                return lift_json(C(x)[i.as_long()])
            return SV(_missing_term)
        if hasC(x):
            if not isinstance(C(x), list) or not C(x):
                return SV(_missing_term)
            t = lift_json(C(x)[-1]).t
            for j in range(len(C(x)) - 2, -1, -1):
                t = z3.If(i == j, lift_json(C(x)[j]).t, t)
            return SV(t)
        return SV(lget(x.t, i))

    def idx_lt(self, i, n):
        return i < n

    def min_int(self, a, b):
        return z3.If(a < b, a, b)

    def jeq(self, a, b):
        if a.known and b.known:
            return self.bool(py_jeq(a.conc, b.conc))
        ta = a.t
        tb = b.t
        for x, y in ((a, b), (b, a)):
            if x.known and isinstance(x.conc, (list, dict)):
                # a concrete container compared with a symbolic value: unfold structurally
                return self._jeq_unfold(x.conc, y)
        return smt.jeq(ta, tb)

    def _jeq_unfold(self, c, y):
        if isinstance(c, list):
            return self.And(kind(y.t) == K_LIST, llen(y.t) == len(c),
                            *[self.jeq(lift_json(e), SV(lget(y.t, i))) for i, e in enumerate(c)])
        if isinstance(c, dict):
            return self.And(kind(y.t) == K_DICT, dlen(y.t) == len(c),
                            *[self.And(dhas(y.t, z3.StringVal(k)), self.jeq(lift_json(v), SV(dget(y.t, z3.StringVal(k)))))
                              for k, v in c.items()])
        return smt.jeq(lift_json(c).t, y.t)

    def re_search(self, p, s):
        return smt.re_search(p, s)

    def is_multiple(self, x, v):
        """num(x)/num(v) is an integer (mathematically); for two integers this is stated as
        x mod v == 0 (the definition of divisibility; keeps the query linear)"""
        if x.known or v.known:
            return z3.IsInt(self.num(x) / self.num(v))
        return z3.If(z3.And(kind(x.t) == K_INT, kind(v.t) == K_INT),
                     ival(x.t) % ival(v.t) == 0,
                     z3.IsInt(self.num(x) / self.num(v)))

    def V(self, sub, x):
        """validity of instance x under subschema `sub`"""
        if sub.shape is not None and not sub.known:
            from spec import drafts
            return drafts.V_concrete_schema(self, sub.shape, x)
        if sub.known:
            from spec import drafts
            return drafts.V_concrete_schema(self, sub.conc, x)
        if sub.t.eq(_missing_term) or x.t.eq(_missing_term):
            return self.true        # outside the domain (unguarded branch of a total formula)
        return self.Vp(sub.t, x.t) if self.scope is None else self.Vp(self.scope, sub.t, x.t)

    def wf_ref_root(self, x):
        return self.wf_pred(x.t)



from spec.pyops import _pykind, py_jeq, PyOps, MISSING   # noqa: E402,F401
