"""The keyword semantics K_k(d, v, x, s) of JSON Schema drafts 3, 4, 6, 7 (DESIGN.md Appendix A).

Written from the specifications, not from the code.  `o` is the ops object (spec/ops.py), `v` the
keyword's value, `x` the instance, `s` the schema object containing the keyword.  Every keyword is
type-gated.  One text, two semantics (SMT / executable).
"""

DRAFTS = (3, 4, 6, 7)

_COMMON = ["type", "enum", "minimum", "maximum", "minLength", "maxLength", "pattern", "minItems", "maxItems",
           "uniqueItems", "items", "additionalItems", "properties", "patternProperties", "additionalProperties",
           "dependencies", "format", "$ref"]
VOCAB = {
    3: _COMMON + ["disallow", "extends", "divisibleBy"],
    4: _COMMON + ["multipleOf", "minProperties", "maxProperties", "required", "allOf", "anyOf", "oneOf", "not"],
}
VOCAB[6] = VOCAB[4] + ["const", "contains", "propertyNames", "exclusiveMinimum", "exclusiveMaximum"]
VOCAB[7] = VOCAB[6] + ["if"]

# sibling keys a keyword may consult (C05, C10)
SIBLINGS = {
    "additionalProperties": ["properties", "patternProperties"],
    "additionalItems": ["items"],
    "if": ["then", "else"],
    "minimum": ["exclusiveMinimum"],     # drafts 3, 4 only
    "maximum": ["exclusiveMaximum"],
}


def siblings(d, k):
    if k in ("minimum", "maximum") and d >= 6:
        return []
    return SIBLINGS.get(k, [])


ID_KEY = {3: "id", 4: "id", 6: "$id", 7: "$id"}

TYPE_NAMES = {3: ["any", "array", "boolean", "integer", "null", "number", "object", "string"]}
TYPE_NAMES[4] = TYPE_NAMES[6] = TYPE_NAMES[7] = TYPE_NAMES[3][1:]


def T(o, d, name, x):
    """JSON type predicate for a *concrete* type name."""
    if name == "any" and d == 3:
        return o.true
    if name == "array":
        return o.is_arr(x)
    if name == "boolean":
        return o.is_bool(x)
    if name == "integer":
        return o.is_integral(x) if d >= 6 else o.is_intkind(x)
    if name == "null":
        return o.is_null(x)
    if name == "number":
        return o.is_num(x)
    if name == "object":
        return o.is_obj(x)
    if name == "string":
        return o.is_str(x)
    raise KeyError(name)


def T_sym(o, d, tname, x):
    """type predicate for a type name given as a string *term*; names outside the draft's set: false
    (K_type is only claimed where every name is known, see known_types)."""
    return o.Or(*[o.And(o.str_eq(tname, n), T(o, d, n, x)) for n in TYPE_NAMES[d]])


def known_type_name(o, d, tname):
    return o.Or(*[o.str_eq(tname, n) for n in TYPE_NAMES[d]])


def is_schema(o, d, v):
    """the JSON kinds a subschema may have in draft d"""
    return o.is_obj(v) if d < 6 else o.Or(o.is_obj(v), o.is_bool(v))


# ---------------------------------------------------------------------------------------------

def K_type(o, d, v, x, s):
    def one(t):
        if d == 3:
            return o.Ite(o.is_str(t), T_sym(o, d, o.str_of(t), x), o.V(t, x))     # draft 3: an element may be a schema
        return T_sym(o, d, o.str_of(t), x)
    return o.Ite(o.is_str(v), T_sym(o, d, o.str_of(v), x), o.any_idx(v, lambda i, t: one(t)))


def K_disallow(o, d, v, x, s):
    return o.Not(K_type(o, d, v, x, s))


def K_extends(o, d, v, x, s):
    return o.Ite(o.is_obj(v), o.V(v, x), o.all_idx(v, lambda i, e: o.V(e, x)))


def K_enum(o, d, v, x, s):
    return o.any_idx(v, lambda i, e: o.jeq(e, x))


def K_const(o, d, v, x, s):
    return o.jeq(v, x)


def _excl(o, s, name):
    return o.And(o.has(s, name), o.truthy(o.get(s, name)))


def K_minimum(o, d, v, x, s):
    if d <= 4:
        ex = _excl(o, s, "exclusiveMinimum")
        return o.Implies(o.is_num(x), o.Ite(ex, o.lt(o.num(v), o.num(x)), o.le(o.num(v), o.num(x))))
    return o.Implies(o.is_num(x), o.le(o.num(v), o.num(x)))


def K_maximum(o, d, v, x, s):
    if d <= 4:
        ex = _excl(o, s, "exclusiveMaximum")
        return o.Implies(o.is_num(x), o.Ite(ex, o.lt(o.num(x), o.num(v)), o.le(o.num(x), o.num(v))))
    return o.Implies(o.is_num(x), o.le(o.num(x), o.num(v)))


def K_exclusiveMinimum(o, d, v, x, s):
    return o.Implies(o.is_num(x), o.lt(o.num(v), o.num(x)))


def K_exclusiveMaximum(o, d, v, x, s):
    return o.Implies(o.is_num(x), o.lt(o.num(x), o.num(v)))


def K_multipleOf(o, d, v, x, s):
    return o.Implies(o.is_num(x), o.is_multiple(x, v))


def K_minLength(o, d, v, x, s):
    return o.Implies(o.is_str(x), o.le(o.num(v), o.int_of_len(o.len(x))))


def K_maxLength(o, d, v, x, s):
    return o.Implies(o.is_str(x), o.le(o.int_of_len(o.len(x)), o.num(v)))


def K_pattern(o, d, v, x, s):
    return o.Implies(o.is_str(x), o.re_search(o.str_of(v), o.str_of(x)))


def K_minItems(o, d, v, x, s):
    return o.Implies(o.is_arr(x), o.le(o.num(v), o.int_of_len(o.len(x))))


def K_maxItems(o, d, v, x, s):
    return o.Implies(o.is_arr(x), o.le(o.int_of_len(o.len(x)), o.num(v)))


def K_minProperties(o, d, v, x, s):
    return o.Implies(o.is_obj(x), o.le(o.num(v), o.int_of_len(o.len(x))))


def K_maxProperties(o, d, v, x, s):
    return o.Implies(o.is_obj(x), o.le(o.int_of_len(o.len(x)), o.num(v)))


def K_uniqueItems(o, d, v, x, s):
    return o.Implies(o.And(o.is_arr(x), o.truthy(v)),
                     o.all_idx(x, lambda i, a: o.all_idx(x, lambda j, b: o.Implies(o.idx_lt(i, j), o.Not(o.jeq(a, b))))))


def K_items(o, d, v, x, s):
    single = is_schema(o, d, v)
    return o.Implies(o.is_arr(x),
                     o.Ite(single,
                           o.all_idx(x, lambda i, e: o.V(v, e)),
                           o.all_idx(x, lambda i, e: o.Implies(o.idx_lt(i, o.len(v)), o.V(o.at(v, i), e)))))


def K_additionalItems(o, d, v, x, s):
    tuple_form = o.And(o.has(s, "items"), o.is_arr(o.get(s, "items")))
    n = o.len(o.get(s, "items"))
    body = o.Ite(o.is_false(v) if d >= 6 else o.And(o.is_bool(v), o.Not(o.truthy(v))),
                 o.le(o.int_of_len(o.len(x)), o.int_of_len(n)),
                 o.Ite(o.is_obj(v) if d < 6 else o.Or(o.is_obj(v)),
                       o.all_idx(x, lambda i, e: o.Implies(o.Not(o.idx_lt(i, n)), o.V(v, e))),
                       o.true))       # true (boolean) : everything allowed
    return o.Implies(o.And(o.is_arr(x), tuple_form), body)


def K_contains(o, d, v, x, s):
    return o.Implies(o.is_arr(x), o.any_idx(x, lambda i, e: o.V(v, e)))


def K_required(o, d, v, x, s):
    return o.Implies(o.is_obj(x), o.all_idx(v, lambda i, p: o.has(x, o.str_of(p))))


def K_properties(o, d, v, x, s):
    def one(p, sub):
        present = o.has(x, p)
        r = o.Implies(present, o.V(sub, o.get(x, p)))
        if d == 3:
            req = o.And(o.has(sub, "required"), o.truthy(o.get(sub, "required")))
            r = o.And(r, o.Implies(o.Not(present), o.Not(req)))
        return r
    return o.Implies(o.is_obj(x), o.all_items(v, one))


def K_patternProperties(o, d, v, x, s):
    return o.Implies(o.is_obj(x),
                     o.all_items(v, lambda p, sub: o.all_items(x, lambda k, e: o.Implies(o.re_search(p, k), o.V(sub, e)))))


def _is_extra(o, s, k):
    """key k of the instance is matched by neither properties nor patternProperties of s"""
    in_props = o.And(o.has(s, "properties"), o.has(o.get(s, "properties"), k))
    in_pats = o.And(o.has(s, "patternProperties"),
                    o.any_items(o.get(s, "patternProperties"), lambda p, _: o.re_search(p, k)))
    return o.And(o.Not(in_props), o.Not(in_pats))


def K_additionalProperties(o, d, v, x, s):
    body = o.Ite(o.is_obj(v),
                 o.all_items(x, lambda k, e: o.Implies(_is_extra(o, s, k), o.V(v, e))),
                 o.Ite(o.truthy(v), o.true,
                       o.all_items(x, lambda k, e: o.Not(_is_extra(o, s, k)))))
    return o.Implies(o.is_obj(x), body)


def K_propertyNames(o, d, v, x, s):
    return o.Implies(o.is_obj(x), o.all_items(x, lambda k, e: o.V(v, o.mk_str(k))))


def K_dependencies(o, d, v, x, s):
    def one(p, dep):
        arr = o.all_idx(dep, lambda i, q: o.has(x, o.str_of(q)))
        if d == 3:
            body = o.Ite(o.is_obj(dep), o.V(dep, x), o.Ite(o.is_str(dep), o.has(x, o.str_of(dep)), arr))
        else:
            body = o.Ite(o.is_arr(dep), arr, o.V(dep, x))
        return o.Implies(o.has(x, p), body)
    return o.Implies(o.is_obj(x), o.all_items(v, one))


def K_allOf(o, d, v, x, s):
    return o.all_idx(v, lambda i, e: o.V(e, x))


def K_anyOf(o, d, v, x, s):
    return o.any_idx(v, lambda i, e: o.V(e, x))


def K_oneOf(o, d, v, x, s):
    return o.exactly_one_idx(v, lambda i, e: o.V(e, x))


def K_not(o, d, v, x, s):
    return o.Not(o.V(v, x))


def K_if(o, d, v, x, s):
    return o.Ite(o.V(v, x),
                 o.Implies(o.has(s, "then"), o.V(o.get(s, "then"), x)),
                 o.Implies(o.has(s, "else"), o.V(o.get(s, "else"), x)))


def K_format(o, d, v, x, s):
    return o.true       # no format checker: format is an annotation (C12 treats the checker case)


K = {
    "type": K_type, "disallow": K_disallow, "extends": K_extends, "enum": K_enum, "const": K_const,
    "minimum": K_minimum, "maximum": K_maximum, "exclusiveMinimum": K_exclusiveMinimum,
    "exclusiveMaximum": K_exclusiveMaximum, "multipleOf": K_multipleOf, "divisibleBy": K_multipleOf,
    "minLength": K_minLength, "maxLength": K_maxLength, "pattern": K_pattern, "minItems": K_minItems,
    "maxItems": K_maxItems, "minProperties": K_minProperties, "maxProperties": K_maxProperties,
    "uniqueItems": K_uniqueItems, "items": K_items, "additionalItems": K_additionalItems,
    "contains": K_contains, "required": K_required, "properties": K_properties,
    "patternProperties": K_patternProperties, "additionalProperties": K_additionalProperties,
    "propertyNames": K_propertyNames, "dependencies": K_dependencies, "allOf": K_allOf, "anyOf": K_anyOf,
    "oneOf": K_oneOf, "not": K_not, "if": K_if, "format": K_format,
}


def V_concrete_schema(o, schema, x):
    """V(d, schema, x) for a *concrete* schema (Python JSON value) and an instance in o's domain.
    `$ref` is supported for same-document JSON pointers into o.meta_root (enough for the bundled
    metaschemas); PyOps with a resolver handles the general case (spec/refs.py)."""
    d = o.d
    if schema is True and d >= 6:
        return o.true
    if schema is False and d >= 6:
        return o.false
    if not isinstance(schema, dict):
        return o.true     # not a schema: outside V's domain (PyOps evaluates unguarded branches eagerly)
    if "$ref" in schema:
        ref = schema["$ref"]
        if getattr(o, "resolver", None) is not None:
            return o.resolver.validate_ref(o, ref, schema, x)
        if ref == "#":
            return o.wf_ref_root(x)
        if ref.startswith("#/") and o.meta_root is not None:
            from spec.pointer import ptr_eval_py
            return V_concrete_schema(o, ptr_eval_py(o.meta_root, ref[1:]), x)
        raise ValueError("unsupported $ref in concrete schema: %r" % ref)
    s = o.const(schema)
    out = []
    for k, v in schema.items():
        if k in VOCAB[d] and k != "$ref":
            out.append(K[k](o, d, o.const(v), x, s))
    return o.And(*out)


def known_types(o, d, s):
    """every type name used by `type`/`disallow` of s (top level of the keyword value) is one the draft defines"""
    def names_ok(v):
        return o.Ite(o.is_str(v), known_type_name(o, d, o.str_of(v)),
                     o.Ite(o.is_arr(v), o.all_idx(v, lambda i, t: o.Implies(o.is_str(t), known_type_name(o, d, o.str_of(t)))), o.true))
    return o.And(o.Implies(o.has(s, "type"), names_ok(o.get(s, "type"))),
                 o.Implies(o.has(s, "disallow"), names_ok(o.get(s, "disallow"))))
