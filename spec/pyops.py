"""Executable interpretation of the specification language (no SMT imports: runs under the
repository's own interpreter for replay, directed search and the bounded stand-ins)."""
import re
from fractions import Fraction

K_NONE, K_BOOL, K_INT, K_FLOAT, K_STR, K_LIST, K_DICT, K_OBJ = range(8)


def _pykind(c):
    if type(c).__name__ == "SV":
        return -1
    if c is None:
        return K_NONE
    if isinstance(c, bool):
        return K_BOOL
    if isinstance(c, int):
        return K_INT
    if isinstance(c, float):
        return K_FLOAT
    if isinstance(c, str):
        return K_STR
    if isinstance(c, list):
        return K_LIST
    if isinstance(c, dict):
        return K_DICT
    return K_OBJ


def py_jeq(a, b):
    """JSON equality on Python values (the executable jeq of C08)."""
    ka, kb = _pykind(a), _pykind(b)
    na, nb = ka in (K_INT, K_FLOAT), kb in (K_INT, K_FLOAT)
    if na and nb:
        return Fraction(a) == Fraction(b)
    if ka != kb:
        return False
    if ka == K_LIST:
        return len(a) == len(b) and all(py_jeq(x, y) for x, y in zip(a, b))
    if ka == K_DICT:
        return len(a) == len(b) and all(k in b and py_jeq(v, b[k]) for k, v in a.items())
    return a == b


class _Missing:
    def __repr__(self):
        return "<missing>"


MISSING = _Missing()


class PyOps:
    symbolic = False

    def __init__(self, draft, meta_root=None, resolver=None, regex=None):
        self.d = draft
        self.meta_root = meta_root
        self.resolver = resolver
        self.regex = regex or (lambda p, s: re.search(p, s) is not None)

    true, false = True, False

    def And(self, *xs):
        return all(xs)

    def Or(self, *xs):
        return any(xs)

    def Not(self, x):
        return not x

    def Implies(self, a, b):
        return (not a) or b

    def Iff(self, a, b):
        return bool(a) == bool(b)

    def Ite(self, c, a, b):
        return a if c else b

    def bool(self, b):
        return bool(b)

    def const(self, x):
        return x

    def is_obj(self, x):
        return isinstance(x, dict)

    def is_arr(self, x):
        return isinstance(x, list)

    def is_str(self, x):
        return isinstance(x, str)

    def is_bool(self, x):
        return isinstance(x, bool)

    def is_null(self, x):
        return x is None

    def is_num(self, x):
        return isinstance(x, (int, float)) and not isinstance(x, bool)

    def is_intkind(self, x):
        return isinstance(x, int) and not isinstance(x, bool)

    def is_integral(self, x):
        return self.is_intkind(x) or (isinstance(x, float) and x.is_integer())

    def truthy(self, x):
        return bool(x)

    def is_true(self, x):
        return x is True

    def is_false(self, x):
        return x is False

    # PyOps operations are *total* (like their SMT counterparts): arguments outside the sensible
    # domain give an arbitrary default, because spec formulas are evaluated eagerly and only the
    # guards (Implies / Ite conditions) decide which sub-results matter.
    def num(self, x):
        try:
            return Fraction(x) if isinstance(x, (int, float)) else Fraction(0)
        except (ValueError, OverflowError):
            return Fraction(0)

    def lt(self, a, b):
        return a < b

    def le(self, a, b):
        return a <= b

    def eqn(self, a, b):
        return a == b

    def len(self, x):
        return len(x) if isinstance(x, (list, dict, str)) else 0

    def int_of_len(self, n):
        return Fraction(n)

    def str_of(self, x):
        return x if isinstance(x, str) else ""

    def mk_str(self, s):
        return s

    def str_eq(self, a, b):
        return a == b

    def has(self, x, key):
        return isinstance(x, dict) and key in x

    def get(self, x, key):
        if isinstance(x, dict) and key in x:
            return x[key]
        return MISSING

    def all_idx(self, x, f):
        return all(f(i, e) for i, e in enumerate(x)) if isinstance(x, list) else True

    def any_idx(self, x, f):
        return any(f(i, e) for i, e in enumerate(x)) if isinstance(x, list) else False

    def all_items(self, x, f):
        return all(f(k, v) for k, v in x.items()) if isinstance(x, dict) else True

    def any_items(self, x, f):
        return any(f(k, v) for k, v in x.items()) if isinstance(x, dict) else False

    def exactly_one_idx(self, x, f):
        return sum(1 for i, e in enumerate(x) if f(i, e)) == 1 if isinstance(x, list) else False

    def at(self, x, i):
        if isinstance(x, list) and 0 <= i < len(x):
            return x[i]
        return MISSING

    def idx_lt(self, i, n):
        return i < n

    def min_int(self, a, b):
        return min(a, b)

    def jeq(self, a, b):
        return py_jeq(a, b)

    def re_search(self, p, s):
        try:
            return self.regex(p, s)
        except Exception:
            return False

    def is_multiple(self, x, v):
        if not self.is_num(x) or not self.is_num(v) or v == 0:
            return True
        return (Fraction(x) / Fraction(v)).denominator == 1

    def V(self, sub, x):
        from spec import drafts
        if sub is MISSING or x is MISSING:
            return True
        return drafts.V_concrete_schema(self, sub, x)

    def wf_ref_root(self, x):
        from spec import drafts
        return drafts.V_concrete_schema(self, self.meta_root, x)
