"""Executable reference for *which errors* validation reports and where they say they are (C05, C06).

errors(d, schema, instance) -> list of (keyword, path, schema_path, context) with relative paths as
tuples and context a sorted tuple of the same shape.  Written from the property statements and the
documentation (docs/errors.rst), independent of the implementation; `$ref`-free schemas only.
"""
from spec import drafts
from spec.pyops import PyOps, MISSING


def _v(o, sub, x):
    return bool(o.V(sub, x))


def _pre(errs, path=(), spath=()):
    return [(k, tuple(path) + p, tuple(spath) + sp, ctx) for k, p, sp, ctx in errs]


def errors(d, schema, x, o=None):
    """errors of iter_errors(x, schema): relative to this (sub)schema and this (sub)instance"""
    o = o or PyOps(d)
    if schema is True and d >= 6:
        return []
    if schema is False and d >= 6:
        return [(None, (), (), ())]
    if not isinstance(schema, dict):
        return []
    out = []
    for k, v in schema.items():
        if k not in drafts.VOCAB[d] or k == "$ref":
            continue
        es = keyword_errors(o, d, k, v, x, schema)
        # iter_errors prepends the keyword, except for `if`
        for kw, p, sp, ctx in es:
            out.append((kw if kw is not _SELF else k, p, sp if k == "if" else (k,) + sp, ctx))
    return out


_SELF = object()     # "the keyword itself" (filled in by iter_errors' _set)


def one(ctx=()):
    return [(_SELF, (), (), tuple(sorted(ctx, key=repr)))]


def sub(o, d, s, x, path=(), spath=()):
    return _pre(errors(d, s, x, o), path, spath)


def keyword_errors(o, d, k, v, x, s):
    K = drafts.K[k](o, d, v, x, s)
    single = ("minItems", "maxItems", "minLength", "maxLength", "minProperties", "maxProperties", "pattern", "const", "enum",
              "minimum", "maximum", "exclusiveMinimum", "exclusiveMaximum", "multipleOf", "divisibleBy", "uniqueItems", "not",
              "contains", "format")
    if k in single or (k == "type" and d >= 4):
        return [] if K else one()
    if k == "required":
        return [e for p in v if not (isinstance(x, dict) and p in x) for e in one()] if isinstance(x, dict) else []
    if k == "allOf":
        return [e for i, s2 in enumerate(v) for e in sub(o, d, s2, x, (), (i,))]
    if k == "extends":
        if isinstance(v, dict):
            return sub(o, d, v, x)
        return [e for i, s2 in enumerate(v) for e in sub(o, d, s2, x, (), (i,))]
    if k == "anyOf":
        if K:
            return []
        return one([e for i, s2 in enumerate(v) for e in sub(o, d, s2, x, (), (i,))])
    if k == "oneOf":
        nvalid = sum(1 for s2 in v if _v(o, s2, x))
        if nvalid == 0:
            return one([e for i, s2 in enumerate(v) for e in sub(o, d, s2, x, (), (i,))])
        if nvalid > 1:
            return one()
        return []
    if k == "if":
        if _v(o, v, x):
            return sub(o, d, s["then"], x, (), ("then",)) if "then" in s else []
        return sub(o, d, s["else"], x, (), ("else",)) if "else" in s else []
    if k == "items":
        if not isinstance(x, list):
            return []
        if isinstance(v, dict) or (d >= 6 and isinstance(v, bool)):
            return [e for i, it in enumerate(x) for e in sub(o, d, v, it, (i,), ())]
        return [e for i, (it, s2) in enumerate(zip(x, v)) for e in sub(o, d, s2, it, (i,), (i,))]
    if k == "additionalItems":
        if not isinstance(x, list) or not isinstance(s.get("items"), list):
            return []
        n = len(s["items"])
        if isinstance(v, dict):
            return [e for i in range(n, len(x)) for e in sub(o, d, v, x[i], (i,), ())]
        return [] if (v or len(x) <= n) else one()
    if k == "properties":
        if not isinstance(x, dict):
            return []
        out = []
        for p, s2 in v.items():
            if p in x:
                out += sub(o, d, s2, x[p], (p,), (p,))
            elif d == 3 and isinstance(s2, dict) and s2.get("required", False):
                out.append(("required", (p,), (p, "required"), ()))       # documented exception (C06)
        return out
    if k == "patternProperties":
        if not isinstance(x, dict):
            return []
        return [e for pat, s2 in v.items() for key, val in x.items() if o.re_search(pat, key)
                for e in sub(o, d, s2, val, (key,), (pat,))]
    if k == "propertyNames":
        if not isinstance(x, dict):
            return []
        return [e for key in x for e in sub(o, d, v, key)]
    if k == "additionalProperties":
        if not isinstance(x, dict):
            return []
        props = s.get("properties", {}) if isinstance(s.get("properties", {}), dict) else {}
        pats = s.get("patternProperties", {}) if isinstance(s.get("patternProperties", {}), dict) else {}
        extras = [key for key in x if key not in props and not any(o.re_search(p, key) for p in pats)]
        if isinstance(v, dict):
            return [e for key in extras for e in sub(o, d, v, x[key], (key,), ())]
        return one() if (not v and extras) else []
    if k == "dependencies":
        if not isinstance(x, dict):
            return []
        out = []
        for p, dep in v.items():
            if p not in x:
                continue
            if d == 3:
                if isinstance(dep, dict):
                    out += sub(o, d, dep, x, (), (p,))
                elif isinstance(dep, str):
                    out += [] if dep in x else one()
                else:
                    out += [e for q in dep if q not in x for e in one()]
            else:
                if isinstance(dep, list):
                    out += [e for q in dep if q not in x for e in one()]
                else:
                    out += sub(o, d, dep, x, (), (p,))
        return out
    if k == "type" and d == 3:
        if K:
            return []
        types = [v] if isinstance(v, str) else v
        return one([e for i, t in enumerate(types) if isinstance(t, dict) for e in sub(o, d, t, x, (), (i,))])
    if k == "disallow":
        types = [v] if isinstance(v, str) else v
        return [e for t in types if bool(drafts.V_concrete_schema(o, {"type": [t]}, x)) for e in one()]
    raise KeyError(k)


def normalise(errs):
    return sorted(errs, key=repr)


def observed(error_objects):
    """real ValidationError objects -> the same shape"""
    out = []
    for e in error_objects:
        out.append((e.validator, tuple(e.relative_path), tuple(e.relative_schema_path),
                    tuple(sorted(observed(e.context), key=repr))))
    return out
