"""RFC 6901 JSON Pointer evaluation (spec side of C14), executable."""
import re
from urllib.parse import unquote


class PointerError(Exception):
    pass


_INDEX = re.compile(r"\A(0|[1-9][0-9]*)\Z")


def tokens(pointer):
    """pointer: the JSON Pointer string ('' or starting with '/'), already percent-decoded."""
    if pointer == "":
        return []
    if not pointer.startswith("/"):
        raise PointerError("pointer must be empty or start with '/'")
    return [t.replace("~1", "/").replace("~0", "~") for t in pointer[1:].split("/")]


def walk(doc, toks):
    for t in toks:
        if isinstance(doc, dict):
            if t not in doc:
                raise PointerError("missing member %r" % t)
            doc = doc[t]
        elif isinstance(doc, list):
            if not _INDEX.match(t) or not t.isascii():
                raise PointerError("not an array index: %r" % t)
            i = int(t)
            if i >= len(doc):
                raise PointerError("index out of range")
            doc = doc[i]
        else:
            raise PointerError("scalar has no members")
    return doc


def ptr_eval_py(doc, pointer):
    return walk(doc, tokens(pointer))


def fragment_eval(doc, fragment):
    """URI fragment (percent-encoded JSON pointer, without '#')."""
    return ptr_eval_py(doc, unquote(fragment))
