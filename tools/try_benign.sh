#!/bin/bash
# usage: try_benign.sh <name> <prop>... : apply a benign (behaviour-preserving) patch to /repo, run checks (all must exit 0), undo
N=$1; shift
cd /repo || exit 9
git diff --quiet || { echo "repo dirty"; exit 9; }
git apply /verif/selftest/benign/$N.diff || { echo "$N does not apply"; exit 8; }
cd /verif
for P in "$@"; do
  bin/check $P > /tmp/benign_${N}_$P.log 2>&1; rc=$?
  echo "$N $P exit=$rc $(tail -1 /tmp/benign_${N}_$P.log | cut -c1-120) $(grep '^VIOLATION\|^UNDECIDED\|^CHECKER' /tmp/benign_${N}_$P.log | head -3 | cut -c1-200 | tr '\n' ';')"
done
cd /repo && git checkout -q -- .
