#!/bin/bash
# usage: verify_rebased.sh <out-dir> <id> : confirm a re-created seeded change on the CURRENT /repo HEAD and store it
SRC=$1; ID=$2
WT=$(mktemp -d /var/tmp/seedchk.XXXXXX); rmdir $WT
git -C /repo worktree add -q --detach $WT HEAD || exit 2
cd $WT; mkdir -p out/k; cp $SRC/demo.py out/k/demo.py
/venv/bin/python out/k/demo.py >/dev/null 2>&1; clean=$?
res=ok
git apply $SRC/patch.diff || res="patch-does-not-apply"
if [ "$res" = ok ]; then
  /venv/bin/python out/k/demo.py >/dev/null 2>&1; mut=$?
  tests=$(/venv/bin/python -m pytest -q -p no:cacheprovider --timeout=900 -x 2>&1 | tail -1)
  case "$tests" in *"3210 passed"*) t=pass;; *) t="FAIL($tests)";; esac
  [ $clean -eq 0 ] || res="demo-fails-on-clean($clean)"
  [ $mut -ne 0 ] || res="demo-passes-with-change"
  [ "$t" = pass ] || res="tests:$t"
fi
if [ "$res" = ok ]; then
  cp $SRC/patch.diff /verif/seeded/$ID/patch_rebased.diff
  cp $SRC/demo.py /verif/seeded/$ID/demo_rebased.py
  python3 - "$SRC/meta.json" "/verif/seeded/$ID/meta.json" "$(git -C /repo rev-parse --short HEAD)" <<'PY'
import json,sys
new=json.load(open(sys.argv[1])); old=json.load(open(sys.argv[2]))
old["rebased"]=new.get("rebased",{})
old["rebased"]["confirmed"]={"by":"tools/verify_rebased.sh on /repo HEAD "+sys.argv[3],"full_test_suite_with_change":"3210 passed","demo_with_change":"exit!=0","demo_on_clean_tree":"exit 0"}
old["rebased"]["files"]=["patch_rebased.diff","demo_rebased.py"]
json.dump(old,open(sys.argv[2],"w"),indent=1)
PY
fi
cd /; git -C /repo worktree remove --force $WT
echo "$ID $res"
