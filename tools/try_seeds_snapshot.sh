#!/bin/bash
# run under `vp run --with-repo -- tools/try_seeds_snapshot.sh "<props>" <seed-id>...`
# works on the snapshot copy of /repo ($VP_RUN_REPO) and the snapshot of /verif (cwd); never touches /repo
PROPS=$1; shift
R=${VP_RUN_REPO:?need --with-repo}
HERE=$(pwd)
for P in $PROPS; do bin/check $P --repo $R > base_$P.log 2>&1; echo "BASE $P exit=$? $(tail -1 base_$P.log)"; done
for ID in "$@"; do
  cd $R; git checkout -q -- . 2>/dev/null
  if ! git apply $HERE/seeded/$ID/patch.diff 2>/dev/null; then
    git apply --3way $HERE/seeded/$ID/patch.diff 2>/dev/null || { echo "$ID patch-does-not-apply"; git checkout -q -- .; git reset -q --hard; cd $HERE; continue; }
    git reset -q
  fi
  cd $HERE
  for P in $PROPS; do
    bin/check $P --repo $R > try_${ID}_$P.log 2>&1; rc=$?
    echo "$ID $P exit=$rc $(grep -c '^VIOLATION' try_${ID}_$P.log) violations; $(grep '^VIOLATION\|^UNDECIDED\|^CHECKER' try_${ID}_$P.log | head -3 | cut -c1-200 | tr '\n' ';')"
  done
  cd $R; git checkout -q -- .; cd $HERE
done
