#!/bin/bash
# run every registered quick check, print one line each
cd "$(dirname "$0")/.."
for p in C01 C02 C03 C04 C05 C06 C07 C08 C09 C10 C11 C12 C13 C14 C15 C16 C17 C18 C19 C20; do
  bin/check $p "$@" > /tmp/runall_$p.log 2>&1; rc=$?
  echo "$p exit=$rc $(tail -1 /tmp/runall_$p.log)"
  [ $rc -ne 0 ] && grep '^VIOLATION\|^UNDECIDED\|^CHECKER\|^KNOWN' /tmp/runall_$p.log | head -5 | cut -c1-250
done
