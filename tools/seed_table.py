#!/usr/bin/env python3
"""Collects the per-seed results of tools/try_own.sh / try_scratch.sh logs into seeded/RESULTS.json and prints the
markdown table of DESIGN.md II.5.   usage: seed_table.py <log>...   (later logs override earlier ones)"""
import json
import os
import re
import sys

HERE = os.path.dirname(os.path.dirname(os.path.abspath(__file__)))
RES = os.path.join(HERE, "seeded", "RESULTS.json")


def parse(path):
    m = re.search(r"try_(C\d\d-\d+)_(C\d\d)\.log$", path)
    if not m:
        return None
    sid, chk = m.groups()
    ded, nfi, stand, und = [], [], [], []
    summary = ""
    for l in open(path, errors="replace"):
        l = l.strip()
        if l.startswith("VIOLATION"):
            r = re.search(r"replay=\S*?/(C\d\d-[^ /]+)\.json", l)
            name = r.group(1) if r else l
            if "standin" in name:
                stand.append(name)
            elif l.endswith("no-failing-input-found"):
                nfi.append(name)
            else:
                ded.append(name)
        elif l.startswith("UNDECIDED"):
            r = re.search(r"obligation=(\S+)", l)
            und.append(r.group(1) if r else l)
        elif re.match(r"C\d\d: \d+ obligations", l):
            summary = l
    return sid, chk, {"obligation_with_input": sorted(set(ded)), "obligation_no_input": sorted(set(nfi)), "standin": sorted(set(stand)),
                      "undecided": sorted(set(und)), "summary": summary}


def main():
    data = json.load(open(RES)) if os.path.exists(RES) else {}
    for p in sys.argv[1:]:
        r = parse(p)
        if r:
            sid, chk, d = r
            d["exit"] = 1 if (d["obligation_with_input"] or d["obligation_no_input"] or d["standin"]) else (2 if d["undecided"] else 0)
            data.setdefault(sid, {})[chk] = d
    json.dump(data, open(RES, "w"), indent=1, sort_keys=True)
    print("| seed | check | verdict | obligations failing with a replayed input | obligations failing without input | undecided obligations | bounded stand-in |")
    print("|---|---|---|---|---|---|---|")
    for sid in sorted(data):
        for chk in sorted(data[sid]):
            d = data[sid][chk]
            def short(xs, n=2):
                xs = [re.sub(r"^C\d\d-", "", x) for x in xs]
                return ("; ".join(x[:70] for x in xs[:n]) + (" (+%d)" % (len(xs) - n) if len(xs) > n else "")) or "-"
            verdict = {0: "**missed**", 1: "VIOLATION", 2: "undecided"}[d["exit"]]
            print("| %s | %s | %s | %s | %s | %s | %s |" % (sid, chk, verdict, short(d["obligation_with_input"]), short(d["obligation_no_input"]),
                                                        ("%d" % len(d["undecided"])) if d["undecided"] else "-", short(d["standin"], 1)))


if __name__ == "__main__":
    main()
