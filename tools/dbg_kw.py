import sys, time; sys.path.insert(0,'/verif')
import z3
from contracts import tasks_keywords as tk, core
from pyvc import smt
name, which = sys.argv[1], sys.argv[2] if len(sys.argv) > 2 else None
t=[t for t in tk.keyword_tasks('/repo') if name in t.name][0]
orig = core.Obligation.check
def chk(self, timeout_ms=10000, seed=0):
    r = orig(self, timeout_ms, seed)
    if r != 'discharged' and (which is None or which in self.name):
        print('=====', self.name, r, self.reason)
        npre = int(sys.argv[3]) if len(sys.argv)>3 else 8
        for f in self.pc[npre:]: print('  PC:', f)
        print('  GOAL:', self.goal)
        print('  ALT:', getattr(self,'alt_goal',None))
    return r
core.Obligation.check = chk
r = t.run()
print(r['status'], r.get('detail'))
