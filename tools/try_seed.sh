#!/bin/bash
# usage: try_seed.sh <seed-id> <prop> [<prop>...] : apply seeded change to /repo, run the checks, undo
ID=$1; shift
cd /repo || exit 9
git diff --quiet || { echo "repo dirty"; exit 9; }
if ! git apply $( [ -f /verif/seeded/$ID/patch_rebased.diff ] && echo /verif/seeded/$ID/patch_rebased.diff || echo /verif/seeded/$ID/patch.diff ) 2>/dev/null; then
  git apply --3way /verif/seeded/$ID/patch.diff 2>/dev/null || { echo "$ID patch-does-not-apply"; git checkout -- . ; git reset -q --hard; exit 8; }
  git reset -q   # keep changes in the worktree only
fi
cd /verif
for P in "$@"; do
  bin/check $P > /tmp/try_${ID}_$P.log 2>&1; rc=$?
  echo "$ID $P exit=$rc $(grep -c '^VIOLATION' /tmp/try_${ID}_$P.log) violations; $(grep '^VIOLATION\|^UNDECIDED\|^CHECKER' /tmp/try_${ID}_$P.log | head -3 | cut -c1-220 | tr '\n' ';')"
done
cd /repo && git checkout -q -- . && git status --short | grep -v egg-info
