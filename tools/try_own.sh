#!/bin/bash
# vp run --with-repo -- tools/try_own.sh <seed-id>... : each seed against the check of its own property (+ extra props in $EXTRA)
R=${VP_RUN_REPO:?need --with-repo}
HERE=$(pwd)
export PYVC_CACHE_DIR=${PYVC_CACHE_DIR:-/verif/.cache}     # content-keyed, so sharing it between snapshots is safe
for ID in "$@"; do
  P=${ID%%-*}
  cd $R; git checkout -q -- . 2>/dev/null; git reset -q --hard
  PATCH=$HERE/seeded/$ID/patch.diff
  [ -f $HERE/seeded/$ID/patch_rebased.diff ] && PATCH=$HERE/seeded/$ID/patch_rebased.diff
  if ! git apply $PATCH 2>/dev/null; then echo "$ID patch-does-not-apply"; cd $HERE; continue; fi
  cd $HERE
  for Q in $P $EXTRA; do
    bin/check $Q --repo $R > try_${ID}_$Q.log 2>&1; rc=$?
    echo "$ID $Q exit=$rc viol=$(grep -c '^VIOLATION' try_${ID}_$Q.log) nfi=$(grep -c 'no-failing-input-found' try_${ID}_$Q.log) undec=$(grep -c '^UNDECIDED' try_${ID}_$Q.log) | $(grep '^VIOLATION\|^UNDECIDED\|^CHECKER' try_${ID}_$Q.log | head -2 | cut -c1-160 | tr '\n' ';')"
  done
  cd $R; git checkout -q -- .; cd $HERE
done
