#!/bin/bash
# usage: verify_seed.sh <seed-out-dir> <name>   -> copies into /verif/seeded/<name> if confirmed
set -u
SRC=$1; NAME=$2
WT=$(mktemp -d /var/tmp/seedchk.XXXXXX)
rmdir $WT
git -C /repo worktree add -q --detach $WT HEAD || exit 2
cd $WT
res="ok"
mkdir -p out/k; cp $SRC/demo.py out/k/demo.py
/venv/bin/python out/k/demo.py >/dev/null 2>&1; clean=$?
git apply $SRC/patch.diff || res="patch-does-not-apply"
if [ "$res" = ok ]; then
  /venv/bin/python out/k/demo.py > $WT/demo_out.txt 2>&1; mut=$?
  tests=$(/venv/bin/python -m pytest -q -p no:cacheprovider --timeout=900 -x 2>&1 | tail -1)
  case "$tests" in *"3210 passed"*) t=pass;; *) t="FAIL($tests)";; esac
  [ $clean -eq 0 ] || res="demo-fails-on-clean($clean)"
  [ $mut -ne 0 ] || res="demo-passes-with-change"
  [ "$t" = pass ] || res="tests:$t"
fi
if [ "$res" = ok ]; then
  mkdir -p /verif/seeded/$NAME
  cp $SRC/patch.diff $SRC/demo.py /verif/seeded/$NAME/
  python3 - "$SRC/meta.json" "/verif/seeded/$NAME/meta.json" "$NAME" <<'PY'
import json,sys
try: m=json.load(open(sys.argv[1]))
except Exception: m={}
m["id"]=sys.argv[3]
m["confirmed"]={"by":"tools/verify_seed.sh in a scratch worktree","full_test_suite_with_change":"3210 passed","demo_with_change":"exit!=0","demo_on_clean_tree":"exit 0"}
json.dump(m,open(sys.argv[2],"w"),indent=1)
PY
fi
cd /; git -C /repo worktree remove --force $WT
echo "$NAME $res"
