#!/bin/bash
# run every registered thorough check; evidence goes to a scratch dir so the committed (quick) evidence is not replaced
cd "$(dirname "$0")/.."
E=$(mktemp -d /tmp/ev_thorough_XXXX)
for p in C01 C02 C03 C04 C05 C06 C07 C08 C09 C10 C11 C12 C13 C14 C15 C16 C17 C18 C19 C20; do
  s=$(date +%s)
  VERIF_EVIDENCE_DIR=$E bin/check $p --tier thorough > /tmp/runall_thorough_$p.log 2>&1; rc=$?
  echo "$p exit=$rc $(( $(date +%s) - s ))s $(tail -1 /tmp/runall_thorough_$p.log)"
  [ $rc -ne 0 ] && grep '^VIOLATION\|^UNDECIDED\|^CHECKER\|^KNOWN' /tmp/runall_thorough_$p.log | head -5 | cut -c1-250
done
rm -rf $E
