import sys, json, time
sys.path.insert(0, '/verif')
from contracts.tasks_core import core_tasks
from pyvc import driver
if __name__ == '__main__':
    sel = sys.argv[1:]
    tasks = core_tasks('/repo')
    if sel: tasks = [t for t in tasks if any(s in t.name for s in sel)]
    t0 = time.time()
    results = driver.run_tasks(tasks, '/repo', use_cache=False)
    for r in results:
        summ = {}
        for o in r['obligations']:
            summ[(o['kind'], o['status'])] = summ.get((o['kind'], o['status']), 0) + 1
        print(r['task'], r['status'], 'paths=%d' % r.get('paths', 0), 'wall=%.1fs' % r['wall_s'], summ, r.get('detail', '')[:1500])
        for o in r['obligations']:
            if o['status'] != 'discharged':
                print('    ', o['name'], o['status'], o.get('reason', ''))
    print('total wall %.1f' % (time.time() - t0))
