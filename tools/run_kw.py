import sys, json, time
sys.path.insert(0, '/verif')
from contracts.tasks_keywords import keyword_tasks
import multiprocessing as mp

def run(t):
    return t.run()

if __name__ == '__main__':
    root = '/repo'
    sel = sys.argv[1:] 
    tasks = keyword_tasks(root)
    if sel:
        tasks = [t for t in tasks if any(s in t.name for s in sel)]
    t0 = time.time()
    with mp.Pool(16) as p:
        results = p.map(run, tasks, chunksize=1)
    for r in results:
        obs = r['obligations']
        summ = {}
        for o in obs:
            summ[(o['kind'], o['status'])] = summ.get((o['kind'], o['status']), 0) + 1
        print(r['task'], r['status'], 'paths=%d' % r.get('paths', 0), 'wall=%.1fs' % r['wall_s'], dict(summ), r.get('detail', '')[:300])
        for o in obs:
            if o['status'] != 'discharged':
                print('    ', o['name'], o['status'], o.get('reason', ''), json.dumps(o.get('model'))[:300])
    print('total wall %.1f' % (time.time() - t0))
