#!/bin/bash
# usage: try_scratch.sh <seed-id|path-to-diff> <prop> [<prop>...]
# applies a change to a scratch copy of /repo (never to /repo), runs the checks with --repo, evidence to the scratch dir, removes the copy
ID=$1; shift
S=$(mktemp -d /tmp/scr_XXXXXX)
git -C /repo worktree add -q --detach $S/repo HEAD || exit 9
P=$ID
[ -f "$P" ] && P=$(realpath "$P")
[ -f "$P" ] || { P=/verif/seeded/$ID/patch.diff; [ -f /verif/seeded/$ID/patch_rebased.diff ] && P=/verif/seeded/$ID/patch_rebased.diff; }
if ! git -C $S/repo apply $P 2>/dev/null; then echo "$ID patch-does-not-apply"; git -C /repo worktree remove --force $S/repo; rm -rf $S; exit 8; fi
cd /verif
TAG=$(basename $ID .diff)
for Q in "$@"; do
  VERIF_EVIDENCE_DIR=$S/evidence bin/check $Q --repo $S/repo > /tmp/try_${TAG}_$Q.log 2>&1; rc=$?
  echo "$TAG $Q exit=$rc viol=$(grep -c '^VIOLATION' /tmp/try_${TAG}_$Q.log) nfi=$(grep -c 'no-failing-input-found' /tmp/try_${TAG}_$Q.log) undec=$(grep -c '^UNDECIDED' /tmp/try_${TAG}_$Q.log) | $(grep '^VIOLATION\|^UNDECIDED\|^CHECKER' /tmp/try_${TAG}_$Q.log | head -3 | cut -c1-200 | tr '\n' ';')"
done
git -C /repo worktree remove --force $S/repo; rm -rf $S; git -C /repo worktree prune
