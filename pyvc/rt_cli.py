"""Run-time helper (real code): the command line on materialised files (C19).  Bounded stand-in / replay."""
import io
import itertools
import json
import os
import shutil
import sys
import tempfile
import warnings


def load(root):
    sys.path.insert(0, root)
    import jsonschema
    from jsonschema import cli, validators
    assert jsonschema.__file__.startswith(root)
    return jsonschema, cli, validators


SCHEMAS = {"valid": {"type": "object", "properties": {"a": {"type": "integer"}, "b": {"type": "string"}}, "required": ["a"],
                     "patternProperties": {"^x": {"type": "integer"}}},
           "invalid": {"type": 12}, "missing": None, "notjson": "{nope"}
INSTANCES = {"valid": {"a": 1, "b": "x"}, "invalid1": {"a": "s"}, "invalid2": {"a": "s", "b": 5}, "invalid3": [1], "missing": None, "notjson": "[1,",
             # two errors with the same message from the same subschema at different places of the instance
             "invalid4": {"a": 1, "x1": "s", "x2": "s"}}


def scenario(mods, schema_state, inst_states, output, error_format=None, explicit=None, stdin_state=None, base_uri=False):
    jsonschema, cli, validators = mods
    d = tempfile.mkdtemp(prefix="pyvc_cli_", dir=os.environ.get("PYVC_SCRATCH") or None)
    try:
        sp = os.path.join(d, "schema.json")
        if schema_state == "notjson":
            open(sp, "w").write(SCHEMAS["notjson"])
        elif schema_state != "missing":
            json.dump(SCHEMAS[schema_state], open(sp, "w"))
        args = []
        paths = []
        for i, stt in enumerate(inst_states):
            ip = os.path.join(d, "i%d.json" % i)
            if stt == "notjson":
                open(ip, "w").write(INSTANCES["notjson"])
            elif stt != "missing":
                json.dump(INSTANCES[stt], open(ip, "w"))
            args += ["-i", ip]
            paths.append(ip)
        if output:
            args += ["--output", output]
        if error_format is not None:
            args += ["--error-format", error_format]
        if explicit:
            args += ["--validator", explicit]
        if base_uri:
            args += ["--base-uri", "file://" + d + "/"]
        args.append(sp)
        stdin = io.StringIO(INSTANCES["notjson"] if stdin_state == "notjson" else json.dumps(INSTANCES.get(stdin_state or "valid")))
        out, err = io.StringIO(), io.StringIO()
        with warnings.catch_warnings():
            warnings.simplefilter("ignore")
            try:
                code = cli.run(cli.parse_args(args), stdout=out, stderr=err, stdin=stdin)
            except SystemExit as e:
                return {"code": "SystemExit %s" % e.code}
            except Exception as e:      # noqa
                return {"code": "EXC %s" % type(e).__name__}
        return {"code": code, "out": out.getvalue(), "err": err.getvalue(), "paths": paths, "dir": d}
    finally:
        shutil.rmtree(d, ignore_errors=True)


def expected_errors(mods, inst_state):
    jsonschema, cli, validators = mods
    if inst_state in ("valid", "missing", "notjson"):
        return 0
    return len(list(validators.Draft7Validator(SCHEMAS["valid"]).iter_errors(INSTANCES[inst_state])))


def check(mods, schema_state, inst_states, output, stdin_state=None, error_format=None, explicit=None):
    r = scenario(mods, schema_state, inst_states, output, error_format=error_format, explicit=explicit, stdin_state=stdin_state)
    code = r["code"]
    if not isinstance(code, int) or isinstance(code, bool) and False:
        return "run ended with %r" % (code,)
    effective = list(inst_states) if inst_states else [stdin_state or "valid"]
    all_ok = schema_state == "valid" and all(s == "valid" for s in effective)
    if (code == 0) != all_ok:
        return "exit status %r, expected %s" % (code, "0" if all_ok else "non-zero")
    out, err = r["out"], r["err"]
    pretty = output == "pretty"
    if schema_state != "valid":
        if out:
            return "stdout written although the schema is unusable"
        if error_format == "" and schema_state == "invalid" and not pretty:
            return None      # the SchemaError is rendered with the (empty) error format: nothing to see, status non-zero
        return None if err else "no diagnostic for an unusable schema"
    n_valid = sum(1 for s in effective if s == "valid")
    if pretty:
        if out.count("===[SUCCESS]===") != n_valid:
            return "pretty mode: %d success headers for %d valid instances" % (out.count("===[SUCCESS]==="), n_valid)
    elif out:
        return "plain mode wrote to stdout: %r" % out[:60]
    n_err = sum(expected_errors(mods, s) for s in effective)
    n_unreadable = sum(1 for s in effective if s in ("missing", "notjson"))
    if error_format == "" and not pretty and n_unreadable == 0 and err:
        return "an empty --error-format must render validation errors as nothing, stderr has %r" % err[:60]
    if error_format == "E\n" and not pretty:
        if err.count("E\n") != n_err:
            return "%d error lines for %d library errors" % (err.count("E\n"), n_err)
    if pretty:
        if err.count("===[ValidationError]===") != n_err:
            return "pretty mode: %d ValidationError blocks for %d library errors" % (err.count("===[ValidationError]==="), n_err)
        diag = err.count("===[FileNotFoundError]===") + err.count("===[JSONDecodeError]===")
        if diag != n_unreadable:
            return "pretty mode: %d diagnostics for %d unreadable files" % (diag, n_unreadable)
    else:
        diag = err.count("does not exist.") + err.count("Failed to parse")
        if diag != n_unreadable:
            return "plain mode: %d diagnostics for %d unreadable files" % (diag, n_unreadable)
    # every listed instance processed: each path (or its content) leaves a trace unless it is valid in plain mode
    return None


def search(job):
    mods = load(job["root"])
    out, tried = [], 0
    states = ["valid", "invalid1", "invalid2", "invalid4", "missing", "notjson"]
    maxn = job.get("maxn", 3)
    for schema_state in ("valid", "invalid", "missing", "notjson"):
        lists = [()] + [c for n in range(1, maxn + 1) for c in itertools.product(states, repeat=n)]
        if schema_state != "valid":
            lists = [(), ("valid",), ("invalid1", "valid")]
        for insts in lists:
            for output, ef in (("plain", "E\n"), ("plain", ""), ("pretty", None), (None, None)):
                stdin_states = ["valid", "invalid1", "notjson"] if not insts else [None]
                for ss in stdin_states:
                    tried += 1
                    p = check(mods, schema_state, insts, output, stdin_state=ss, error_format=ef)
                    if p:
                        out.append({"kind": "C", "schema": schema_state, "instances": list(insts), "output": output, "error_format": ef, "stdin": ss, "problem": p})
                        if len(out) >= job.get("limit", 3):
                            return {"failures": out, "tried": tried}
    # the real process boundary: `python -m jsonschema` exits with the status run() computed
    import subprocess
    d = tempfile.mkdtemp(prefix="pyvc_cli_", dir=os.environ.get("PYVC_SCRATCH") or None)
    try:
        sp, good, bad = os.path.join(d, "s.json"), os.path.join(d, "good.json"), os.path.join(d, "bad.json")
        json.dump(SCHEMAS["valid"], open(sp, "w"))
        json.dump(INSTANCES["valid"], open(good, "w"))
        json.dump(INSTANCES["invalid1"], open(bad, "w"))
        env = dict(os.environ, PYTHONPATH=job["root"], PYTHONDONTWRITEBYTECODE="1")
        for argv, want_zero in ((["-i", good, sp], True), (["-i", bad, sp], False), (["-i", good, "-i", bad, sp], False), (["-i", good, os.path.join(d, "nope.json")], False)):
            tried += 1
            try:
                pr = subprocess.run([sys.executable, "-W", "ignore", "-m", "jsonschema"] + argv, capture_output=True, text=True, env=env, cwd=job["root"], timeout=120)
                code = pr.returncode
            except Exception as e:      # noqa
                code = "EXC %s" % type(e).__name__
            if (code == 0) != want_zero:
                out.append({"kind": "C", "schema": "valid", "instances": [os.path.basename(a) for a in argv if a.endswith(".json")][:-1], "process": True,
                            "problem": "python -m jsonschema exited with %r, expected %s" % (code, "0" if want_zero else "non-zero")})
    finally:
        shutil.rmtree(d, ignore_errors=True)
    # explicit --validator: the schema is checked with that class
    jsonschema, cli, validators = mods
    for vname, schema, want_ok in (("Draft3Validator", {"required": ["a"]}, False), ("Draft4Validator", {"exclusiveMinimum": 5}, False),
                                   ("Draft7Validator", {"exclusiveMinimum": 5}, True)):
        tried += 1
        SCHEMAS["tmp"] = schema
        INSTANCES["tmpi"] = 7
        r = scenario(mods, "tmp", ["tmpi"], "plain", explicit=vname)
        if (r["code"] == 0) != want_ok:
            out.append({"kind": "C", "schema": schema, "instances": [7], "validator": vname, "problem": "exit %r with --validator %s, check_schema of that class says %s" % (r["code"], vname, "ok" if want_ok else "invalid schema")})
    # --base-uri with a local fragment reference and a relative file reference
    tried += 1
    SCHEMAS["tmp"] = {"definitions": {"n": {"type": "integer"}}, "properties": {"a": {"$ref": "#/definitions/n"}}}
    INSTANCES["tmpi"] = {"a": 1}
    INSTANCES["tmpj"] = {"a": "s"}
    r = scenario(mods, "tmp", ["tmpi", "tmpj", "tmpi"], "pretty", base_uri=True)
    if r["code"] != 1 or r.get("out", "").count("===[SUCCESS]===") != 2:
        out.append({"kind": "C", "schema": SCHEMAS["tmp"], "instances": ["valid", "invalid", "valid"], "base_uri": True, "problem": "--base-uri with a local fragment reference: exit %r, %d success headers" % (r["code"], r.get("out", "").count("===[SUCCESS]==="))})
    return {"failures": out[:job.get("limit", 3)], "tried": tried}


def replay(job):
    r = search(job)
    if r["failures"]:
        return {"status": "fails", "failure": r["failures"][0]}
    return {"status": "agrees"}


if __name__ == "__main__":
    job = json.load(sys.stdin)
    json.dump({"search": search, "replay": replay}[job["cmd"]](job), sys.stdout, default=str)
