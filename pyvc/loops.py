"""Loop handling: unrolling of concrete iterables, flat-map summarisation of loops over symbolic
containers (with early exit), flat-maps over result sequences, comprehension desugaring."""
import ast

import z3

from . import smt
from .values import *   # noqa
from .interp import Raised, assume, branch, truth, lift, State


class IterSpec:
    """Description of an iterable.
    concrete: list of values (unrolled), or
    n/elem: symbolic length and element function of an index term, or
    seq: a Seq expression whose leaves are the elements."""

    def __init__(self, n=None, elem=None, concrete=None, seq=None, unordered=False, iterobj=None, start=None):
        self.n, self.elem, self.concrete, self.seq, self.unordered = n, elem, concrete, seq, unordered
        self.iterobj = iterobj      # (oid) of a shared iterator object whose position must be advanced
        self.start = start          # z3 Int: first index (shared iterator resumed)


def loop_ordinal(unit, node):
    """ordinal of a for/while statement among the loops of its function, in source order"""
    import ast as _ast
    loops = []
    stack = list(reversed(unit.node.body))
    while stack:
        n = stack.pop()
        if isinstance(n, (_ast.For, _ast.While)):
            loops.append(n)
        if isinstance(n, (_ast.FunctionDef, _ast.Lambda, _ast.ClassDef)):
            continue
        kids = [c for c in _ast.iter_child_nodes(n) if isinstance(c, _ast.stmt) or isinstance(c, _ast.ExceptHandler)]
        stack.extend(reversed(kids))
    loops.sort(key=lambda x: (x.lineno, x.col_offset))
    for i, l in enumerate(loops):
        if l is node:
            return i
    return None


def run_for(I, node, st, spec):
    invs = I.ctx.config.get("loop_invs")
    if invs and st.unit is not None:
        o = loop_ordinal(st.unit, node)
        inv = invs.get((st.unit.key, o))
        if inv is not None and spec.concrete is None and spec.seq is None:
            return _with_invariant(I, node, st, spec, inv, o)
    if spec.concrete is not None:
        return _unroll(I, node, st, spec.concrete)
    if spec.seq is not None:
        return _over_seq(I, node, st, spec.seq)
    return _summarise(I, node, st, spec)


def _unroll(I, node, st, items):
    outs = []
    cur = [st]
    for item in items:
        nxt = []
        for s in cur:
            for s1, c1 in I.assign(node.target, item, s):
                if c1[0] != "next":
                    outs.append((s1, c1))
                    continue
                for s2, ctl in I.exec_block(node.body, s1):
                    if ctl[0] in ("next", "continue"):
                        nxt.append(s2)
                    elif ctl[0] == "break":
                        outs.append((s2, ("next", None)))
                    else:
                        outs.append((s2, ctl))
        cur = nxt
    for s in cur:
        if node.orelse:
            outs.extend(I.exec_block(node.orelse, s))
        else:
            outs.append((s, ("next", None)))
    return outs


def _heap_lists(heap):
    return {k: v for k, v in heap.items() if isinstance(v, dict) and "parts" in v}


def _same(a, b):
    if a is b:
        return True
    if isinstance(a, SV) and isinstance(b, SV):
        return a.t.eq(b.t)
    if isinstance(a, SB) and isinstance(b, SB):
        return a.f.eq(b.f)
    if isinstance(a, (SInt, SStr)) and type(a) is type(b):
        return a.t.eq(b.t)
    if isinstance(a, (ListObj, ObjVal)) and type(a) is type(b):
        return a.oid == b.oid
    if isinstance(a, PyTuple) and isinstance(b, PyTuple) and len(a.items) == len(b.items):
        return all(_same(x, y) for x, y in zip(a.items, b.items))
    if isinstance(a, FuncRef) and isinstance(b, FuncRef):
        return a.key == b.key
    return False


def _delta(I, st0, s, base_pc, base_out, ctlkind, allow_carried=()):
    """What one body execution changed relative to the loop-entry state."""
    lem = s.ghost.get("lemma_ids", frozenset())
    d = {"conds": [c for c in s.pc[base_pc:] if c.get_id() not in lem], "out": s.out[base_out:], "lists": {}, "carried": {}, "locals": {},
         "defs": [x for x in s.ghost.get("defs", ()) if x not in st0.ghost.get("defs", ())]}
    if s.out[:base_out] != st0.out[:base_out]:
        raise OutOfSubset("output prefix changed inside loop")
    for k, v in s.heap.items():
        old = st0.heap.get(k)
        if old is v:
            continue
        if isinstance(v, dict) and "parts" in v:
            if old is None:
                continue      # list allocated inside the iteration: local
            if v["parts"][:len(old["parts"])] != old["parts"]:
                raise OutOfSubset("list mutated other than by appending inside loop")
            d["lists"][k] = v["parts"][len(old["parts"]):]
        elif old is None and not isinstance(k, tuple):
            continue
        elif isinstance(k, tuple) and old is not None and _same(old, v):
            continue
        else:
            d["carried"][("heap", k)] = v
    for name, v in s.env.items():
        if name in st0.env:
            if not _same(st0.env[name], v):
                d["carried"][("env", name)] = v
        else:
            d["locals"][name] = v
    for gk, gv in s.ghost.items():
        if gk in ("lemma_ids", "defs") or gk.endswith("_writes") or gk in ("events", "warned"):
            continue      # ghost logs are write-only: they never influence control flow
        if st0.ghost.get(gk) is not gv and st0.ghost.get(gk) != gv:
            d["carried"][("ghost", gk)] = gv
    return d


def _conj(conds):
    conds = list(conds)
    if not conds:
        return z3.BoolVal(True)
    return z3.And(conds) if len(conds) > 1 else conds[0]


def _summarise(I, node, st, spec):
    ctx = I.ctx
    i = smt.fresh("i", smt.I)
    lo = spec.start if spec.start is not None else z3.IntVal(0)
    n = spec.n
    rng = z3.And(i >= lo, i < n)
    results = []
    s_in = st.fork()
    s_in.pc.append(rng)
    body_outs = []
    if ctx.feasible(s_in.pc):
        s_in.loopvars = s_in.loopvars + (i,)
        base_pc, base_out = len(s_in.pc), len(s_in.out)
        elem = spec.elem(i)
        for s1, c1 in I.assign(node.target, elem, s_in):
            if c1[0] != "next":
                body_outs.append((s1, c1))
            else:
                body_outs.extend(I.exec_block(node.body, s1))
    else:
        base_pc, base_out = len(s_in.pc), len(s_in.out)
    # entry env for comparison must include the loop target as "local"
    normal, exits = [], []
    for s, ctl in body_outs:
        d = _delta(I, st, s, base_pc, base_out, ctl[0])
        d["state"], d["ctl"] = s, ctl
        # loop targets are locals
        for t in _target_names(node.target):
            d["carried"].pop(("env", t), None)
        if ctl[0] in ("next", "continue"):
            if d["carried"]:
                raise OutOfSubset("loop-carried state %s in %s (needs an invariant)" % (sorted(map(str, d["carried"])), st.unit.key))
            normal.append(d)
        else:
            exits.append(d)
    stop = z3.Or([_conj(d["conds"]) for d in exits]) if exits else None
    normal_alt = _alt([( _conj(d["conds"]), cat(*d["out"])) for d in normal])
    list_keys = set()
    for d in normal:
        list_keys.update(d["lists"].keys())

    all_defs = []
    for d in normal + exits:
        for f, lv in d["defs"]:
            if not any(f.eq(g) for g, _ in all_defs):
                all_defs.append((f, lv))

    def apply_defs(s):
        from .interp import add_lemma
        for f, lv in all_defs:
            q = z3.ForAll([i], f)
            add_lemma(s, q)
            rest = tuple(v for v in lv if not v.eq(i))
            s.ghost["defs"] = s.ghost.get("defs", ()) + ((q, rest),)

    def apply_normal(s, upto):
        """Append the effect of iterations lo..upto-1 (all normal) to state s."""
        apply_defs(s)
        if not isinstance(normal_alt, Nil):
            s.out = s.out + (For(i, upto, normal_alt, spec.unordered, lo),)
        for k in list_keys:
            alt = _alt([(_conj(d["conds"]), cat(*d["lists"].get(k, ()))) for d in normal])
            old = s.heap[k]
            s.heap[k] = dict(old, parts=old["parts"] + (For(i, upto, alt, spec.unordered, lo),), items=None)

    # Case A: the loop runs to exhaustion
    sA = st.fork()
    if stop is not None:
        sA.pc.append(z3.ForAll([i], z3.Implies(z3.And(i >= lo, i < n), z3.Not(stop))))
    if stop is None or ctx.feasible(sA.pc):
        apply_normal(sA, n)
        for t in _target_names(node.target):
            sA.env[t] = Undefined(t)
        for d in normal:
            for name in d["locals"]:
                if name not in sA.env:
                    sA.env[name] = Undefined(name)
        if spec.iterobj is not None:
            sA.heap[spec.iterobj] = dict(sA.heap[spec.iterobj], pos=n)
        if node.orelse:
            results.extend(I.exec_block(node.orelse, sA))
        else:
            results.append((sA, ("next", None)))
    # Case B: exit at iteration j
    for d in exits:
        j = smt.fresh("j", smt.I)
        pairs = [(i, j)]
        sB = st.fork()
        sB.pc.append(z3.And(j >= lo, j < n))
        sB.pc.append(z3.ForAll([i], z3.Implies(z3.And(i >= lo, i < j), z3.Not(stop))))
        for c in d["conds"]:
            sB.pc.append(subst(c, pairs))
        if not ctx.feasible(sB.pc):
            continue
        apply_normal(sB, j)
        sB.out = sB.out + tuple(subst(p, pairs) for p in d["out"])
        for k, parts in d["lists"].items():
            old = sB.heap[k]
            sB.heap[k] = dict(old, parts=old["parts"] + tuple(subst(p, pairs) for p in parts), items=None)
        s_exit = d["state"]
        for k, v in s_exit.heap.items():
            if k not in st.heap:
                sB.heap[k] = subst(v, pairs) if not isinstance(v, dict) else dict(v, parts=tuple(subst(p, pairs) for p in v.get("parts", ())))
        for (kind_, name), v in d["carried"].items():
            if kind_ == "env":
                sB.env[name] = subst(v, pairs)
            elif kind_ == "heap":
                sB.heap[name] = subst(v, pairs)
            else:
                sB.ghost[name] = subst(v, pairs)
        for name, v in d["locals"].items():
            sB.env[name] = subst(v, pairs)
        for t in _target_names(node.target):
            if t in s_exit.env:
                sB.env[t] = subst(s_exit.env[t], pairs)
        if spec.iterobj is not None:
            sB.heap[spec.iterobj] = dict(sB.heap[spec.iterobj], pos=j + 1)
        ctl = d["ctl"]
        if ctl[0] == "break":
            results.append((sB, ("next", None)))
        else:
            results.append((sB, (ctl[0], subst(ctl[1], pairs))))
    return results


def _shift(seq, i, lo):
    return seq


def _alt(cases):
    cases = [(c, b) for c, b in cases]
    if not cases:
        return NIL
    if all(isinstance(b, Nil) for _, b in cases):
        return NIL
    if len(cases) == 1 and z3.is_true(z3.simplify(cases[0][0])):
        return cases[0][1]
    return Alt(cases)


def _target_names(t):
    if isinstance(t, ast.Name):
        return [t.id]
    if isinstance(t, (ast.Tuple, ast.List)):
        r = []
        for e in t.elts:
            r.extend(_target_names(e))
        return r
    return []


# ---------------------------------------------------------------------------
# iteration over a Seq expression (result of a generator): push the body down to the leaves

def _first_exit(I, node, st, seq):
    """`for x in <Gen>: <body that always leaves the loop>`: runs at most one iteration."""
    ctx = I.ctx
    emp = seq_empty(seq)
    outs = []
    for s, nonempty in branch(ctx, st, [(z3.Not(emp), True), (emp, False)]):
        if not nonempty:
            outs.extend(I.exec_block(node.orelse, s) if node.orelse else [(s, ("next", None))])
            continue
        oid = ctx.new_oid()
        s.heap[oid] = ErrVal(base=ErrElem(seq, first=True))
        for s1, c1 in I.assign(node.target, ErrRef(oid), s):
            for s2, ctl in I.exec_block(node.body, s1):
                if ctl[0] in ("next", "continue"):
                    return None
                if ctl[0] == "break":
                    outs.append((s2, ("next", None)))
                else:
                    if ctl[0] == "raise" and isinstance(ctl[1], ErrRef):
                        ctl = ("raise", s2.heap[ctl[1].oid])
                    outs.append((s2, ctl))
    return outs


def _over_seq(I, node, st, seq):
    """for x in <seq>: body  ==  seq with every leaf replaced by body's output for that leaf."""
    ctx = I.ctx
    list_deltas = {}
    x_exits = []
    const_sets, const_vals = {}, {}
    if isinstance(seq, Gen) and not ctx.config.get("x_mode") and any(isinstance(n, (ast.Raise, ast.Return, ast.Break)) for n in ast.walk(ast.Module(body=node.body, type_ignores=[]))):
        r = _first_exit(I, node, st, seq)
        if r is not None:
            return r

    def at_leaf(val, extra_pc, loopvars):
        s = st.fork()
        s.pc.extend(extra_pc)
        s.loopvars = s.loopvars + tuple(loopvars)
        if isinstance(val, tuple) and val[0] == "newerr":
            oid = ctx.new_oid()
            s.heap[oid] = val[1]
            val = ErrRef(oid)
        elif isinstance(val, ErrVal):
            oid = ctx.new_oid()
            s.heap[oid] = val
            val = ErrRef(oid)
        base_pc, base_out = len(s.pc), len(s.out)
        cases = []
        lcases = {}
        for s1, c1 in I.assign(node.target, val, s):
            if c1[0] != "next":
                raise OutOfSubset("exception while binding loop target over a sequence")
            for s2, ctl in I.exec_block(node.body, s1):
                if ctl[0] not in ("next", "continue"):
                    if ctx.config.get("x_mode"):
                        # exit-path analysis: an exit from some iteration; only ghost state matters
                        x_exits.append((s2, ctl))
                        continue
                    raise OutOfSubset("early exit (%s) from a loop over a generator result in %s" % (ctl[0], st.unit.key))
                d = _delta(I, st, s2, base_pc, base_out, ctl[0])
                for t in _target_names(node.target):
                    d["carried"].pop(("env", t), None)
                for key_, v_ in list(d["carried"].items()):
                    # `flag = True` in every iteration: after the loop the flag is that constant iff the
                    # sequence was non-empty (recorded, applied below)
                    if key_[0] == "env" and isinstance(v_, SV) and v_.known and isinstance(v_.conc, (bool, int, str, type(None))):
                        const_sets.setdefault(key_[1], set()).add(repr(v_.conc))
                        const_vals[key_[1]] = v_
                        d["carried"].pop(key_)
                if d["carried"]:
                    raise OutOfSubset("loop-carried state %s in loop over a sequence" % (sorted(map(str, d["carried"])),))
                cases.append((_conj(d["conds"]), cat(*d["out"])))
                for k, parts in d["lists"].items():
                    lcases.setdefault(k, []).append((_conj(d["conds"]), cat(*parts)))
        return _alt(cases), {k: _alt(v) for k, v in lcases.items()}

    def walk(sq, extra_pc, loopvars):
        """returns (out_seq, {listoid: seq})"""
        if isinstance(sq, Nil):
            return NIL, {}
        if isinstance(sq, One):
            return at_leaf(sq.val, extra_pc, loopvars)
        if isinstance(sq, Cat):
            outs, ls = [], {}
            for p in sq.parts:
                o, l = walk(p, extra_pc, loopvars)
                outs.append(o)
                for k, v in l.items():
                    ls.setdefault(k, []).append(v)
            return cat(*outs), {k: cat(*v) for k, v in ls.items()}
        if isinstance(sq, Alt):
            cs, ls = [], {}
            for c, b in sq.cases:
                if not ctx.feasible(st.pc + list(extra_pc) + [c]):
                    continue
                o, l = walk(b, list(extra_pc) + [c], loopvars)
                cs.append((c, o))
                for k, v in l.items():
                    ls.setdefault(k, []).append((c, v))
            return _alt(cs), {k: _alt(v) for k, v in ls.items()}
        if isinstance(sq, For):
            rng = sq.rng()
            if not ctx.feasible(st.pc + list(extra_pc) + [rng]):
                return NIL, {}
            o, l = walk(sq.body, list(extra_pc) + [rng], list(loopvars) + [sq.ivar])
            return (NIL if isinstance(o, Nil) else For(sq.ivar, sq.n, o, sq.unordered, sq.lo)), \
                   {k: For(sq.ivar, sq.n, v, sq.unordered, sq.lo) for k, v in l.items() if not isinstance(v, Nil)}
        if isinstance(sq, (Gen, ForErr)):
            elem = ("newerr", ErrVal(base=ErrElem(sq)))
            o, l = at_leaf(elem, list(extra_pc) + [z3.Not(seq_empty(sq))] if _emptiable(sq) else extra_pc, loopvars)
            return (NIL if isinstance(o, Nil) else ForErr(sq, o)), \
                   {k: ForErr(sq, v) for k, v in l.items() if not isinstance(v, Nil)}
        raise OutOfSubset("iteration over %r" % (sq,))

    out, lists = walk(seq, [], [])
    s = st.fork()
    if not isinstance(out, Nil):
        s.out = s.out + (out,)
    for k, v in lists.items():
        if not isinstance(v, Nil):
            old = s.heap[k]
            s.heap[k] = dict(old, parts=old["parts"] + (v,), items=None)
    for t in _target_names(node.target):
        s.env[t] = Undefined(t)
    if const_vals:
        if any(len(v) != 1 for v in const_sets.values()) or not _emptiable(seq) or not seq_never_empty_body_ok(out):
            raise OutOfSubset("loop-carried flags with several values in a loop over a sequence")
        emp = seq_empty(seq)
        from .interp import to_sv
        for name, v in const_vals.items():
            old = s.env.get(name)
            if not isinstance(old, SV):
                raise OutOfSubset("loop-carried flag %s" % name)
            s.env[name] = SV(z3.If(emp, old.t, v.t))
    res = I.exec_block(node.orelse, s) if node.orelse else [(s, ("next", None))]
    for s2, ctl in x_exits:
        res.append((s2, ("next", None) if ctl[0] == "break" else ctl))
    return res


def seq_never_empty_body_ok(out):
    return True


def _emptiable(sq):
    try:
        seq_empty(sq)
        return True
    except OutOfSubset:
        return False


# ---------------------------------------------------------------------------
# comprehensions and generator expressions as synthetic loops

def _comp_loop(gen_node, inner_stmts):
    if len(gen_node.generators) != 1:
        raise OutOfSubset("comprehension with several for-clauses")
    g = gen_node.generators[0]
    body = inner_stmts
    for cond in reversed(g.ifs):
        body = [ast.If(test=cond, body=body, orelse=[])]
    loop = ast.For(target=g.target, iter=g.iter, body=body, orelse=[])
    return loop


def _fix(n, ref):
    ast.copy_location(n, ref)
    ast.fix_missing_locations(n)
    return n


def eval_any_all(I, st, gen, is_any):
    """any(genexp) / all(genexp) as a loop with early exit."""
    name = "__pyvc_r%d" % I.ctx.new_oid()
    test = gen.node.elt if is_any else ast.UnaryOp(op=ast.Not(), operand=gen.node.elt)
    hit = [ast.Assign(targets=[ast.Name(id=name, ctx=ast.Store())], value=ast.Constant(value=is_any)), ast.Break()]
    loop = _comp_loop(gen.node, [ast.If(test=test, body=hit, orelse=[])])
    loop.orelse = [ast.Assign(targets=[ast.Name(id=name, ctx=ast.Store())], value=ast.Constant(value=not is_any))]
    _fix(loop, gen.node)
    res = []
    for s, ctl in I.exec_stmt(loop, st):
        if ctl[0] == "raise":
            res.append((s, Raised(ctl[1])))
        elif ctl[0] == "next":
            v = s.env.pop(name)
            res.append((s, SB(truth(I.ctx, s, v))))
        else:
            raise OutOfSubset("control flow out of a generator expression")
    return res


def eval_collect(I, st, gen_node, kind="list"):
    """[elt for ...] / list(genexp) / set(genexp) -> ListObj"""
    name = "__pyvc_l%d" % I.ctx.new_oid()
    s0 = st.fork()
    oid = I.ctx.new_oid()
    s0.heap[oid] = {"kind": kind, "parts": (), "items": [] if kind == "list" else None}
    s0.env[name] = ListObj(oid)
    app = ast.Expr(value=ast.Call(func=ast.Attribute(value=ast.Name(id=name, ctx=ast.Load()), attr="append", ctx=ast.Load()),
                                  args=[gen_node.elt], keywords=[]))
    loop = _comp_loop(gen_node, [app])
    _fix(loop, gen_node)
    res = []
    for s, ctl in I.exec_stmt(loop, s0):
        s.env.pop(name, None)
        if ctl[0] == "raise":
            res.append((s, Raised(ctl[1])))
        elif ctl[0] == "next":
            res.append((s, ListObj(oid)))
        else:
            raise OutOfSubset("control flow out of a comprehension")
    return res


def eval_listcomp(I, node, st):
    return eval_collect(I, st, node, "list")


# ---------------------------------------------------------------------------
# loops with an explicit inductive invariant (side-car contract, keyed by loop ordinal)

class LoopInv:
    """at(I, st, k, spec) -> {"env": {name: value}, "lists": {name: parts}, "formula": BoolRef}
    describes the loop-carried state at the start of iteration k (k an Int term) and a pure formula."""

    def at(self, I, st, k, spec):
        raise NotImplementedError


def value_equal(a, b):
    """z3 formula: the two values are equal (None if not comparable -> out of subset)"""
    from .interp import to_sv
    if isinstance(a, SB) and isinstance(b, SB):
        return a.f == b.f
    if isinstance(a, SInt) and isinstance(b, SInt):
        return a.t == b.t
    if isinstance(a, SStr) and isinstance(b, SStr):
        return a.t == b.t
    if isinstance(a, (SV, SInt, SStr, SB)) and isinstance(b, (SV, SInt, SStr, SB)):
        return to_sv(a).t == to_sv(b).t
    if isinstance(a, PyTuple) and isinstance(b, PyTuple) and len(a.items) == len(b.items):
        fs = [value_equal(x, y) for x, y in zip(a.items, b.items)]
        if any(f is None for f in fs):
            return None
        return z3.And(fs) if fs else z3.BoolVal(True)
    # task-defined term-valued abstractions (one z3 term `t` of the same sort)
    if type(a) is type(b) and hasattr(a, "t") and z3.is_expr(getattr(a, "t", None)) and z3.is_expr(getattr(b, "t", None)) and a.t.sort() == b.t.sort():
        return a.t == b.t
    return None


def _flat(parts):
    out = []
    for p in parts:
        if isinstance(p, Nil):
            continue
        if isinstance(p, Cat):
            out.extend(_flat(p.parts))
        else:
            out.append(p)
    return out


def seq_equal(pa, pb):
    """-> list of z3 facts whose conjunction implies the two part lists denote the same sequence.
    Supports identical shapes and the step  For(i<k, f) ++ f(k)  ==  For(i<k+1, f)."""
    a, b = _flat(pa), _flat(pb)
    facts = []
    # peel: if b ends with For(i, hi, body) and a ends with For(i', hi', body'), X with hi == hi'+1
    if len(a) == len(b) + 1 and b and isinstance(b[-1], For) and isinstance(a[-2], For):
        fb, fa = b[-1], a[-2]
        step = z3.simplify(fb.n - fa.n)
        if z3.is_int_value(step) and step.as_long() == 1:
            last = subst(fb.body, [(fb.ivar, fa.n)])
            b = b[:-1] + [For(fb.ivar, fa.n, fb.body, fb.unordered, fb.lo), last]
            facts.append(fa.n >= fb.lo)
    if not a and b and all(isinstance(x, For) for x in b):
        return facts + [z3.simplify(x.n <= x.lo) for x in b]
    if not b and a and all(isinstance(x, For) for x in a):
        return facts + [z3.simplify(x.n <= x.lo) for x in a]
    if len(a) != len(b):
        raise OutOfSubset("sequence shapes differ (%d vs %d parts)" % (len(a), len(b)))
    for x, y in zip(a, b):
        facts.extend(_seq_item_equal(x, y))
    return facts


def _seq_item_equal(x, y):
    if isinstance(x, One) and isinstance(y, One):
        f = value_equal(x.val, y.val)
        if f is None:
            raise OutOfSubset("cannot compare sequence elements %r / %r" % (x.val, y.val))
        return [f]
    if isinstance(x, For) and isinstance(y, For):
        k = smt.fresh("se", smt.I)
        bx = subst(x.body, [(x.ivar, k)])
        by = subst(y.body, [(y.ivar, k)])
        inner = _seq_item_equal(bx, by) if not isinstance(bx, Cat) else seq_equal(bx.parts, by.parts if isinstance(by, Cat) else (by,))
        return [x.n == y.n, x.lo == y.lo, z3.ForAll([k], z3.Implies(z3.And(k >= x.lo, k < x.n), z3.And(inner) if inner else z3.BoolVal(True)))]
    if isinstance(x, Nil) and isinstance(y, Nil):
        return []
    raise OutOfSubset("sequence items of different shape: %r / %r" % (type(x).__name__, type(y).__name__))


def _install(I, s, desc):
    for name, v in desc.get("env", {}).items():
        s.env[name] = v
    for name, parts in desc.get("lists", {}).items():
        lo = s.env[name]
        if not isinstance(lo, ListObj):
            raise OutOfSubset("invariant names %s as a list" % name)
        s.heap[lo.oid] = dict(s.heap[lo.oid], parts=tuple(parts), items=None)


def _inv_obligations(I, s, desc, label):
    from contracts.core import Obligation      # engine-level obligation record
    obs = []
    for name, v in desc.get("env", {}).items():
        cur = s.env.get(name)
        f = value_equal(cur, v)
        if f is None:
            raise OutOfSubset("cannot compare loop-carried %s" % name)
        obs.append(Obligation("%s/L/%s:%s" % (s.unit.key, label, name), "L", s.pc, f, note="loop invariant: value of %s" % name))
    for name, parts in desc.get("lists", {}).items():
        lo = s.env[name]
        facts = seq_equal(s.heap[lo.oid]["parts"], parts)
        obs.append(Obligation("%s/L/%s:%s" % (s.unit.key, label, name), "L", s.pc, z3.And(facts) if facts else z3.BoolVal(True),
                              note="loop invariant: content of list %s" % name))
    if desc.get("formula") is not None:
        f = desc["formula"]
        obs.append(Obligation("%s/L/%s:formula" % (s.unit.key, label), "L", s.pc, f(s) if callable(f) else f, note="loop invariant formula"))
    I.ctx.obligations.extend(obs)


def carried_names(node, st):
    """names assigned in the loop body that are already bound when the loop is entered (the loop-carried
    variables), in source order; the loop target is not one of them"""
    targets = set(_target_names(node.target)) if isinstance(node, ast.For) else set()
    found = []
    for stmt in node.body:
        for n_ in ast.walk(stmt):
            if isinstance(n_, ast.Name) and isinstance(n_.ctx, ast.Store) and n_.id not in targets and n_.id in st.env:
                found.append((n_.lineno, n_.col_offset, n_.id))
            # a local list / set / deque that the body grows in place
            if isinstance(n_, ast.Call) and isinstance(n_.func, ast.Attribute) and isinstance(n_.func.value, ast.Name) and \
                    n_.func.attr in ("append", "extend", "add", "appendleft", "extendleft", "insert", "update") and \
                    n_.func.value.id not in targets and n_.func.value.id in st.env and n_.func.value.id != "self":
                found.append((n_.lineno, n_.col_offset, n_.func.value.id))
    out = []
    for _, _, name in sorted(found):
        if name not in out:
            out.append(name)
    return out


def _resolve_names(desc, node, st):
    """Invariants name loop-carried variables by the names the code had when they were written; after a
    renaming of locals the same roles are found by position: the i-th name of the invariant that is not
    bound in the function is the i-th loop-carried variable that the invariant does not mention."""
    logical = list(desc.get("env", {})) + list(desc.get("lists", {}))
    carried = carried_names(node, st)
    missing = [l for l in logical if l not in carried]
    if not missing:
        return {}
    cands = [c for c in carried if c not in logical]
    return dict(zip(missing, cands)) if len(missing) == len(cands) else {}


def _renamed(desc, ren):
    if not ren:
        return desc
    d = dict(desc)
    for part in ("env", "lists"):
        if part in d:
            d[part] = {ren.get(k, k): v for k, v in d[part].items()}
    return d


def _with_invariant(I, node, st, spec, inv, ordinal):
    ctx = I.ctx
    lo = spec.start if spec.start is not None else z3.IntVal(0)
    n = spec.n
    label = "loop%d" % ordinal
    # 1. initialisation
    ren = _resolve_names(inv.at(I, st, lo, spec), node, st)
    _at = inv.at
    inv = _RenamedInv(inv, ren)
    d0 = inv.at(I, st, lo, spec)
    s0 = st.fork()
    for ax in d0.get("axiom_instances", ()):
        s0.pc.append(ax)
    _inv_obligations(I, s0, d0, label + ".init")
    results = []
    # 2. preservation / exits from an arbitrary iteration k
    k = smt.fresh("k", smt.I)
    s = st.fork()
    dk = inv.at(I, s, k, spec)
    _install(I, s, dk)
    if dk.get("havoc"):
        dk["havoc"](s)      # ghost state modified by the loop body: arbitrary, constrained by the invariant
    s.pc.append(z3.And(k >= lo, k < n))
    if dk.get("formula") is not None:
        s.pc.append(dk["formula"](s) if callable(dk["formula"]) else dk["formula"])
    for ax in dk.get("axiom_instances", ()):
        s.pc.append(ax)
    if ctx.feasible(s.pc):
        for s1, c1 in I.assign(node.target, spec.elem(k), s):
            outs = [(s1, c1)] if c1[0] != "next" else I.exec_block(node.body, s1)
            for s2, ctl in outs:
                if ctl[0] in ("next", "continue"):
                    d1 = inv.at(I, s2, k + 1, spec)
                    s2p = s2.fork()
                    for ax in d1.get("axiom_instances", ()):
                        s2p.pc.append(ax)
                    _inv_obligations(I, s2p, d1, label + ".preserve")
                elif ctl[0] == "break":
                    results.append((s2, ("next", None)))
                else:
                    results.append((s2, ctl))
    # 3. after the loop
    sA = st.fork()
    dn = inv.at(I, sA, n, spec)
    _install(I, sA, dn)
    if dn.get("havoc"):
        dn["havoc"](sA)
    sA.pc.append(n >= lo)
    if dn.get("formula") is not None:
        sA.pc.append(dn["formula"](sA) if callable(dn["formula"]) else dn["formula"])
    for ax in dn.get("axiom_instances", ()):
        sA.pc.append(ax)
    for t in _target_names(node.target):
        sA.env[t] = Undefined(t)
    if ctx.feasible(sA.pc):
        if node.orelse:
            results.extend(I.exec_block(node.orelse, sA))
        else:
            results.append((sA, ("next", None)))
    return results


class _RenamedInv:
    def __init__(self, inv, ren):
        self.inv, self.ren = inv, ren

    def at(self, I, st, k, spec):
        return _renamed(self.inv.at(I, st, k, spec), self.ren)


class WhileInv:
    """Invariant of a while loop: `vars` are the loop-carried names (havocked), formula(I, st) the
    invariant over the current bindings, variant(I, st) an Int term that is >= 0 and strictly decreases."""
    vars = ()

    def havoc(self, I, st, name):
        raise NotImplementedError

    def formula(self, I, st):
        raise NotImplementedError

    def variant(self, I, st):
        return None


def run_while(I, node, st, inv):
    from contracts.core import Obligation
    ctx = I.ctx
    if node.orelse:
        raise OutOfSubset("while/else")
    name = "%s/L/while%d" % (st.unit.key, loop_ordinal(st.unit, node))
    # loop-carried variables by position when the names of the invariant are not those of the code (renamed locals)
    carried = carried_names(node, st)
    missing = [v for v in inv.vars if v not in carried]
    if missing:
        cands = [c for c in carried if c not in inv.vars]
        if len(cands) == len(missing):
            ren = dict(zip(missing, cands))
            inv.names = {v: ren.get(v, v) for v in inv.vars}
            inv.vars = tuple(inv.names[v] for v in inv.vars)
    if not hasattr(inv, "names"):
        inv.names = {v: v for v in inv.vars}
    ctx.obligations.append(Obligation(name + ".init", "L", st.pc, inv.formula(I, st), note="while invariant holds on entry"))
    s = st.fork()
    for v in inv.vars:
        s.env[v] = inv.havoc(I, s, v)
    s.pc.append(inv.formula(I, s))
    results = []
    for s1, c in I.eval(node.test, s):
        if isinstance(c, Raised):
            results.append((s1, ("raise", c.exc)))
            continue
        t = truth(ctx, s1, c)
        for s2, taken in branch(ctx, s1, [(t, True), (z3.Not(t), False)]):
            if not taken:
                results.append((s2, ("next", None)))
                continue
            v0 = inv.variant(I, s2)
            for s3, ctl in I.exec_block(node.body, s2):
                if ctl[0] in ("next", "continue"):
                    ctx.obligations.append(Obligation(name + ".preserve", "L", s3.pc, inv.formula(I, s3), note="while invariant preserved"))
                    if v0 is not None:
                        v1 = inv.variant(I, s3)
                        ctx.obligations.append(Obligation(name + ".decreases", "L", s3.pc, z3.And(v0 >= 0, v1 < v0),
                                                          note="while variant is non-negative and strictly decreases (termination)"))
                elif ctl[0] == "break":
                    results.append((s3, ("next", None)))
                else:
                    results.append((s3, ctl))
    return results
