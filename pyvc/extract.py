"""Extraction: the verified text is the code that runs (DESIGN.md section 3.1).

Every run parses /repo's working tree with `ast`.  A *unit* is one function (or lambda) keyed
`module:qual.name`.  Nothing is hand-copied.  Dropped: docstrings/comments (not in the AST anyway).
"""
import ast
import hashlib
import json
import os

MODULES = ["_types", "_utils", "_validators", "_legacy_validators", "validators", "exceptions", "_format", "cli"]


class Unit:
    def __init__(self, key, node, module, cls=None, parent=None):
        self.key, self.node, self.module, self.cls, self.parent = key, node, module, cls, parent
        self.is_lambda = isinstance(node, ast.Lambda)

    @property
    def is_generator(self):
        if self.is_lambda:
            return False
        for n in _walk_own(self.node):
            if isinstance(n, (ast.Yield, ast.YieldFrom)):
                return True
        return False

    def params(self):
        a = self.node.args
        return [x.arg for x in a.posonlyargs + a.args], a

    def source_hash(self):
        return hashlib.sha256(ast.dump(self.node).encode()).hexdigest()[:16]


def _walk_own(fn):
    """Walk a function's own body, not nested function/lambda/class bodies."""
    stack = list(fn.body) if not isinstance(fn, ast.Lambda) else [fn.body]
    while stack:
        n = stack.pop()
        yield n
        if isinstance(n, (ast.FunctionDef, ast.AsyncFunctionDef, ast.Lambda, ast.ClassDef)):
            continue      # a nested definition: its body belongs to another unit
        for c in ast.iter_child_nodes(n):
            if isinstance(c, (ast.FunctionDef, ast.AsyncFunctionDef, ast.Lambda, ast.ClassDef)):
                continue
            stack.append(c)


class Repo:
    def __init__(self, root):
        self.root = root
        self.trees = {}
        self.units = {}
        self.globals = {}     # module -> {name: ('func', key) | ('class', name) | ('module', name) | ('import', mod, name) | ('assign', ast)}
        self.classes = {}     # "module:Class" -> ast.ClassDef
        self.lambdas = {}     # (module, lineno, col) -> key
        for m in MODULES:
            path = os.path.join(root, "jsonschema", m + ".py")
            with open(path) as f:
                src = f.read()
            tree = ast.parse(src, filename=path)
            self.trees[m] = tree
            self.globals[m] = {}
            self._collect(m, tree.body, prefix="", cls=None, parent=None, toplevel=True)
        self.schemas = {}
        for d in (3, 4, 6, 7):
            with open(os.path.join(root, "jsonschema", "schemas", "draft%d.json" % d)) as f:
                self.schemas[d] = json.load(f)

    def _collect(self, m, body, prefix, cls, parent, toplevel):
        g = self.globals[m]
        for st in body:
            if isinstance(st, ast.FunctionDef):
                key = "%s:%s%s" % (m, prefix, st.name)
                self.units[key] = Unit(key, st, m, cls, parent)
                if toplevel:
                    g[st.name] = ("func", key)
                self._collect(m, st.body, prefix + st.name + ".", None, key, False)
                self._collect_lambdas(m, st, prefix + st.name + ".", key)
            elif isinstance(st, ast.ClassDef):
                ck = "%s:%s%s" % (m, prefix, st.name)
                self.classes[ck] = st
                if toplevel:
                    g[st.name] = ("class", ck)
                self._collect(m, st.body, prefix + st.name + ".", ck, parent, False)
            elif isinstance(st, (ast.Import, ast.ImportFrom)) and toplevel:
                if isinstance(st, ast.Import):
                    for a in st.names:
                        g[(a.asname or a.name).split(".")[0]] = ("module", a.name)
                else:
                    for a in st.names:
                        g[a.asname or a.name] = ("import", st.module, a.name)
            elif isinstance(st, ast.Assign) and toplevel:
                for t in st.targets:
                    if isinstance(t, ast.Name):
                        g[t.id] = ("assign", st.value)
                self._collect_lambdas(m, st, prefix, parent)
            elif isinstance(st, (ast.If, ast.Try, ast.For, ast.While, ast.With)) and not (toplevel or cls):
                # nested definitions inside compound statements of a function body
                for sub in ("body", "orelse", "finalbody"):
                    self._collect(m, getattr(st, sub, []) or [], prefix, cls, parent, toplevel)
                for h in getattr(st, "handlers", []) or []:
                    self._collect(m, h.body, prefix, cls, parent, toplevel)
            elif isinstance(st, (ast.If, ast.Try)) and (toplevel or cls):
                # module-level conditional definitions (try: import X / else: def ...)
                for sub in ("body", "orelse", "finalbody"):
                    self._collect(m, getattr(st, sub, []) or [], prefix, cls, parent, toplevel)
                for h in getattr(st, "handlers", []) or []:
                    self._collect(m, h.body, prefix, cls, parent, toplevel)
            elif toplevel or cls:
                self._collect_lambdas(m, st, prefix, parent)

    def _collect_lambdas(self, m, node, prefix, parent):
        def visit(n, depth):
            for c in ast.iter_child_nodes(n):
                if isinstance(c, (ast.FunctionDef, ast.ClassDef)) and depth > 0:
                    continue
                if isinstance(c, ast.Lambda):
                    key = "%s:%s<lambda@%d>" % (m, prefix, self._lambda_ordinal(m))
                    self.units[key] = Unit(key, c, m, None, parent)
                    self.lambdas[(m, c.lineno, c.col_offset)] = key
                visit(c, depth + 1)
        if isinstance(node, ast.FunctionDef):
            # only the function's own body (nested defs handled by recursion of _collect)
            for n in _walk_own(node):
                if isinstance(n, ast.Lambda):
                    key = "%s:%s<lambda@%d>" % (m, prefix, self._lambda_ordinal(m))
                    self.units[key] = Unit(key, n, m, None, parent)
                    self.lambdas[(m, n.lineno, n.col_offset)] = key
        else:
            visit(node, 0)

    def _lambda_ordinal(self, m):
        n = getattr(self, "_lam_" + m, 0)
        setattr(self, "_lam_" + m, n + 1)
        return n

    def unit(self, key):
        return self.units[key]

    def lambda_key(self, m, node):
        return self.lambdas[(m, node.lineno, node.col_offset)]

    def tree_hash(self):
        h = hashlib.sha256()
        for m in MODULES:
            h.update(ast.dump(self.trees[m]).encode())
        for d in (3, 4, 6, 7):
            h.update(json.dumps(self.schemas[d], sort_keys=True).encode())
        return h.hexdigest()[:16]
