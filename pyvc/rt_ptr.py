"""Run-time helper (real code): RefResolver.resolve_fragment against the executable RFC 6901
evaluation of spec/pointer.py (C14).  Bounded stand-in / counterexample search / replay."""
import itertools
import json
import sys
from urllib.parse import quote

DOCS = [
    {"": 1, "a": {"": {"": 2}, "b": [10, 20, {"c": 3}]}, "~": 4, "/": 5, "~1": 6, "~0": 7, "a/b": 8, "m~n": 9, "%": 10, "%25": 11,
     "0": 12, "01": 13, "-1": 14, " 1": 15, "a b": 16, "c%d": 17, "é": 18, "#": 19, "?": 20, "\"": 21, "\\": 22, "s": "xyz", "n": 5, "t": True, "z": None},
    [10, [20, 21], {"x": 30}, "str"],
    {"l": [10, 20, 30], "a": {"0": "zero", "1": "one"}},
    "scalar",
]
ALPHA = ["/", "~", "0", "1", "%", "2", "5", "a", "l", "-", " ", "+", "_", "b"]


INDEX_LIKE = ["\u00b2", "\u0663", "\u0661", "\u2460", "\uff11", "\u0967", "1_0", "+1", "-0", "00", "0x1", "1e0", "1.0", " 1", "1 ", "\n1", "1\n", "", "-", "0b1", "\u00bd", "\u2082"]


def all_locations(doc, prefix=()):
    yield prefix, doc
    if isinstance(doc, dict):
        for k, v in doc.items():
            yield from all_locations(v, prefix + (k,))
    elif isinstance(doc, list):
        for i, v in enumerate(doc):
            yield from all_locations(v, prefix + (str(i),))


def to_pointer(tokens):
    return "".join("/" + t.replace("~", "~0").replace("/", "~1") for t in tokens)


def run(resolver, exceptions, doc, frag):
    try:
        direct = ("value", resolver.resolve_fragment(doc, frag))
        # the same fragment through a reference: resolve("#" + fragment) on a resolver whose referrer is the document
        from jsonschema import validators
        r2 = validators.RefResolver("", doc)
        try:
            via = ("value", r2.resolve("#" + frag)[1])
        except exceptions.RefResolutionError:
            via = ("error",)
        if "#" not in frag and via != direct and not (via[0] == "value" and direct[0] == "value" and via[1] == direct[1]):
            return ("mismatch", "resolve('#%s') gives %r, resolve_fragment gives %r" % (frag, via, direct))
        return direct
    except exceptions.RefResolutionError:
        return ("error",)
    except Exception as e:      # noqa
        return ("exception", type(e).__name__)


def expected(doc, frag):
    from spec.pointer import fragment_eval, PointerError
    try:
        return ("value", fragment_eval(doc, frag))
    except PointerError:
        return ("error",)


def is_pointer(frag):
    from urllib.parse import unquote
    d = unquote(frag)
    return d == "" or d.startswith("/")


def same(a, b):
    from spec.pyops import py_jeq
    if a[0] != b[0]:
        return False
    if a[0] == "value":
        return py_jeq(a[1], b[1]) and type(a[1]) is type(b[1])
    return True


def search(job):
    root = job["root"]
    sys.path.insert(0, root)
    from jsonschema import validators, exceptions
    r = validators.RefResolver("", {})
    out, tried = [], 0
    # positive half: every location of every document, plain and percent-encoded
    for doc in DOCS:
        for toks, val in all_locations(doc):
            ptr = to_pointer(toks)
            # a fragment is the percent-encoded pointer; the plain spelling is the same fragment only without '%'
            # ... and with the separators / escapes themselves percent-encoded (RFC 3986 decoding comes first)
            enc_all = "".join("%%%02X" % b for b in ptr.encode("utf-8"))
            enc_sep = quote(ptr, safe="").replace("%7E", "~") if "/" in ptr else None
            enc_tilde = quote(ptr, safe="/") if "~" in ptr else None
            for frag in ([ptr] if "%" not in ptr else []) + [quote(ptr, safe="/~")] + [f for f in (enc_all, enc_sep, enc_tilde) if f]:
                tried += 1
                obs, exp = run(r, exceptions, doc, frag), ("value", val)
                if not same(obs, exp):
                    out.append({"kind": "S" if obs[0] == "exception" else "F", "doc": doc, "fragment": frag, "expected": repr(exp), "observed": repr(obs)})
    # one resolver, a document that changes between two look-ups (and a new document of the same shape): no memory
    doc = {"a": 1, "l": [1, 2]}
    steps = [("/a", ("value", 1)), ("/l/1", ("value", 2))]
    for frag, want in steps:
        tried += 1
        first = run(r, exceptions, doc, frag)
        if not same(first, want):
            out.append({"kind": "F", "doc": doc, "fragment": frag, "expected": repr(want), "observed": repr(first)})
    doc["a"] = 5
    del doc["l"][1]
    for frag, want in (("/a", ("value", 5)), ("/l/1", ("error",))):
        tried += 1
        again = run(r, exceptions, doc, frag)
        if not same(again, want):
            out.append({"kind": "F", "doc": doc, "fragment": frag, "expected": repr(want), "observed": repr(again) + " (after the document was edited; same resolver)"})
    # index-like tokens at every array location (digits that are not ASCII decimal, signs, padding, separators)
    for doc in DOCS:
        for toks, val in all_locations(doc):
            if not isinstance(val, (list, str)):
                continue
            for t in INDEX_LIKE:
                ptr = to_pointer(toks + (t,))
                for frag in ([ptr] if "%" not in ptr else []) + [quote(ptr, safe="/~")]:
                    tried += 1
                    obs, exp = run(r, exceptions, doc, frag), expected(doc, frag)
                    if not same(obs, exp):
                        out.append({"kind": "S" if obs[0] == "exception" else "F", "doc": doc, "fragment": frag, "expected": repr(exp), "observed": repr(obs)})
                        if len(out) >= job.get("limit", 3):
                            return {"failures": out[:job.get("limit", 3)], "tried": tried}
    # negative / arbitrary half: all fragments up to length L over the critical alphabet
    L = job.get("maxlen", 4)
    for n in range(0, L + 1):
        for chars in itertools.product(ALPHA, repeat=n):
            frag = "".join(chars)
            if not is_pointer(frag):
                continue
            for doc in DOCS[:3]:
                tried += 1
                obs, exp = run(r, exceptions, doc, frag), expected(doc, frag)
                if not same(obs, exp):
                    out.append({"kind": "S" if obs[0] == "exception" else "F", "doc": doc, "fragment": frag, "expected": repr(exp), "observed": repr(obs)})
                    if len(out) >= job.get("limit", 3):
                        return {"failures": out[:job.get("limit", 3)], "tried": tried}
    return {"failures": out[:job.get("limit", 3)], "tried": tried}


def replay(job):
    root = job["root"]
    sys.path.insert(0, root)
    from jsonschema import validators, exceptions
    r = validators.RefResolver("", {})
    f = job["failure"]
    obs, exp = run(r, exceptions, f["doc"], f["fragment"]), expected(f["doc"], f["fragment"])
    if same(obs, exp):
        return {"status": "agrees"}
    return {"status": "fails", "failure": dict(f, expected=repr(exp), observed=repr(obs))}


if __name__ == "__main__":
    job = json.load(sys.stdin)
    json.dump({"search": search, "replay": replay}[job["cmd"]](job), sys.stdout, default=str)
