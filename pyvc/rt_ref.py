"""Run-time helper (real code): $ref transparency (C02) - a schema with references against the schema
obtained by writing the designated schema in place of each reference; fetch accounting lives in
rt_hist.  Bounded stand-in / replay."""
import copy
import itertools
import json
import sys
from urllib.parse import quote


def load(root):
    sys.path.insert(0, root)
    import jsonschema
    from jsonschema import validators, exceptions
    assert jsonschema.__file__.startswith(root)
    return jsonschema, validators, exceptions


NAMES = ["a", "", "0", "a/b", "m~n", "~1", "~0", "~01", "%", "%25", "a b", "é", "#x", "?", "\"", "a%2Fb", "1e3", "-", "$ref", "definitions"]
TARGETS = [{"type": "integer"}, {"minimum": 3}, {"type": "string", "maxLength": 2}, {"items": {"type": "integer"}}]
INSTANCES = [1, 2.5, 5, "abc", "ab", [1, "x"], None, {"k": 1}]
POSITIONS = [
    ("properties", lambda sub: {"properties": {"k": sub}}, {"k": None}),
    ("items", lambda sub: {"items": sub}, [None, None]),
    ("root-sibling", lambda sub: dict(sub), None),
    ("additionalProperties", lambda sub: {"additionalProperties": sub}, {"z": None}),
    ("allOf", lambda sub: {"allOf": [sub, {}]}, None),
    ("not-not", lambda sub: {"not": {"not": sub}}, None),
    ("deps", lambda sub: {"dependencies": {"k": sub}}, {"k": None}),
]


def pointer(tokens):
    return "#" + "".join("/" + quote(t.replace("~", "~0").replace("/", "~1"), safe="~") for t in tokens)


def wrap_instance(shape, x):
    if shape is None:
        return x
    if isinstance(shape, dict):
        return {k: x for k in shape}
    return [x for _ in shape]


def errs(cls, schema, inst, exceptions, **kw):
    try:
        return sorted((list(e.absolute_path), str(e.validator)) for e in cls(schema, **kw).iter_errors(inst))
    except exceptions.RefResolutionError:
        return "RefResolutionError"
    except RecursionError:
        return "RecursionError"
    except Exception as e:      # noqa
        return "EXC %s" % type(e).__name__


def search(job):
    jsonschema, validators, exceptions = load(job["root"])
    classes = {3: validators.Draft3Validator, 4: validators.Draft4Validator, 6: validators.Draft6Validator, 7: validators.Draft7Validator}
    out, tried = [], 0
    limit = job.get("limit", 3)

    def report(**kw):
        out.append(dict(kind="X", **kw))
    for d, cls in classes.items():
        idk = "id" if d <= 4 else "$id"
        pos = [p for p in POSITIONS if not (d == 3 and p[0] in ("allOf", "not-not"))]
        for name in NAMES:
            for target in TARGETS:
                for pname, mk, shape in pos:
                    ref = {"$ref": pointer(["definitions", name])}
                    if pname == "root-sibling":
                        ref["title"] = "ignored sibling"
                        ref["type"] = "null"          # keywords next to $ref are ignored
                    with_ref = mk(ref)
                    with_ref.setdefault("definitions", {})[name] = target
                    inlined = mk(copy.deepcopy(target))
                    if pname == "root-sibling":
                        inlined = copy.deepcopy(target)
                    for x in INSTANCES[:5]:
                        tried += 1
                        inst = wrap_instance(shape, x)
                        a, b = errs(cls, with_ref, inst, exceptions), errs(cls, inlined, inst, exceptions)
                        if a != b:
                            report(draft=d, schema=with_ref, inlined=inlined, instance=inst, problem="with $ref: %r, written in place: %r" % (a, b))
                            if len(out) >= limit:
                                return {"failures": out, "tried": tried}
        # base-URI arrangements: root id, nested id on the path, relative and absolute references, store documents, handler
        store = {"http://ex.org/other.json": {"definitions": {"t": {"type": "integer"}}, idk: "http://ex.org/other.json"},
                 # a document whose root declares a *relative* id and which refers into itself
                 "http://ex.org/dir/doc.json": {idk: "doc.json", "properties": {"j": {"$ref": "#/definitions/t"}}, "definitions": {"t": {"type": "integer"}}},
                 "http://ex.org/anch.json": {"definitions": {"a": {idk: "#A", "properties": {"j": {"$ref": "#/definitions/t"}}}, "t": {"type": "integer"}}},
                 "http://ex.org/dir/sub.json": {"type": "string"},
                 "http://ex.org/item.json": {"type": "boolean"},
                 # a key spelled the way ids usually are, with an empty fragment
                 "http://ex.org/hash.json#": {"definitions": {"t": {"type": "integer"}}},
                 # paths are case-sensitive: two different documents
                 "http://ex.org/Case.json": {"type": "integer"}, "http://ex.org/case.json": {"type": "string"}}
        meta_id = cls.META_SCHEMA.get(idk, "")
        store_cases = [
            # a caller-supplied document registered under a key with a trailing '#' is served from the store
            ({"properties": {"k": {"$ref": "http://ex.org/hash.json#/definitions/t"}}}, {"properties": {"k": {"type": "integer"}}}),
            ({"properties": {"k": {"$ref": "http://ex.org/hash.json#/definitions/t"}}, idk: "http://ex.org/root2.json"}, {"properties": {"k": {"type": "integer"}}}),
            ({"properties": {"k": {"$ref": "http://ex.org/Case.json"}}}, {"properties": {"k": {"type": "integer"}}}),
            ({"properties": {"k": {"$ref": "http://ex.org/case.json"}}}, {"properties": {"k": {"type": "string"}}}),
            # the schema being validated wins over any document already known under its own URI
            ({idk: "http://ex.org/other.json", "definitions": {"u": {"type": "integer"}}, "properties": {"k": {"$ref": "#/definitions/u"}}}, {"properties": {"k": {"type": "integer"}}}),
        ] + ([({idk: meta_id, "definitions": {"zz": {"type": "integer"}}, "properties": {"k": {"$ref": "#/definitions/zz"}}}, {"properties": {"k": {"type": "integer"}}})] if meta_id else []) + [
            ({"properties": {"k": {"$ref": "http://ex.org/dir/doc.json"}}}, {"properties": {"k": {"properties": {"j": {"type": "integer"}}}}}),
            ({idk: "http://ex.org/root.json", "properties": {"k": {"$ref": "dir/doc.json"}}}, {"properties": {"k": {"properties": {"j": {"type": "integer"}}}}}),
            ({"properties": {"k": {"$ref": "http://ex.org/anch.json#/definitions/a"}}}, {"properties": {"k": {"properties": {"j": {"type": "integer"}}}}}),
        ]
        cases = [
            ({idk: "http://ex.org/root.json", "properties": {"k": {"$ref": "other.json#/definitions/t"}}}, {"properties": {"k": {"type": "integer"}}}),
            ({idk: "http://ex.org/root.json", "properties": {"k": {"$ref": "http://ex.org/other.json#/definitions/t"}}}, {"properties": {"k": {"type": "integer"}}}),
            ({idk: "http://ex.org/root.json", "properties": {"k": {idk: "dir/", "properties": {"j": {"$ref": "sub.json"}}}}}, {"properties": {"k": {"properties": {"j": {"type": "string"}}}}}),
            ({idk: "http://ex.org/root.json", "properties": {"k": {idk: "dir/", "properties": {"j": {"$ref": "#/definitions/r"}}, "definitions": {"r": {"type": "null"}}}},
              "definitions": {"r": {"type": "integer"}}}, None),
            ({"properties": {"k": {"$ref": "http://ex.org/item.json"}}}, {"properties": {"k": {"type": "boolean"}}}),
            ({idk: "http://ex.org/root.json", "definitions": {"n": {"type": "integer"}}, "properties": {"k": {"$ref": "#/definitions/n"}, "l": {"$ref": "root.json#/definitions/n"}}},
             {"properties": {"k": {"type": "integer"}, "l": {"type": "integer"}}}),
            # the same reference applied twice to the same instance by sibling keywords, the first through is_valid()
            ({"definitions": {"p": {"type": "integer"}}, "properties": {"k": {"not": {"$ref": "#/definitions/p"}, "allOf": [{"$ref": "#/definitions/p"}]}}},
             {"properties": {"k": {"not": {"type": "integer"}, "allOf": [{"type": "integer"}]}}}),
            ({"definitions": {"p": {"type": "integer"}}, "properties": {"k": {"oneOf": [{"$ref": "#/definitions/p"}, {"type": "string"}], "anyOf": [{"$ref": "#/definitions/p"}]}}},
             {"properties": {"k": {"oneOf": [{"type": "integer"}, {"type": "string"}], "anyOf": [{"type": "integer"}]}}}),
            # a cross-document reference consulted through is_valid() (not / contains), then a sibling with a same-document reference
            ({"not": {"$ref": "http://ex.org/other.json#/definitions/t"}, "properties": {"k": {"$ref": "#/definitions/small"}}, "definitions": {"small": {"type": "integer"}}},
             {"not": {"type": "integer"}, "properties": {"k": {"type": "integer"}}}),
        ] + ([({"properties": {"k": {"contains": {"$ref": "http://ex.org/other.json#/definitions/t"}, "items": {"$ref": "#/definitions/small"}}}, "definitions": {"small": {"type": "string"}}},
               {"properties": {"k": {"contains": {"type": "integer"}, "items": {"type": "string"}}}})] if d >= 6 else []) + [
            # recursion through '#' and through a definition
            ({"properties": {"k": {"$ref": "#"}}, "type": "object"}, None),
            ({"definitions": {"node": {"type": "object", "properties": {"next": {"$ref": "#/definitions/node"}, "v": {"type": "integer"}}}}, "$ref": "#/definitions/node"}, None),
        ]
        insts = [{"k": ["a", 1]}, {"k": [1, "a", 2]}, {"k": 1}, {"k": "s"}, {"k": {"j": 1}}, {"k": {"j": "s"}}, {"k": True, "l": "x"}, {"k": {"k": {"k": 5}}}, {"next": {"next": {"v": "x"}}, "v": 1}, 5]
        for with_ref, inlined in cases + store_cases:
            for inst in insts:
                tried += 1
                res = validators.RefResolver.from_schema(with_ref, id_of=cls.ID_OF, store=copy.deepcopy(store))
                a = errs(cls, with_ref, inst, exceptions, resolver=res)
                if inlined is not None:
                    b = errs(cls, inlined, inst, exceptions)
                    if a != b:
                        report(draft=d, schema=with_ref, inlined=inlined, instance=inst, problem="with $ref: %r, written in place: %r" % (a, b))
                elif a in ("RefResolutionError", "RecursionError") or (isinstance(a, str) and a.startswith("EXC")):
                    # nested-id case: the reference under the nested id must resolve in the *retrieved* dir/ document, i.e. RefResolutionError is legitimate there
                    if '"dir/"' in json.dumps(with_ref) and a == "RefResolutionError":
                        continue
                    report(draft=d, schema=with_ref, instance=inst, problem="recursive / local reference gave %r" % (a,))
                if len(out) >= limit:
                    return {"failures": out, "tried": tried}
        # the recursive list: verdicts known
        node = {"definitions": {"node": {"type": "object", "properties": {"next": {"$ref": "#/definitions/node"}, "v": {"type": "integer"}}}}, "$ref": "#/definitions/node"}
        for inst, want in (({"v": 1, "next": {"v": 2, "next": {"v": 3}}}, []), ({"v": 1, "next": {"v": "x"}}, [(["next", "v"], "type")]), (5, [([], "type")])):
            tried += 1
            a = errs(cls, node, inst, exceptions)
            if a != [(list(p), k) for p, k in want]:
                report(draft=d, schema=node, instance=inst, problem="recursive reference: %r, expected %r" % (a, want))
    return {"failures": out[:limit], "tried": tried}


def replay(job):
    jsonschema, validators, exceptions = load(job["root"])
    f = job["failure"]
    if "inlined" in f and f.get("inlined") is not None:
        cls = {3: validators.Draft3Validator, 4: validators.Draft4Validator, 6: validators.Draft6Validator, 7: validators.Draft7Validator}[f["draft"]]
        a, b = errs(cls, f["schema"], f["instance"], exceptions), errs(cls, f["inlined"], f["instance"], exceptions)
        if a != b and "ex.org" not in json.dumps(f["schema"]):
            return {"status": "fails", "failure": dict(f, problem="with $ref: %r, written in place: %r" % (a, b))}
    r = search(dict(job, limit=1))
    if r["failures"]:
        return {"status": "fails", "failure": r["failures"][0]}
    return {"status": "agrees"}


if __name__ == "__main__":
    job = json.load(sys.stdin)
    json.dump({"search": search, "replay": replay}[job["cmd"]](job), sys.stdout, default=str)
