"""Task runner: runs verification tasks in a process pool, caches task results per (tree, engine)
hash so that the checks of several properties sharing a function do not redo the work, and offers
the run-time helper bridge (real code under /venv/bin/python)."""
import hashlib
import json
import multiprocessing as mp
import os
import subprocess
import sys
import time

VERIF = os.path.dirname(os.path.dirname(os.path.abspath(__file__)))
RT_PYTHON = os.environ.get("PYVC_RT_PYTHON", "/venv/bin/python")


def engine_hash():
    h = hashlib.sha256()
    for sub in ("pyvc", "spec", "contracts", "props"):
        base = os.path.join(VERIF, sub)
        for fn in sorted(os.listdir(base)):
            if fn.endswith(".py"):
                with open(os.path.join(base, fn), "rb") as f:
                    h.update(fn.encode())
                    h.update(f.read())
    kf = os.path.join(VERIF, "known_findings.json")
    if os.path.exists(kf):
        h.update(open(kf, "rb").read())
    return h.hexdigest()[:16]


def tree_hash(root):
    h = hashlib.sha256()
    base = os.path.join(root, "jsonschema")
    for dp, dn, fns in sorted(os.walk(base)):
        dn[:] = sorted(x for x in dn if x not in ("tests", "__pycache__", "benchmarks"))
        for fn in sorted(fns):
            if fn.endswith((".py", ".json")):
                p = os.path.join(dp, fn)
                h.update(os.path.relpath(p, base).encode())
                with open(p, "rb") as f:
                    h.update(f.read())
    return h.hexdigest()[:16]


def cache_dir(root):
    # results are keyed by the engine and, per task, by the hashes of exactly the sources the task
    # depends on (task.cache_key()), so an edit to one function re-runs only the tasks that read it
    d = os.path.join(os.environ.get("PYVC_CACHE_DIR") or os.path.join(VERIF, ".cache"), engine_hash())
    os.makedirs(d, exist_ok=True)
    return d


_dep_cache = {}


def dep_hash(root, modules=(), units=(), drafts=()):
    """hash of the ASTs of whole modules / single units and of the bundled metaschemas"""
    import ast
    from . import extract
    key = os.path.abspath(root)
    repo = _dep_cache.get(key)
    if repo is None:
        repo = _dep_cache[key] = extract.Repo(root)
    h = hashlib.sha256()
    for m in modules:
        h.update(ast.dump(repo.trees[m]).encode())
    for u in units:
        h.update(ast.dump(repo.units[u].node).encode() if u in repo.units else b"missing")
    for d in drafts:
        h.update(json.dumps(repo.schemas[d], sort_keys=True).encode())
    return h.hexdigest()[:20]


def task_dep(task):
    """identity of the sources a task depends on, independent of the solver budget"""
    key = task.cache_key()
    tmo = getattr(task, "timeout_ms", None)
    if tmo is not None:
        key = key.replace("|%s|" % tmo, "|", 1)
    return hashlib.sha256(key.encode()).hexdigest()[:20]


def _run_one(args):
    r = _run_one_inner(args)
    try:
        r["dep"] = task_dep(args[0])
    except Exception:      # noqa
        r["dep"] = None
    return r


def _unit_hashes(root, keys):
    from . import extract
    import ast
    key = os.path.abspath(root)
    repo = _dep_cache.get(key)
    if repo is None:
        repo = _dep_cache[key] = extract.Repo(root)
    out = {}
    for k in sorted(keys):
        out[k] = hashlib.sha256(ast.dump(repo.units[k].node).encode()).hexdigest()[:16] if k in repo.units else "missing"
    return out


def _run_one_inner(args):
    task, cdir, use_cache = args
    fn = os.path.join(cdir, hashlib.sha256(task.cache_key().encode()).hexdigest()[:24] + ".json")
    if use_cache and os.path.exists(fn):
        try:
            with open(fn) as f:
                r = json.load(f)
            # a cached result is used only if every function body the task executed is unchanged - whatever the
            # task declared as its dependencies
            ur = r.get("units_read")
            if ur is not None and _unit_hashes(task.root, ur) == ur:
                r["cached"] = True
                return r
        except Exception:       # noqa
            pass
    import sys
    cm = sys.modules.get("contracts.core")
    if cm is not None:
        cm._OPEN = 0      # per-task count of undischarged obligations (fast mode for the rest of a failing task)
    im = sys.modules.get("pyvc.interp")
    if im is not None:
        im.UNITS_READ.clear()
        im.CONTRACTS_USED.clear()
    r = task.run()
    r["cached"] = False
    r["contracts_used"] = sorted(im.CONTRACTS_USED) if im is not None else []
    try:
        r["units_read"] = _unit_hashes(task.root, set(im.UNITS_READ) if im is not None else set())
    except Exception:           # noqa
        r["units_read"] = None
    try:
        tmp = fn + ".%d.tmp" % os.getpid()
        with open(tmp, "w") as f:
            json.dump(r, f, default=str)
        os.replace(tmp, fn)
    except Exception:           # noqa
        pass
    return r


def _child(args, path):
    """body of a worker process: never returns into the caller's code"""
    try:
        try:
            r = _run_one(args)
        except BaseException as e:       # noqa
            import traceback
            r = {"task": getattr(args[0], "name", "?"), "status": "crash", "detail": "%s\n%s" % (e, traceback.format_exc()), "obligations": []}
        tmp = path + ".tmp"
        try:
            with open(tmp, "w") as f:
                json.dump(r, f, default=str)
        except BaseException as e:       # noqa
            with open(tmp, "w") as f:
                json.dump({"task": getattr(args[0], "name", "?"), "status": "crash", "detail": "result not serialisable: %s" % e, "obligations": []}, f)
        os.replace(tmp, path)
    finally:
        os._exit(0)


def run_tasks(tasks, root, procs=None, use_cache=True):
    """One forked process per task, at most `procs` at a time, longest first.  A task that exceeds the
    wall-clock limit (PYVC_TASK_LIMIT_S, default 900 s) is killed and reported as undecided
    (out-of-subset: no verdict either way) so that a check always terminates."""
    import tempfile
    import time
    procs = procs or int(os.environ.get("PYVC_PROCS", "16"))
    limit = float(os.environ.get("PYVC_TASK_LIMIT_S", "900"))
    cdir = cache_dir(root)
    order = sorted(range(len(tasks)), key=lambda i: -getattr(tasks[i], "weight", 1))
    out = [None] * len(tasks)
    if procs <= 1 or len(tasks) <= 1:
        for i in order:
            out[i] = _run_one((tasks[i], cdir, use_cache))
        return out
    tmpd = tempfile.mkdtemp(prefix="pyvc_", dir=os.environ.get("PYVC_SCRATCH") or None)
    pending = list(order)
    running = {}      # pid -> (index, path, start)
    retried = set()
    try:
        while pending or running:
            while pending and len(running) < procs:
                i = pending.pop(0)
                path = os.path.join(tmpd, "%d.json" % i)
                pid = os.fork()
                if pid == 0:
                    _child((tasks[i], cdir, use_cache), path)
                running[pid] = (i, path, time.time())
            time.sleep(0.05)
            for pid in list(running):
                i, path, t0 = running[pid]
                done, _ = os.waitpid(pid, os.WNOHANG)
                if done:
                    del running[pid]
                    try:
                        with open(path) as f:
                            out[i] = json.load(f)
                    except Exception as e:      # noqa
                        # the worker was killed from outside (e.g. memory pressure): run the task once more before giving up
                        if i not in retried:
                            retried.add(i)
                            pending.append(i)
                        else:
                            out[i] = {"task": getattr(tasks[i], "name", "?"), "status": "crash", "detail": "worker died twice without a result (%s)" % e, "obligations": []}
                elif time.time() - t0 > limit:
                    try:
                        os.kill(pid, 9)
                        os.waitpid(pid, 0)
                    except Exception:      # noqa
                        pass
                    del running[pid]
                    try:
                        dep = task_dep(tasks[i])
                    except Exception:      # noqa
                        dep = None
                    out[i] = {"task": getattr(tasks[i], "name", "?"), "function": getattr(tasks[i], "name", "?"), "status": "out-of-subset", "obligations": [], "dep": dep,
                              "detail": "the verification task exceeded its wall-clock limit of %d s and was stopped (no verdict)" % limit}
                    # the directed search on the real code that the task would have run on failure
                    if hasattr(tasks[i], "failure_search"):
                        try:
                            tasks[i].failure_search(out[i])
                        except Exception:      # noqa
                            pass
    finally:
        for pid in running:
            try:
                os.kill(pid, 9)
            except Exception:      # noqa
                pass
        import shutil
        shutil.rmtree(tmpd, ignore_errors=True)
    return out


def rt_call(module, job, root, timeout=600):
    """Run a helper under the repository's interpreter against the tree at `root`."""
    env = dict(os.environ)
    env["PYTHONPATH"] = VERIF + os.pathsep + root
    env["PYTHONDONTWRITEBYTECODE"] = "1"
    p = subprocess.run([RT_PYTHON, "-m", module], input=json.dumps(job), capture_output=True, text=True,
                       env=env, timeout=timeout, cwd=root)
    if p.returncode != 0:
        raise RuntimeError("rt helper %s failed: %s" % (module, p.stderr[-2000:]))
    return json.loads(p.stdout)
