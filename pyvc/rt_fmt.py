"""Run-time helper (real code): format-checker registry by reflection, and the bounded conformance
search of the built-in string formats against independently written grammars (C13)."""
import itertools
import json
import re
import sys


def load(root):
    sys.path.insert(0, root)
    import jsonschema
    from jsonschema import _format
    assert jsonschema.__file__.startswith(root)
    return jsonschema, _format


def names(r):
    if isinstance(r, tuple):
        return sorted(x.__name__ for x in r)
    return [r.__name__]


def registry(job):
    jsonschema, _format = load(job["root"])
    out = {}
    objs = {"class": _format.FormatChecker.checkers, "draft3": _format.draft3_format_checker.checkers,
            "draft4": _format.draft4_format_checker.checkers, "draft6": _format.draft6_format_checker.checkers,
            "draft7": _format.draft7_format_checker.checkers}
    for nm, d in objs.items():
        out[nm] = {fmt: {"func": f.__name__, "raises": names(r), "line": f.__code__.co_firstlineno} for fmt, (f, r) in d.items()}
    return {"checkers": out}


# ---- independent grammars ---------------------------------------------------------------------------
_OCTET = r"(?:25[0-5]|2[0-4][0-9]|1[0-9][0-9]|[1-9]?[0-9])"
_IPV4 = re.compile(r"\A%s(?:\.%s){3}\Z" % (_OCTET, _OCTET))


def g_ipv4(s):
    return bool(_IPV4.match(s)) and s.isascii()


_H16 = re.compile(r"\A[0-9A-Fa-f]{1,4}\Z")


def g_ipv6(s):
    """RFC 4291 section 2.2 text forms; no zone id, no prefix length"""
    if not s.isascii() or "%" in s or "/" in s:
        return False
    if s.count("::") > 1 or ":::" in s:
        return False
    def groups(part):
        return part.split(":") if part else []
    tail4 = 0
    if "::" in s:
        left, right = s.split("::")
        L, R = groups(left), groups(right)
        parts = L + R
        last = R[-1] if R else (L[-1] if L and not right and False else None)
    else:
        L, R = groups(s), []
        parts = L
    if not "::" in s and len(parts) == 0:
        return False
    # embedded IPv4 only as the last group
    if parts and "." in parts[-1]:
        if not g_ipv4(parts[-1]):
            return False
        body, tail4 = parts[:-1], 2
        # the IPv4 tail must be the last group of the whole address
        if "::" in s and not R:
            return False
    else:
        body = parts
    if any(not _H16.match(g) for g in body):
        return False
    n = len(body) + tail4
    if "::" in s:
        return n <= 7
    return n == 8


def g_date(s):
    m = re.match(r"\A([0-9]{4})-([0-9]{2})-([0-9]{2})\Z", s)
    if not m or not s.isascii():
        return False
    y, mo, d = int(m.group(1)), int(m.group(2)), int(m.group(3))
    if y < 1 or not (1 <= mo <= 12):
        return False          # year 0000 is not representable in the proleptic calendar used (stated assumption)
    leap = y % 4 == 0 and (y % 100 != 0 or y % 400 == 0)
    dim = [31, 29 if leap else 28, 31, 30, 31, 30, 31, 31, 30, 31, 30, 31][mo - 1]
    return 1 <= d <= dim


def g_regex(s):
    try:
        re.compile(s)
        return True
    except RecursionError:
        return None           # outside the model
    except Exception:         # noqa
        return False


def g_email(s):
    return "@" in s


GRAMMARS = {"ipv4": g_ipv4, "ip-address": g_ipv4, "ipv6": g_ipv6, "date": g_date, "regex": g_regex, "email": g_email, "idn-email": g_email}

SEEDS = {
    "ipv4": ["127.0.0.1", "0.0.0.0", "255.255.255.255", "256.1.1.1", "1.2.3", "1.2.3.4.5", "01.2.3.4", "1.2.3.04", "1.2.3.4 ", " 1.2.3.4", "1..3.4", "١.2.3.4", "1.2.3.4\n", "0x7f.0.0.1", "1.2.3.-4"],
    "ipv6": ["::", "::1", "1::", "1:2:3:4:5:6:7:8", "1:2:3:4:5:6:7::", "::2:3:4:5:6:7:8", "1::8", "1:2:3:4:5:6:1.2.3.4", "::ffff:1.2.3.4", "::1.2.3.4",
             "1:2:3:4:5:6:7", "1:2:3:4:5:6:7:8:9", "12345::", "1::2::3", ":::", "fe80::1%eth0", "::1/64", "1:2:3:4:5:6:7:1.2.3.4", "::g", "1.2.3.4::", ":1", "1:", "::01.2.3.4"],
    "date": ["2020-01-01", "2020-02-29", "2019-02-29", "1900-02-29", "2000-02-29", "2020-13-01", "2020-00-10", "2020-04-31", "20200101", "2020-W01-1", "2020-1-1",
             "2020-01-01T00:00:00", " 2020-01-01", "2020-01-01 ", "2020-01-01\n", "２０２０-01-01", "0001-01-01", "9999-12-31", "2020-001", "+2020-01-01", "2020-01-32"],
    "regex": ["a+", "(a", "a{2,1}", "a{99999999999}", "[a-", "\\", "(?<=a+)b", "(?P<n>a)(?P=n)", "*a", "a**", "(?i)a", "[z-a]", "\\1", "a{,}", "(?#c", "a{1,99999999999}"],
    "email": ["a@b", "ab", "@", "", "a@b@c"],
}
EDIT_ALPHA = {"ipv4": "0125.6 9-:x١", "ipv6": "01:fF.g%/ ١", "date": "0123-9W T٢", "regex": "a(){}[]\\*+?,19|^$", "email": "@a ."}


def edits(seed, alpha):
    out = {seed}
    for i in range(len(seed) + 1):
        for c in alpha:
            out.add(seed[:i] + c + seed[i:])
    for i in range(len(seed)):
        out.add(seed[:i] + seed[i + 1:])
        for c in alpha:
            out.add(seed[:i] + c + seed[i + 1:])
    return out


WEIRD = ["", "\x00", "a\x00b", "\ud800", "\U0001F600", " ", "\n", "1" * 400, "(" * 50, "١٢", "१२३", "²", "a" * 70 + ".com", "xn--", "‍"]


def search(job):
    jsonschema, _format = load(job["root"])
    out, tried = [], 0
    checkers = {"class": jsonschema.FormatChecker(), "draft3": _format.draft3_format_checker, "draft4": _format.draft4_format_checker,
                "draft6": _format.draft6_format_checker, "draft7": _format.draft7_format_checker}
    limit = job.get("limit", 3)
    for cname, chk in checkers.items():
        for fmt in sorted(chk.checkers):
            g = GRAMMARS.get(fmt)
            base = {"ip-address": "ipv4", "idn-email": "email"}.get(fmt, fmt)
            strings = set(WEIRD)
            for seed in SEEDS.get(base, []):
                strings |= edits(seed, EDIT_ALPHA.get(base, "a"))
            if job.get("quick") and cname != "class":
                strings = set(WEIRD) | set(SEEDS.get(base, []))
            for s in sorted(strings):
                tried += 1
                try:
                    r = chk.conforms(s, fmt)
                except RecursionError:
                    continue
                except Exception as e:      # noqa
                    out.append({"kind": "S", "checker": cname, "format": fmt, "string": s, "problem": "conforms raised %s" % type(e).__name__})
                    if len(out) >= limit:
                        return {"failures": out, "tried": tried}
                    continue
                if not isinstance(r, bool):
                    out.append({"kind": "F", "checker": cname, "format": fmt, "string": s, "problem": "conforms returned %r" % (r,)})
                    continue
                if g is not None:
                    exp = g(s)
                    if exp is not None and exp != r:
                        out.append({"kind": "F", "checker": cname, "format": fmt, "string": s, "problem": "conforms == %r but the grammar says %r" % (r, exp)})
                        if len(out) >= limit:
                            return {"failures": out, "tried": tried}
            # non-strings always pass
            for x in (None, True, 0, 1.5, [], {}, ["1.2.3.4"], 12345678):
                tried += 1
                try:
                    if chk.conforms(x, fmt) is not True:
                        out.append({"kind": "F", "checker": cname, "format": fmt, "string": repr(x), "problem": "non-string instance rejected"})
                except Exception as e:      # noqa
                    out.append({"kind": "S", "checker": cname, "format": fmt, "string": repr(x), "problem": "conforms raised %s on a non-string" % type(e).__name__})
    return {"failures": out[:limit], "tried": tried}


def replay(job):
    jsonschema, _format = load(job["root"])
    f = job["failure"]
    chk = {"class": jsonschema.FormatChecker(), "draft3": _format.draft3_format_checker, "draft4": _format.draft4_format_checker,
           "draft6": _format.draft6_format_checker, "draft7": _format.draft7_format_checker}[f["checker"]]
    s, fmt = f["string"], f["format"]
    try:
        r = chk.conforms(s, fmt)
    except Exception as e:      # noqa
        return {"status": "fails", "failure": dict(f, problem="conforms raised %s" % type(e).__name__)}
    g = GRAMMARS.get(fmt)
    if g is not None and g(s) is not None and g(s) != r:
        return {"status": "fails", "failure": dict(f, problem="conforms == %r but the grammar says %r" % (r, g(s)))}
    return {"status": "agrees"}


def custom(job):
    """C12 on the real code: custom checker functions returning truthy / falsy values or raising
    listed / unlisted exceptions, on instances of every JSON type, through check, conforms and validation."""
    jsonschema, _format = load(job["root"])
    from jsonschema import exceptions, validators
    out, tried = [], 0

    instances = [None, True, 0, 1, 1.5, "s", "", [], [1], {}, {"a": 1}]
    combos = []
    for base in (Exception, KeyError, ValueError, TypeError, LookupError, AttributeError, IndexError):
        L = type("Listed", (base,), {})
        U = type("Unlisted", (base,), {})
        bs = [("listed", None), ("unlisted", None)]
        if base is Exception:
            bs = [("ret", v) for v in (True, 1, "x", [0], 2.5, False, 0, 0.0, "", [], {}, None)] + bs
        combos.append((L, U, bs))
    for d, cls in ((3, validators.Draft3Validator), (4, validators.Draft4Validator), (6, validators.Draft6Validator), (7, validators.Draft7Validator)):
      for Listed, Unlisted, behaviours in combos:
        for kind, val in behaviours:
            for inst in instances:
                tried += 1
                calls = []
                chk = jsonschema.FormatChecker(formats=())

                def f(x, kind=kind, val=val):
                    calls.append(x)
                    if kind == "ret":
                        return val
                    if kind == "listed":
                        raise Listed("l") from ValueError("what went wrong inside")      # the cause reported is the exception RAISED, not its own cause
                    raise Unlisted("u")
                chk.checks("custom", raises=Listed)(f)
                want_ok = kind == "ret" and bool(val)
                prob = None
                # conforms
                try:
                    c = chk.conforms(inst, "custom")
                    if kind == "unlisted":
                        prob = "conforms swallowed an unlisted exception"
                    elif c is not want_ok:
                        prob = "conforms == %r, expected %r" % (c, want_ok)
                except Unlisted:
                    if kind != "unlisted":
                        prob = "conforms raised"
                except Exception as e:      # noqa
                    prob = "conforms raised %s" % type(e).__name__
                # validation with and without checker
                if prob is None:
                    try:
                        errs = list(cls({"format": "custom"}, format_checker=chk).iter_errors(inst))
                        if kind == "unlisted":
                            prob = "validation swallowed an unlisted exception"
                        elif (not errs) != want_ok:
                            prob = "validation gave %d errors, conforms expected %r" % (len(errs), want_ok)
                        elif errs and kind == "listed" and not isinstance(errs[0].cause, Listed):
                            prob = "cause is not the listed exception"
                        elif errs and kind == "ret" and errs[0].cause is not None:
                            prob = "cause set although the function returned"
                    except Unlisted:
                        if kind != "unlisted":
                            prob = "validation raised"
                    except Exception as e:      # noqa
                        prob = "validation raised %s" % type(e).__name__
                if prob is None:
                    if list(cls({"format": "custom"}).iter_errors(inst)) or list(cls({"format": "unknown-name"}, format_checker=chk).iter_errors(inst)):
                        prob = "format had an effect without a checker / for an unknown name"
                if prob is None and len(calls) != 2:
                    prob = "checker function called %d times for two checks" % len(calls)
                if prob:
                    out.append({"kind": "F", "draft": d, "behaviour": [kind, repr(val)], "instance": inst, "problem": prob})
                    if len(out) >= 3:
                        return {"failures": out, "tried": tried}
    # sequences of registrations under one name: the entry in force is exactly the LAST (func, raises) registered; what an
    # earlier registration listed (or the stock entry listed) is not listed any more unless it is given again
    class Old(Exception):
        pass

    class New(Exception):
        pass
    stock = sorted(n for n, (fn, r) in jsonschema.FormatChecker().checkers.items() if r)
    for d, cls in ((3, validators.Draft3Validator), (7, validators.Draft7Validator)):
        for name in ["custom"] + stock:
            for second in ("none", "empty", "new"):
                for raised in (Old, New, ValueError):
                    tried += 1
                    chk = jsonschema.FormatChecker()
                    first_listed = chk.checkers[name][1] if name in chk.checkers else Old
                    if name == "custom":
                        chk.checks(name, raises=Old)(lambda x: True)

                    def g(x, raised=raised):
                        raise raised("boom")
                    if second == "none":
                        chk.checks(name)(g)
                    elif second == "empty":
                        chk.checks(name, raises=())(g)
                    else:
                        chk.checks(name, raises=New)(g)
                    listed_now = second == "new" and raised is New
                    for how in ("conforms", "check", "validation"):
                        try:
                            if how == "conforms":
                                r = chk.conforms("x", name)
                                got = "returned %r" % r
                                okay = listed_now and r is False
                            elif how == "check":
                                chk.check("x", name)
                                got, okay = "returned", False
                            else:
                                errs = list(cls({"format": name}, format_checker=chk).iter_errors("x"))
                                got = "%d error(s)" % len(errs)
                                okay = listed_now and len(errs) == 1 and isinstance(errs[0].cause, raised)
                        except exceptions.FormatError as e:
                            got, okay = "FormatError", listed_now and how == "check" and isinstance(e.cause, raised)
                        except raised:
                            got, okay = "propagated", not listed_now
                        except Exception as e:      # noqa
                            got, okay = "raised %s" % type(e).__name__, False
                        if not okay:
                            out.append({"kind": "F", "draft": d, "behaviour": ["re-registration", name, second, raised.__name__], "instance": "x",
                                        "problem": "format %r (first registered with raises=%r) re-registered with raises %s; the function raises %s, which is %s now: %s %s"
                                        % (name, getattr(first_listed, "__name__", first_listed), second, raised.__name__, "listed" if listed_now else "not listed", how, got)})
                            break
                    if len(out) >= 3:
                        return {"failures": out, "tried": tried}
    # names a checker does not know always pass - also names that OTHER checker objects know (other drafts' spellings),
    # and the validator agrees with its own checker's conforms()
    names = set()
    checkers = [("FormatChecker()", jsonschema.FormatChecker())] + [(n, getattr(_format, n)) for n in
                                                                  ("draft3_format_checker", "draft4_format_checker", "draft6_format_checker", "draft7_format_checker") if hasattr(_format, n)]
    for _, c in checkers:
        names |= set(c.checkers)
    names |= {"carrot", "", "host-name", "hostname", "ip-address", "ipv4", "colour"}
    bad = ["not an ip", "::::", "2020-13-45", "(", "not@@", " ", "\u0000", "1.2.3.4.5", "-a-"]
    for cname, c in checkers:
        for d, cls in ((3, validators.Draft3Validator), (4, validators.Draft4Validator), (7, validators.Draft7Validator)):
            for name in sorted(names):
                for x in bad:
                    tried += 1
                    try:
                        conf = c.conforms(x, name)
                        errs = list(cls({"format": name}, format_checker=c).iter_errors(x))
                    except Exception as e:      # noqa
                        out.append({"kind": "S", "draft": d, "behaviour": ["name", name], "instance": x, "problem": "%s raised %s for format %r" % (cname, type(e).__name__, name)})
                        continue
                    if name not in c.checkers and (not conf or errs):
                        out.append({"kind": "F", "draft": d, "behaviour": ["unknown-name", name], "instance": x,
                                    "problem": "%s does not know %r, yet conforms=%r and validation gave %d error(s)" % (cname, name, conf, len(errs))})
                    elif conf != (not errs):
                        out.append({"kind": "F", "draft": d, "behaviour": ["name", name], "instance": x,
                                    "problem": "%s: conforms(%r, %r) is %r but validation gave %d error(s)" % (cname, x, name, conf, len(errs))})
                    if len(out) >= 3:
                        return {"failures": out, "tried": tried}
    return {"failures": out, "tried": tried}


if __name__ == "__main__":
    job = json.load(sys.stdin)
    json.dump({"registry": registry, "search": search, "replay": replay, "custom": custom}[job["cmd"]](job), sys.stdout, default=str)
