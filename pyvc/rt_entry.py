"""Run-time helper (real code): agreement of the four entry points (C04), bounded stand-in / replay."""
import json
import sys


def load(root):
    sys.path.insert(0, root)
    import jsonschema
    from jsonschema import validators, exceptions
    assert jsonschema.__file__.startswith(root)
    return jsonschema, validators, exceptions


def ident(e):
    return (str(e.validator), e.message, tuple(e.relative_path), tuple(e.relative_schema_path), tuple(sorted((ident(c) for c in e.context), key=repr)))


def closure(errs):
    out = []
    for e in errs:
        out.append(e)
        out.extend(closure(e.context))
    return out


crash_mode = False


def check_one(mods, d, schema, instance, fmt=False):
    jsonschema, validators, exceptions = mods
    cls = {3: validators.Draft3Validator, 4: validators.Draft4Validator, 6: validators.Draft6Validator, 7: validators.Draft7Validator}[d]
    kw = {"format_checker": jsonschema.FormatChecker()} if fmt else {}
    # schema validity by the class itself
    try:
        cls.check_schema(schema)
        schema_ok, schema_err = True, None
    except exceptions.SchemaError as e:
        schema_ok, schema_err = False, e
    except Exception as e:      # noqa
        return "check_schema raised %s" % type(e).__name__
    # module-level validate
    try:
        jsonschema.validate(instance, schema, cls=cls, **kw)
        mod = None
    except exceptions.SchemaError as e:
        mod = e
    except exceptions.ValidationError as e:
        mod = e
    except exceptions.RefResolutionError:
        return None
    except Exception as e:      # noqa
        if schema_ok:
            if crash_mode and type(e).__name__ not in ("UnknownType",):
                return "module validate() let %s escape on a schema check_schema accepts" % type(e).__name__
            return None      # crashes are C03
        return "module validate raised %s for a schema check_schema rejects (SchemaError expected first)" % type(e).__name__
    if not schema_ok:
        if not isinstance(mod, exceptions.SchemaError):
            return "check_schema rejects the schema but validate() raised %r" % (type(mod).__name__ if mod else None)
        first = next(cls(cls.META_SCHEMA).iter_errors(schema))
        if ident(first) != ident(mod) or first.instance != mod.instance or first.validator_value != mod.validator_value:
            return "SchemaError does not carry the metaschema violation's fields"
        return None
    if isinstance(mod, exceptions.SchemaError):
        return "validate() raised SchemaError for a schema check_schema accepts"
    try:
        v = cls(schema, **kw)
        errs = list(v.iter_errors(instance))
        errs2 = list(v.iter_errors(instance))
        valid = v.is_valid(instance)
        try:
            v.validate(instance)
            first = None
        except exceptions.ValidationError as e:
            first = e
    except (exceptions.RefResolutionError, exceptions.UnknownType):
        return None
    except Exception as e:      # noqa
        if crash_mode:
            return "%s escapes a validator entry point on an accepted schema" % type(e).__name__
        return None
    if [ident(e) for e in errs] != [ident(e) for e in errs2]:
        return "repeating iter_errors gives different errors"
    if valid != (not errs):
        return "is_valid == %r but iter_errors yields %d error(s)" % (valid, len(errs))
    if (first is None) != (not errs):
        return "validate() %s but iter_errors yields %d error(s)" % ("raised" if first else "returned", len(errs))
    if first is not None and ident(first) != ident(errs[0]):
        return "validate() did not raise the first error of iter_errors"
    if (mod is None) != (not errs):
        return "module validate() %s but iter_errors yields %d error(s)" % ("raised" if mod else "returned", len(errs))
    if mod is not None:
        cl = closure(errs)
        if mod.context:
            return "module validate() raised an error that still has a context"
        if ident(mod) not in [ident(c) for c in cl]:
            return "module validate() raised an error that is not in the context closure of iter_errors"
        try:
            bm = exceptions.best_match(cls(schema, **kw).iter_errors(instance))
        except Exception:      # noqa
            bm = None
        if bm is not None and ident(bm) != ident(mod):
            return "module validate() raised %r, best_match(iter_errors) is %r" % (ident(mod), ident(bm))
    return None


def search(job):
    global crash_mode
    crash_mode = bool(job.get("crashes"))
    mods = load(job["root"])
    from pyvc.rt_kw import VALUE_POOL, INSTANCE_POOL, has_ref, patterns_ok
    out, tried = [], 0
    kws = ["type", "items", "properties", "anyOf", "oneOf", "enum", "minimum", "required", "pattern", "format", "additionalProperties", "not"]
    for d in (3, 4, 6, 7):
        for k in kws:
            for v in VALUE_POOL[::2]:
                schema = {k: v}
                if has_ref(schema) or not patterns_ok(schema):
                    continue
                for x in INSTANCE_POOL[::3]:
                    tried += 1
                    p = check_one(mods, d, schema, x, fmt=(k == "format"))
                    if p:
                        from pyvc.rt_kw import encode
                        out.append({"kind": "S" if crash_mode else "E", "draft": d, "schema": encode(schema), "instance": encode(x), "problem": p})
                        if len(out) >= 3:
                            return {"failures": out, "tried": tried}
        # nested anyOf / oneOf below the root (best_match descent)
        for schema, x in [({"properties": {"a": {"anyOf": [{"type": "string"}, {"minimum": 5}]}}}, {"a": 1}),
                          ({"items": {"oneOf": [{"type": "string"}, {"type": "integer", "minimum": 5}]}}, [1, "a", 7]),
                          ({"properties": {"a": False, "b": {"type": "string"}}}, {"a": 1, "b": 2}),
                          ({"anyOf": [False, {"type": "string"}]}, 1),
                          # several root-level keywords failing at once, weak (anyOf / oneOf) and strong, in both orders: module validate raises best_match
                          ({"oneOf": [{"type": "integer"}, {"minimum": 0}], "maximum": 10}, 12), ({"maximum": 10, "oneOf": [{"type": "integer"}, {"minimum": 0}]}, 12),
                          ({"anyOf": [{"type": "string"}, {"maximum": 3}], "minimum": 20, "type": "integer"}, 12), ({"type": "string", "anyOf": [{"minimum": 20}, {"type": "null"}]}, 12),
                          ({"oneOf": [{"type": "integer"}, {"type": "number"}], "enum": [1, 2]}, 12), ({"not": {"type": "integer"}, "maximum": 3}, 12),
                          ({"properties": {"a": {"type": "string"}}, "required": ["b"], "oneOf": [{"type": "object"}, {"minProperties": 1}]}, {"a": 1}),
                          ({"pattern": "("}, 1), ({"type": 12}, 1), ({"minimum": "x"}, 1),
                          # values that are no schemas at all: SchemaError comes first, before any validator object is built
                          (12, 1), ([], 1), (None, 1), ("string", 1), (True, 1), (False, 1), ({"id": 12, "$id": 12}, 1)]:
            tried += 1
            try:
                p = check_one(mods, d, schema, x)
                p2 = check_one(mods, d, schema, x, fmt=True)
            except Exception as e:      # noqa
                p, p2 = None, None
            if p or p2:
                out.append({"kind": "S" if crash_mode else "E", "draft": d, "schema": schema, "instance": x, "problem": p or p2, "fmt": bool(p2 and not p)})
    return {"failures": out[:3], "tried": tried}


def replay(job):
    global crash_mode
    mods = load(job["root"])
    from pyvc.rt_kw import decode
    f = job["failure"]
    crash_mode = f.get("kind") == "S"
    p = check_one(mods, f["draft"], decode(f["schema"]), decode(f["instance"]), fmt=f.get("fmt", False))
    if p:
        return {"status": "fails", "failure": dict(f, problem=p)}
    return {"status": "agrees"}


if __name__ == "__main__":
    job = json.load(sys.stdin)
    json.dump({"search": search, "replay": replay}[job["cmd"]](job), sys.stdout, default=str)
