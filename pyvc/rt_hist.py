"""Run-time helper (real code, /venv/bin/python): histories of operations on one validator object
(C07), fetch accounting (C15) and interleavings of several validators (C18), compared with fresh
objects.  Bounded stand-in and replay vehicle; never counted as proof."""
import copy
import itertools
import json
import random
import sys


def load(root):
    sys.path.insert(0, root)
    import jsonschema
    from jsonschema import validators, exceptions
    assert jsonschema.__file__.startswith(root)
    return jsonschema, validators, exceptions


# the document declares an id different from the URL it is retrieved from (a mirror): the store key must be the retrieval URL
DOC = {"$id": "mem://host/canonical.json", "id": "mem://host/canonical.json",
       "definitions": {"x": {"type": "integer"}, "y": {"minimum": 3}, "rel": {"$ref": "#/definitions/x"}}}


def templates(d):
    idk = "id" if d <= 4 else "$id"
    t1 = {idk: "http://example.com/root.json",
          "properties": {"a": {idk: "sub/", "properties": {"x": {"type": "integer"}, "y": {"$ref": "#/definitions/inner"}},
                               "definitions": {"inner": {"type": "string"}}},
                         "b": {"$ref": "#/definitions/pos"}, "c": {"$ref": "other.json#/definitions/x"}},
          "definitions": {"pos": {"minimum": 0}, "inner": {"type": "boolean"}}}
    t2 = {"properties": {"r": {"$ref": "mem://host/doc.json#/definitions/x"}, "s": {"$ref": "mem://host/doc.json#/definitions/y"},
                         "t": {"$ref": "mem://host/doc.json#/definitions/rel"},
                         # a different document whose URL differs only in letter case
                         "u": {"$ref": "mem://host/Doc.json#/definitions/x"}}}
    t3 = {idk: "http://example.com/t3.json", "definitions": {"n": {"type": "integer"}},
          "properties": {"p": {idk: "deep/", "type": "object", "properties": {"q": {"type": "integer"}, "z": {"$ref": "#/definitions/m"}},
                               "definitions": {"m": {"type": "null"}}},
                         "k": {"$ref": "#/definitions/n"}}}
    if d >= 4:
        t3["not"] = {idk: "neg/", "properties": {"p": {"type": "object", "required": ["never"]}}, "required": ["zzz"]}
        t3["anyOf"] = [{idk: "alt/", "properties": {"k": {"type": "string"}}}, {}]
    out = [("nested-ids", t1), ("remote", t2), ("abandon", t3)]
    return out


INSTANCES = {
    "nested-ids": [{"a": {"x": "bad", "y": 1}, "b": -1}, {"a": {"x": 1, "y": "s"}, "b": 1}, {"b": -5}, {"c": "nope"}, {}],
    "remote": [{"r": 1, "s": 5}, {"r": "x", "s": 1}, {"t": 1.5}, {}, {"u": 1}, {"u": "s"}],
    "abandon": [{"p": {"q": "bad", "z": 1}, "k": "s"}, {"p": {"q": 1, "z": None}, "k": 1}, {"k": 1.5}, {}],
}


class Handler:
    def __init__(self):
        self.calls = []
        self.served = []
        self.fail_next = 0

    def __call__(self, uri):
        self.calls.append(uri)
        if self.fail_next:
            self.fail_next -= 1
            raise IOError("transient failure")
        if uri.startswith("mem://host/Doc.json"):
            self.served.append(uri)
            return {"definitions": {"x": {"type": "string"}}}
        if uri.startswith("mem://host/doc.json"):
            self.served.append(uri)
            return copy.deepcopy(DOC)
        if uri.endswith("other.json"):
            self.served.append(uri)
            return {"definitions": {"x": {"type": "integer"}}}
        if uri.startswith("http://example.com/") and not uri.endswith("missing.json"):
            self.served.append(uri)
            return {"definitions": {"inner": {"type": "string"}, "m": {"type": "null"}, "n": {"type": "integer"}}}
        raise IOError("unknown uri " + uri)


def make(validators, d, schema, cache_remote=True, caches="default"):
    cls = {3: validators.Draft3Validator, 4: validators.Draft4Validator, 6: validators.Draft6Validator, 7: validators.Draft7Validator}[d]
    h = Handler()
    kw = {}
    if caches == "passthrough":
        from urllib.parse import urljoin
        kw["urljoin_cache"] = urljoin
    resolver = validators.RefResolver.from_schema(schema, id_of=cls.ID_OF, handlers={"mem": h, "http": h}, cache_remote=cache_remote, **kw)
    if caches == "passthrough":
        resolver._remote_cache = resolver.resolve_from_url
    return cls(schema, resolver=resolver), h


def summarise(errs):
    return sorted((str(e.validator), list(e.absolute_path), list(e.absolute_schema_path), e.message) for e in errs)


def do_op(v, h, op, inst, exceptions):
    kind = op[0]
    try:
        if kind == "is_valid":
            return ["is_valid", v.is_valid(inst)]
        if kind == "iter":
            return ["iter", summarise(v.iter_errors(inst))]
        if kind == "validate":
            try:
                v.validate(inst)
                return ["validate", None]
            except exceptions.ValidationError as e:
                return ["validate", [str(e.validator), list(e.absolute_path), e.message]]
        if kind == "take-close":
            it = v.iter_errors(inst)
            got = list(itertools.islice(it, op[1]))
            it.close()
            return ["take-close", summarise(got)]
        if kind == "take-drop":
            it = v.iter_errors(inst)
            got = list(itertools.islice(it, op[1]))
            del it
            return ["take-drop", summarise(got)]
        if kind == "resolve":
            url, doc = v.resolver.resolve(op[1])
            return ["resolve", url, doc]
        if kind == "fail-next":
            h.fail_next = op[1]
            return ["fail-next"]
    except exceptions.RefResolutionError as e:
        return [kind, "RefResolutionError"]
    except Exception as e:      # noqa
        return [kind, "EXC " + type(e).__name__]
    raise ValueError(op)


OPS = [("is_valid",), ("iter",), ("validate",), ("take-close", 1), ("take-drop", 1), ("take-drop", 0), ("fail-next", 1),
       ("resolve", "#/definitions/pos"), ("resolve", "mem://host/doc.json#/definitions/x")]


def run_history(mods, d, tname, schema, hist, cache_remote=True, caches="default"):
    """-> problem description or None"""
    jsonschema, validators, exceptions = mods
    s0 = copy.deepcopy(schema)
    v, h = make(validators, d, schema, cache_remote, caches)
    scope0 = v.resolver.resolution_scope
    store0 = {k: copy.deepcopy(val) for k, val in v.resolver.store.items()}
    results = []
    pending_before_last = 0
    for idx, (op, ii) in enumerate(hist):
        inst = copy.deepcopy(INSTANCES[tname][ii])
        keep = copy.deepcopy(inst)
        if idx == len(hist) - 1:
            pending_before_last = h.fail_next
        r = do_op(v, h, op, inst, exceptions)
        results.append(r)
        if inst != keep:
            return "instance modified by %s" % (op,)
        try:
            now = v.resolver.resolution_scope
        except IndexError:
            return "the resolver's scope stack is empty after %s" % (op,)
        if now != scope0:
            return "resolution scope is %r after %s (was %r)" % (now, op, scope0)
    if schema != s0:
        return "schema modified"
    for k, val in store0.items():
        if v.resolver.store[k] != val:
            return "store document %s modified" % k
    if not cache_remote and set(v.resolver.store) != set(store0):
        return "store gained entries with cache_remote off: %s" % sorted(set(v.resolver.store) - set(store0))
    docs = {}
    for u in h.served:
        docs[u] = docs.get(u, 0) + 1
    # the last operation must give what a fresh validator gives (same environment: compared only when
    # no handler failure is pending, since a pending failure is part of the environment, not of the history)
    op, ii = hist[-1]
    if op[0] != "fail-next" and pending_before_last == 0:
        fv, fh = make(validators, d, copy.deepcopy(s0), cache_remote, caches)
        fr = do_op(fv, fh, op, copy.deepcopy(INSTANCES[tname][ii]), exceptions)
        if fr != results[-1]:
            return "result of %s on instance #%d differs from a fresh validator: %r vs fresh %r" % (op, ii, results[-1], fr)
    if cache_remote and caches == "default":
        for u, n in docs.items():
            if n > 1:
                return "document %s fetched successfully %d times with caching on" % (u, n)
    return None


def _strip(r):
    return r


def histories(tname, maxlen, rng, sample):
    n_inst = len(INSTANCES[tname])
    alphabet = [(op, i) for op in OPS for i in range(n_inst) if not (op[0] in ("fail-next", "resolve") and i > 0)]
    out = []
    for L in range(1, min(maxlen, 2) + 1):
        out.extend(itertools.product(alphabet, repeat=L))
    if maxlen >= 3:
        for _ in range(sample):
            out.append(tuple(rng.choice(alphabet) for _ in range(3)))
    return out


def search(job):
    mods = load(job["root"])
    rng = random.Random(job.get("seed", 0))
    out, tried = [], 0
    for d in job.get("drafts", (3, 4, 6, 7)):
        for tname, schema in templates(d):
            for hist in histories(tname, job.get("maxlen", 2), rng, job.get("sample", 200)):
                for cache_remote, caches in job.get("configs", [(True, "default")]):
                    tried += 1
                    p = run_history(mods, d, tname, copy.deepcopy(schema), hist, cache_remote, caches)
                    if p:
                        out.append({"kind": "H", "draft": d, "template": tname, "history": [[list(o), i] for o, i in hist],
                                    "cache_remote": cache_remote, "caches": caches, "problem": p})
                        if len(out) >= job.get("limit", 3):
                            return {"failures": out, "tried": tried}
    return {"failures": out, "tried": tried}


def replay(job):
    mods = load(job["root"])
    f = job["failure"]
    schema = dict(templates(f["draft"]))[f["template"]]
    hist = [(tuple(o), i) for o, i in f["history"]]
    p = run_history(mods, f["draft"], f["template"], copy.deepcopy(schema), hist, f.get("cache_remote", True), f.get("caches", "default"))
    if p:
        return {"status": "fails", "failure": dict(f, problem=p)}
    return {"status": "agrees"}


# ---- C18: interleavings of validators with their own resolvers, colliding on every shared key
def interleave(job):
    mods = load(job["root"])
    jsonschema, validators, exceptions = mods
    out, tried = [], 0
    rng = random.Random(job.get("seed", 0))
    for d in job.get("drafts", (4, 7)):
        idk = "id" if d <= 4 else "$id"
        A = {idk: "http://example.com/s.json", "definitions": {"t": {"type": "integer"}},
             "properties": {"u": {idk: "n/", "properties": {"w": {"type": "integer"}}}, "v": {"$ref": "#/definitions/t"}},
             "items": {"$ref": "#/definitions/t"}}
        Bs = {idk: "http://example.com/s.json", "definitions": {"t": {"type": "string"}},
              "properties": {"u": {idk: "n/", "properties": {"w": {"type": "string"}}}, "v": {"$ref": "#/definitions/t"}},
              "items": {"$ref": "#/definitions/t"}}
        shared_inst = [{"u": {"w": None}, "v": None}, [None, None, None]]
        cls = {3: validators.Draft3Validator, 4: validators.Draft4Validator, 6: validators.Draft6Validator, 7: validators.Draft7Validator}[d]
        for inst in shared_inst:
            solo = [summarise(cls(copy.deepcopy(s)).iter_errors(inst)) for s in (A, Bs)]
            n = [len(x) for x in solo]
            schedules = set()
            base = [0] * (n[0] + 1) + [1] * (n[1] + 1)
            for _ in range(job.get("schedules", 60)):
                rng.shuffle(base)
                schedules.add(tuple(base))
            for sched in sorted(schedules):
                tried += 1
                vs = [cls(copy.deepcopy(A)), cls(copy.deepcopy(Bs))]
                its = [vs[0].iter_errors(inst), vs[1].iter_errors(inst)]
                got = [[], []]
                try:
                    for who in sched:
                        e = next(its[who], None)
                        if e is not None:
                            got[who].append(e)
                    res = [summarise(g) for g in got]
                except Exception as e:      # noqa
                    res = "EXC %s" % type(e).__name__
                if res != solo:
                    out.append({"kind": "I", "draft": d, "instance": inst, "schedule": list(sched), "problem": "interleaved result differs from solo runs"})
                    if len(out) >= 2:
                        return {"failures": out, "tried": tried}
    # the same schema *object* given to two validators; handlers registered after construction
    for d in job.get("drafts", (4, 7)):
        idk = "id" if d <= 4 else "$id"
        cls = {3: validators.Draft3Validator, 4: validators.Draft4Validator, 6: validators.Draft6Validator, 7: validators.Draft7Validator}[d]
        shared = {"definitions": {"t": {"type": "integer"}},
                  "properties": {"u": {idk: "file:///nonexistent-pyvc/sub/", "properties": {"w": {"type": "integer"}, "w2": {"type": "integer"}}},
                                 "v": {"$ref": "#/definitions/t"}}}
        inst = {"u": {"w": None, "w2": None}, "v": None}
        solo = summarise(cls(shared).iter_errors(inst))
        for sched in ([0, 1, 1, 1, 1, 0, 0, 0], [0, 0, 1, 1, 1, 1, 0, 0], [1, 0, 0, 0, 0, 1, 1, 1]):
            tried += 1
            vs = [cls(shared), cls(shared)]
            its = [vs[0].iter_errors(inst), vs[1].iter_errors(inst)]
            got = [[], []]
            try:
                for who in sched:
                    e = next(its[who], None)
                    if e is not None:
                        got[who].append(e)
                res = [summarise(g) for g in got]
            except Exception as e:      # noqa
                res = "EXC %s" % type(e).__name__
            if res != [solo, solo]:
                out.append({"kind": "I", "draft": d, "instance": inst, "schedule": sched, "shared_schema_object": True,
                            "problem": "two validators built from the same schema object interfere: %r" % (res if isinstance(res, str) else "different errors")})
                break
        docs = {"A": {"definitions": {"t": {"type": "integer"}}}, "B": {"definitions": {"t": {"type": "string"}}}}
        sch = {"properties": {"k": {"$ref": "mem://h/doc.json#/definitions/t"}}}
        va, vb = cls(copy.deepcopy(sch)), cls(copy.deepcopy(sch))
        va.resolver.handlers["mem"] = lambda uri: copy.deepcopy(docs["A"])
        vb.resolver.handlers["mem"] = lambda uri: copy.deepcopy(docs["B"])
        tried += 1
        try:
            ra, rb = va.is_valid({"k": 1}), vb.is_valid({"k": 1})
        except Exception as e:      # noqa
            ra, rb = "EXC", type(e).__name__
        if (ra, rb) != (True, False):
            out.append({"kind": "I", "draft": d, "problem": "handlers registered on one validator's resolver after construction are seen by another's: results %r %r, expected True False" % (ra, rb)})
        # two validators with their own FormatChecker objects that give one format name different meanings
        tried += 1
        try:
            ca, cb = jsonschema.FormatChecker(), jsonschema.FormatChecker()
            ca.checks("code")(lambda x: not isinstance(x, str) or x.isupper())
            cb.checks("code")(lambda x: not isinstance(x, str) or x.islower())
            sa = {"items": {"format": "code"}}
            va, vb = cls(sa, format_checker=ca), cls(copy.deepcopy(sa), format_checker=cb)
            inst = ["ABC", "abc", "Abc"]
            solo_a, solo_b = [list(e.path) for e in cls(sa, format_checker=ca).iter_errors(inst)], [list(e.path) for e in cls(sa, format_checker=cb).iter_errors(inst)]
            ia, ib = va.iter_errors(inst), vb.iter_errors(inst)
            got_a, got_b = [], []
            for turn in (0, 1, 1, 0, 0, 1, 0, 1):
                it, acc = (ia, got_a) if turn == 0 else (ib, got_b)
                e = next(it, None)
                if e is not None:
                    acc.append(list(e.path))
            if (got_a, got_b) != (solo_a, solo_b) or solo_a != [[1], [2]] or solo_b != [[0], [2]]:
                out.append({"kind": "I", "draft": d, "problem": "validators with separate FormatChecker objects influence each other: %r %r, alone %r %r" % (got_a, got_b, solo_a, solo_b)})
        except Exception as e:      # noqa
            out.append({"kind": "I", "draft": d, "problem": "format-checker independence scenario raised %s" % type(e).__name__})
    return {"failures": out[:3], "tried": tried}


if __name__ == "__main__":
    job = json.load(sys.stdin)
    json.dump({"search": search, "replay": replay, "interleave": interleave}[job["cmd"]](job), sys.stdout, default=str)
