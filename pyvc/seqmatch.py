"""Structural comparison of result sequences (C05, C06): the sequence produced by symbolic execution
of a keyword function against the expected structure written in the specification layer.

Both sequences are flattened to *leaves*: (binders, guard, item) where binders are the enclosing
flat-map index ranges, guard the conjunction of the alternative guards on the way, item either a
constructed error (One) or the result of a sub-validation (Gen), possibly mapped (ForErr).  Two
sequences are equal when their leaves correspond one to one with equal binder ranges, equivalent
guards and equal items.  The proof obligations (range equalities, guard equivalences, argument
equalities) are returned as SMT goals; shape differences raise Mismatch."""
import z3

from . import smt
from .values import *      # noqa
from .loops import value_equal


class Mismatch(Exception):
    """the shapes differ although the reachability of the yield sites was decided with generous budgets"""
    definite = True


class Leaf:
    def __init__(self, binders, guard, item, group):
        self.binders, self.guard, self.item, self.group = binders, guard, item, group

    def shape(self):
        return (len(self.binders), item_shape(self.item))


def item_shape(it):
    if isinstance(it, One):
        v = it.val
        if isinstance(v, ErrVal):
            return ("err", v.cls, len(_pv(v, "path").front), len(_pv(v, "schema_path").front) + len(_pv(v, "schema_path").back),
                    tuple(sorted(k for k, x in v.fields.items() if x is not UNSET and k in ("validator", "validator_value", "instance", "schema"))),
                    tuple(sorted(v.setif)), tuple(l.shape() for l in leaves(v.fields.get("context", NIL))) if v.base is None else ("elem",))
        return ("val",)
    if isinstance(it, Gen):
        return ("gen", it.key, tuple(_argshape(a) for a in it.args))
    if isinstance(it, ForErr):
        return ("map", item_shape(it.src), tuple(l.shape() for l in leaves(it.body)))
    return ("?", type(it).__name__)


def _argshape(a):
    if a is None:
        return "None"
    if isinstance(a, z3.ExprRef):
        return str(a.sort())
    return "c:%r" % (a,)


def _pv(e, f):
    v = e.fields.get(f)
    return v if isinstance(v, PathV) else PathV(base=("elem", f))


def leaves(seq, binders=(), guard=(), group=()):
    out = []
    if isinstance(seq, Nil):
        return out
    if isinstance(seq, ForErr) and _identity_map(seq):
        seq = seq.src          # `for e in gen: yield e`  ==  gen
    if isinstance(seq, (One, Gen, ForErr)):
        out.append(Leaf(binders, list(guard), seq, group))
    elif isinstance(seq, Cat):
        for idx, p in enumerate(seq.parts):
            out.extend(leaves(p, binders, guard, group + (("cat", idx),)))
    elif isinstance(seq, Alt):
        alts = []
        for c, b in seq.cases:
            alts.extend(leaves(b, binders, tuple(guard) + (c,), group + (("alt",),)))
        alts.sort(key=lambda l: repr(l.shape()))
        out.extend(alts)
    elif isinstance(seq, For):
        out.extend(leaves(seq.body, binders + ((seq.ivar, seq.lo, seq.n, seq.unordered),), guard, group + (("for",),)))
    else:
        raise Mismatch("cannot flatten %r" % (type(seq).__name__,))
    return out


def _identity_map(fe):
    b = fe.body
    if isinstance(b, One) and isinstance(b.val, ErrVal) and isinstance(b.val.base, ErrElem) and not b.val.fields and not b.val.setif:
        return True
    return False


def prune(ls, pc, timeout_ms=150):      # noqa
    """drop leaves that cannot be reached under the path condition (guard unsatisfiable)"""
    out = []
    for l in ls:
        cond = list(pc) + [z3.And(i >= lo, i < n) for (i, lo, n, u) in l.binders] + list(l.guard)
        r = smt.check_sat(cond, timeout_ms=timeout_ms, use_cvc5=False)
        if r.status != "unsat":
            out.append(l)
    return out


def _merge_message_variants(ls):
    """adjacent leaves with the same binders and items equal except for the (dropped) message text"""
    out = []
    for l in ls:
        if out and repr(out[-1].shape()) == repr(l.shape()) and len(out[-1].binders) == len(l.binders) and \
                all(a[0].eq(b[0]) for a, b in zip(out[-1].binders, l.binders)) and _same_item_syntactically(out[-1].item, l.item):
            prev = out[-1]
            g1 = z3.And(prev.guard) if prev.guard else z3.BoolVal(True)
            g2 = z3.And(l.guard) if l.guard else z3.BoolVal(True)
            out[-1] = Leaf(prev.binders, [z3.Or(g1, g2)], prev.item, prev.group)
        else:
            out.append(l)
    return out


def _same_item_syntactically(a, b):
    try:
        fs = item_equal(a, b)
    except Mismatch:
        return False
    return all(z3.is_true(z3.simplify(f)) for f in fs)


def item_equal(a, b):
    """-> list of z3 facts implying the two items are equal"""
    if isinstance(a, Gen) and isinstance(b, Gen):
        if a.key != b.key or len(a.args) != len(b.args):
            raise Mismatch("different sub-validations %s / %s" % (a.key, b.key))
        fs = []
        for x, y in zip(a.args, b.args):
            fs.append(_arg_equal(x, y))
        return fs
    if isinstance(a, One) and isinstance(b, One):
        if isinstance(a.val, ErrVal) and isinstance(b.val, ErrVal):
            return err_equal(a.val, b.val)
        f = value_equal(a.val, b.val)
        if f is None:
            raise Mismatch("cannot compare yielded values")
        return [f]
    if isinstance(a, ForErr) and isinstance(b, ForErr):
        fs = item_equal(a.src, b.src)
        la, lb = leaves(a.body), leaves(b.body)
        fs += match_leaves(la, lb)
        return fs
    raise Mismatch("items of different kind: %s / %s" % (type(a).__name__, type(b).__name__))


def _arg_equal(x, y):
    if x is None or y is None:
        if x is None and y is None:
            return z3.BoolVal(True)
        raise Mismatch("argument given on one side only (%r / %r)" % (x, y))
    if isinstance(x, z3.ExprRef) and isinstance(y, z3.ExprRef):
        if x.sort() != y.sort():
            # an int index against a V-sorted int value etc.
            if x.sort() == smt.I and y.sort() == smt.V:
                return smt.mk_int(x) == y
            if y.sort() == smt.I and x.sort() == smt.V:
                return smt.mk_int(y) == x
            if x.sort() == smt.S and y.sort() == smt.V:
                return smt.mk_str(x) == y
            if y.sort() == smt.S and x.sort() == smt.V:
                return smt.mk_str(y) == x
            raise Mismatch("argument sorts differ: %s / %s" % (x.sort(), y.sort()))
        return x == y
    if isinstance(x, z3.ExprRef) or isinstance(y, z3.ExprRef):
        t, c = (x, y) if isinstance(x, z3.ExprRef) else (y, x)
        if isinstance(c, bool):
            raise Mismatch("boolean constant argument")
        if isinstance(c, int):
            return (t == c) if t.sort() == smt.I else (t == smt.mk_int(z3.IntVal(c)))
        if isinstance(c, str):
            return (t == z3.StringVal(c)) if t.sort() == smt.S else (t == smt.mk_str(z3.StringVal(c)))
        raise Mismatch("constant argument %r" % (c,))
    if x == y:
        return z3.BoolVal(True)
    raise Mismatch("constant arguments differ: %r / %r" % (x, y))


def _path_equal(pa, pb, what):
    if (pa.base is None) != (pb.base is None) or (pa.base is not None and pa.base != pb.base):
        raise Mismatch("%s: different base" % what)
    if len(pa.front) != len(pb.front) or len(pa.back) != len(pb.back):
        raise Mismatch("%s: different number of elements (%d+%d / %d+%d)" % (what, len(pa.front), len(pa.back), len(pb.front), len(pb.back)))
    fs = []
    for x, y in list(zip(pa.front, pb.front)) + list(zip(pa.back, pb.back)):
        f = value_equal(x, y)
        if f is None:
            raise Mismatch("%s: incomparable elements %r / %r" % (what, x, y))
        fs.append(f)
    return fs


def err_equal(a, b):
    if a.cls != b.cls:
        raise Mismatch("error classes differ")
    if (a.base is None) != (b.base is None):
        raise Mismatch("constructed error vs. error of a sub-validation")
    fs = []
    fs += _path_equal(_pv(a, "path"), _pv(b, "path"), "path")
    fs += _path_equal(_pv(a, "schema_path"), _pv(b, "schema_path"), "schema_path")
    for k in ("validator", "validator_value", "instance", "schema"):
        for src_a, src_b, tag in ((a.fields, b.fields, "field"), (a.setif, b.setif, "_set")):
            x, y = src_a.get(k), src_b.get(k)
            if (x is None or x is UNSET) and (y is None or y is UNSET):
                continue
            if x is None or y is None or x is UNSET or y is UNSET:
                raise Mismatch("%s %s given on one side only" % (tag, k))
            f = value_equal(x, y)
            if f is None:
                raise Mismatch("%s %s incomparable" % (tag, k))
            fs.append(f)
    if a.base is None:
        ca, cb = a.fields.get("context", NIL), b.fields.get("context", NIL)
        fs += match_leaves(leaves(ca), leaves(cb))
    return fs


def match_leaves(la, lb):
    la, lb = _merge_message_variants(la), _merge_message_variants(lb)
    if len(la) != len(lb):
        raise Mismatch("different number of yield sites: %d vs %d expected (%s / %s)" %
                       (len(la), len(lb), [l.shape()[1][:2] for l in la], [l.shape()[1][:2] for l in lb]))
    facts = []
    for a, b in zip(la, lb):
        if len(a.binders) != len(b.binders):
            raise Mismatch("different loop nesting (%d vs %d)" % (len(a.binders), len(b.binders)))
        pairs_a, pairs_b, ranges = [], [], []
        ks = []
        for (ia, loa, na, ua), (ib, lob, nb, ub) in zip(a.binders, b.binders):
            k = smt.fresh("m", smt.I)
            ks.append(k)
            pairs_a.append((ia, k))
            pairs_b.append((ib, k))
        ctx = []
        for idx, ((ia, loa, na, ua), (ib, lob, nb, ub)) in enumerate(zip(a.binders, b.binders)):
            loa2, na2 = subst(loa, pairs_a), subst(na, pairs_a)
            lob2, nb2 = subst(lob, pairs_b), subst(nb, pairs_b)
            rng_eq = z3.And(loa2 == lob2, na2 == nb2)
            facts.append(_quant(ks[:idx], ctx, rng_eq))
            ctx.append(z3.And(ks[idx] >= loa2, ks[idx] < na2))
        ga = z3.And([subst(g, pairs_a) for g in a.guard]) if a.guard else z3.BoolVal(True)
        gb = z3.And([subst(g, pairs_b) for g in b.guard]) if b.guard else z3.BoolVal(True)
        facts.append(_quant(ks, ctx, ga == gb))
        ia_, ib_ = subst(a.item, pairs_a), subst(b.item, pairs_b)
        for f in item_equal(ia_, ib_):
            facts.append(_quant(ks, ctx + [ga], f))
    return facts


def _quant(ks, ctx, f):
    body = z3.Implies(z3.And(ctx), f) if ctx else f
    return z3.ForAll(list(ks), body) if ks else body


def match(actual, expected, pc=()):
    """-> list of z3 goals; raises Mismatch on shape differences"""
    la, lb = leaves(actual), leaves(expected)
    try:
        return match_leaves(la, lb)
    except Mismatch:
        if not pc:
            raise
    # escalating budgets: an unreachable yield site is refuted in well under a second when the machine is
    # idle, but the verdict must not flip under load
    last = None
    for budget in (150, 3000, 12000):
        try:
            return match_leaves(prune(la, pc, budget), prune(lb, pc, budget))
        except Mismatch as e:
            last = e
    raise last
