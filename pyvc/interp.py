"""Symbolic executor over the real Python AST (DESIGN.md section 3.2).

exec_* return lists of outcomes (state, ctl); eval returns lists of (state, value) where value may
be a Raised marker.  Branches fork the state; loops over symbolic containers are summarised as
flat-maps with optional early exit; calls to functions with a contract use the contract.
"""
import ast
import itertools
import os


import z3

from . import smt
from .smt import V, kind, bval, ival, fval, sval, llen, lget, dlen, dkey, dval, dhas, dget
from .smt import K_NONE, K_BOOL, K_INT, K_FLOAT, K_STR, K_LIST, K_DICT, K_OBJ
from .values import *      # noqa


class Raised:
    __slots__ = ("exc",)

    def __init__(self, exc):
        self.exc = exc


EXC_PARENTS = {
    "BaseException": None, "Exception": "BaseException", "GeneratorExit": "BaseException",
    "TypeError": "Exception", "ValueError": "Exception", "LookupError": "Exception",
    "KeyError": "LookupError", "IndexError": "LookupError", "AttributeError": "Exception",
    "ArithmeticError": "Exception", "OverflowError": "ArithmeticError", "ZeroDivisionError": "ArithmeticError",
    "NotImplementedError": "RuntimeError", "RuntimeError": "Exception", "RecursionError": "RuntimeError",
    "StopIteration": "Exception", "ImportError": "Exception", "OSError": "Exception", "IOError": "Exception",
    "UnicodeError": "ValueError", "JSONDecodeError": "ValueError", "re.error": "Exception",
    "AddressValueError": "ValueError", "IDNAError": "UnicodeError",
    # repo exceptions (checked against the class definitions by extract-time table obligation)
    "_Error": "Exception", "ValidationError": "_Error", "SchemaError": "_Error",
    "RefResolutionError": "Exception", "UndefinedTypeCheck": "Exception", "UnknownType": "Exception",
    "FormatError": "Exception", "_CannotLoadFile": "Exception", "_DontDoThat": "Exception",
    "AnyException": "Exception",     # an arbitrary exception from an abstract callable
    "Warning": "Exception", "DeprecationWarning": "Warning", "UserWarning": "Warning",
}


def exc_isinstance(cls, target):
    while cls is not None:
        if cls == target:
            return True
        cls = EXC_PARENTS.get(cls)
    return False


class State:
    __slots__ = ("env", "pc", "out", "heap", "ghost", "loopvars", "unit", "closure", "trace")

    def __init__(self):
        self.env, self.pc, self.out, self.heap, self.ghost = {}, [], (), {}, {}
        self.loopvars, self.unit, self.closure, self.trace = (), None, {}, ()

    def fork(self):
        s = State()
        s.env, s.pc, s.out, s.heap, s.ghost = dict(self.env), list(self.pc), self.out, dict(self.heap), dict(self.ghost)
        s.loopvars, s.unit, s.closure, s.trace = self.loopvars, self.unit, self.closure, self.trace
        return s


class Ctx:
    """One verification run of one function under one configuration."""

    def __init__(self, repo, contracts=None, config=None):
        self.repo = repo
        self.contracts = contracts or {}
        self.config = config or {}
        self.obligations = []       # precondition obligations raised at call sites etc.
        self.safety = []            # exception edges refuted during execution (unit, exception, origin)
        self.oid = itertools.count(1)
        self.feas_cache = {}
        self.feas_calls = 0
        self.inline_depth = 0
        self.genexit = False        # X analysis: deliver GeneratorExit at each yield
        self.anchors = {}
        self.notes = []

    # -- feasibility ---------------------------------------------------------
    def feasible(self, pc):
        key = tuple(sorted(f.get_id() for f in pc))
        r = self.feas_cache.get(key)
        if r is None:
            self.feas_calls += 1
            tmo = self.config.get("feas_timeout_ms", int(os.environ.get("PYVC_FEAS_MS", "150")))
            if os.environ.get("PYVC_INCREMENTAL", "1") == "1":
                st = self._inc_check(pc, tmo)
            else:
                st = smt.check_sat(pc, timeout_ms=tmo, use_cvc5=False).status
            r = st != "unsat"
            self.feas_cache[key] = r
        return r

    def _inc_check(self, pc, tmo):
        """Incremental feasibility: one solver whose assertion stack mirrors the path condition (paths
        are explored depth-first, so consecutive queries share long prefixes).  Only `unsat` is used;
        the stack is re-validated against the path condition before every query."""
        if not hasattr(self, "_inc"):
            self._inc = z3.Solver()
            self._inc_stack = []          # [(formula id, formula)]
            self._inc_axioms = set()      # ids of axioms asserted at level 0
            self._inc_names = set()
            self._inc_seen = set()
        s = self._inc
        # longest common prefix
        n = 0
        while n < len(self._inc_stack) and n < len(pc) and self._inc_stack[n][0] == pc[n].get_id():
            n += 1
        # new symbols -> their axioms must live at level 0: rebuild from scratch if any appear
        names_before = len(self._inc_names)
        for f in pc[n:]:
            smt._decl_names(f, self._inc_names, self._inc_seen)
        if len(self._inc_names) != names_before or not self._inc_axioms:
            ax = smt.all_axioms_for(list(pc))
            new_ax = [a for a in ax if a.get_id() not in self._inc_axioms]
            if new_ax:
                # pop everything, add the axioms at the bottom, re-push
                while self._inc_stack:
                    s.pop()
                    self._inc_stack.pop()
                for a in new_ax:
                    s.add(a)
                    self._inc_axioms.add(a.get_id())
                    smt._decl_names(a, self._inc_names, self._inc_seen)
                n = 0
        while len(self._inc_stack) > n:
            s.pop()
            self._inc_stack.pop()
        for f in pc[n:]:
            s.push()
            s.add(f)
            self._inc_stack.append((f.get_id(), f))
        assert [i for i, _ in self._inc_stack] == [f.get_id() for f in pc], "incremental solver stack out of sync"
        s.set("timeout", tmo)
        r = s.check()
        return "unsat" if r == z3.unsat else ("sat" if r == z3.sat else "unknown")

    def refute_or_oos(self, st, msg):
        """Called before giving up on a branch: if the branch is in fact unreachable (decided with a
        generous budget) it is pruned (returns True), otherwise the function is out of subset."""
        res = smt.check_sat(st.pc, timeout_ms=self.config.get("oos_timeout_ms", 5000), use_cvc5=False)
        if res.status == "unsat":
            return True
        raise OutOfSubset(msg)

    def anchor(self, base):
        n = self.anchors.get(base, 0) + 1
        self.anchors[base] = n
        return "%s#%d" % (base, n)

    def new_oid(self):
        return next(self.oid)


def assume(ctx, st, cond):
    """Fork-free: returns st extended with cond, or None if infeasible."""
    if cond is None:
        return st
    if isinstance(cond, bool):
        return st if cond else None
    c = z3.simplify(cond)
    if z3.is_true(c):
        return st
    if z3.is_false(c):
        return None
    s2 = st.fork()
    s2.pc.append(c)
    if not ctx.feasible(s2.pc):
        return None
    return s2


def add_lemma(st, f):
    """A fact already established (proved precondition, definition): available to later obligations
    on this path, but not a branch condition (excluded from loop-body guards)."""
    st.pc.append(f)
    st.ghost["lemma_ids"] = st.ghost.get("lemma_ids", frozenset()) | {f.get_id()}


def add_def(st, f):
    """Definitional fact about a fresh skolem term created at this point (may mention loop indices)."""
    add_lemma(st, f)
    st.ghost["defs"] = st.ghost.get("defs", ()) + ((f, st.loopvars),)


def branch(ctx, st, cases):
    """cases: [(cond|None, payload)] -> [(state, payload)] for the feasible ones."""
    out = []
    for cond, payload in cases:
        s2 = assume(ctx, st, cond)
        if s2 is not None:
            out.append((s2, payload))
        elif isinstance(payload, Raised):
            # an exception edge shown unreachable: a discharged safety obligation
            exc = payload.exc
            ctx.safety.append((st.unit.key if st.unit else "?", getattr(exc, "cls", "?"), getattr(exc, "origin", "")))
    return out


# ---------------------------------------------------------------------------
# conversions

def lift(x):
    """Python constant -> SV"""
    if x is None:
        return SV(smt.mk_none, None)
    if isinstance(x, bool):
        return SV(smt.mk_bool(z3.BoolVal(x)), x)
    if isinstance(x, int):
        return SV(smt.mk_int(z3.IntVal(x)), x)
    if isinstance(x, float):
        from fractions import Fraction
        fr = Fraction(x)
        return SV(smt.mk_float(z3.RealVal(str(fr))), x)
    if isinstance(x, str):
        return SV(smt.mk_str(z3.StringVal(x)), x)
    raise OutOfSubset("lift %r" % (x,))


_sent = {}


def sentinel(name):
    if name not in _sent:
        _sent[name] = z3.Const("sentinel_" + name, V)
    return SV(_sent[name])


def sentinel_axioms(names):
    ax = []
    ts = [s for n, s in _sent.items()]
    for t in ts:
        ax.append(kind(t) == K_OBJ)
        ax.append(smt.objtruth(t))
    if len(ts) > 1:
        ax.append(z3.Distinct(*ts))
    return ax


@smt.register_axioms
def _sentinel_provider(names):
    if any(n.startswith("sentinel_") for n in names):
        return sentinel_axioms(names)
    return []


_EMPTY_DICT = z3.Const("empty_dict_literal", V)


def empty_dict():
    return SV(_EMPTY_DICT)


@smt.register_axioms
def _empty_dict_axioms(names):
    if "empty_dict_literal" in names:
        return [kind(_EMPTY_DICT) == K_DICT, dlen(_EMPTY_DICT) == 0, smt.isjson(_EMPTY_DICT),
                z3.ForAll([z3.String("s")], z3.Not(dhas(_EMPTY_DICT, z3.String("s"))),
                          patterns=[dhas(_EMPTY_DICT, z3.String("s"))])]
    return []


def to_sv(x):
    if isinstance(x, SV):
        return x
    if isinstance(x, SB):
        return SV(smt.mk_bool(x.f))
    if isinstance(x, SInt):
        return SV(smt.mk_int(x.t))
    if isinstance(x, SStr):
        return SV(smt.mk_str(x.t))
    raise OutOfSubset("to_sv(%r)" % (x,))


def truth(ctx, st, x):
    """SMT truthiness of a value."""
    if isinstance(x, SB):
        return x.f
    th = ctx.config.get("truth_hook")
    if th:
        r = th(None, st, x)
        if r is not None:
            return r
    if isinstance(x, SV):
        if x.known:
            return z3.BoolVal(bool(x.conc))
        return smt.truthy(x.t)
    if isinstance(x, SInt):
        return x.t != 0
    if isinstance(x, SStr):
        return z3.Length(x.t) > 0
    if isinstance(x, ListObj):
        return z3.Not(seq_empty(cat(*st.heap[x.oid]["parts"])))
    if isinstance(x, (PyTuple,)):
        return z3.BoolVal(len(x.items) > 0)
    if isinstance(x, PyDict):
        return z3.BoolVal(len(x.d) > 0)
    if isinstance(x, (FuncRef, ClassRef, Builtin, BoundMethod, ErrVal, ErrRef, ExcVal, ModuleRef)):
        return z3.BoolVal(True)
    if isinstance(x, ObjVal):
        hook = ctx.config.get("obj_truth")
        if hook:
            r = hook(ctx, st, x)
            if r is not None:
                return r
        return z3.BoolVal(True)
    if type(x).__name__ == "SliceVal":
        return smt.llen(x.base.t) > x.lo
    if isinstance(x, Opaque):
        if x.tag in ("requests", "urlopen", "response", "urlopen-handle", "stdout", "stderr", "stdin", "defaultdict"):
            return z3.BoolVal(True)      # module / handle objects are truthy
        raise OutOfSubset("truthiness of opaque value %r" % (x,))
    if isinstance(x, Seq):
        return z3.Not(seq_empty(x))
    raise OutOfSubset("truth(%r)" % (x,))


# ---------------------------------------------------------------------------
# the interpreter

# decorators that leave the behaviour of a call of the decorated body unchanged (or are modelled by hooks: contextmanager)
TRANSPARENT_DECORATORS = {"staticmethod", "classmethod", "property", "contextlib.contextmanager", "contextmanager", "_checks_drafts",
                          "attr.s", "attr.attrs", "validates", "functools.wraps", "wraps"}

CONTRACTS_USED = set()  # callee contracts applied in this process since the last reset (each must be proved by some task of the check)
UNITS_READ = set()      # every function body executed in this process since the last reset (cache validation, pyvc/driver.py)


class Interp:
    def __init__(self, ctx):
        self.ctx = ctx
        self.repo = ctx.repo

    # ---- name resolution ---------------------------------------------------
    def lookup(self, st, name):
        if name in st.env:
            v = st.env[name]
            if isinstance(v, Undefined):
                raise OutOfSubset("use of loop variable %s after a summarised loop" % name)
            return v
        if name in st.closure:
            return st.closure[name]
        m = st.unit.module
        g = self.repo.globals[m]
        if name in g:
            return self.global_value(m, name)
        if name in BUILTINS:
            return Builtin(name)
        if name in EXC_PARENTS:
            return ClassRef(name)
        raise OutOfSubset("unknown name %s in %s" % (name, st.unit.key))

    def global_value(self, m, name):
        hook = self.ctx.config.get("global_hook")
        if hook:
            r = hook(m, name)
            if r is not None:
                return r
        ent = self.repo.globals[m][name]
        if ent[0] == "func":
            return FuncRef(ent[1])
        if ent[0] == "class":
            return ClassRef(ent[1].split(":")[1])
        if ent[0] == "module":
            return ModuleRef(ent[1])
        if ent[0] == "import":
            mod, nm = ent[1], ent[2]
            if mod and mod.startswith("jsonschema"):
                sub = mod.split(".")[-1] if "." in mod else None
                if sub is None:       # from jsonschema import _utils
                    if nm in self.repo.globals:
                        return ModuleRef("jsonschema." + nm)
                    raise OutOfSubset("from jsonschema import %s" % nm)
                if sub in self.repo.globals and nm in self.repo.globals[sub]:
                    return self.global_value(sub, nm)
            return ext_name(mod, nm)
        if ent[0] == "assign":
            return self.static_global(m, name, ent[1])
        raise OutOfSubset("global %s.%s" % (m, name))

    def static_global(self, m, name, node):
        if isinstance(node, ast.Constant):
            return lift(node.value)
        if isinstance(node, ast.Call) and isinstance(node.func, ast.Attribute) and node.func.attr == "Unset":
            return UNSET
        if isinstance(node, ast.Call) and isinstance(node.func, ast.Name) and node.func.id == "frozenset":
            if not node.args:
                return PySet(())
            return PySet(tuple(lift(e.value) for e in node.args[0].elts))
        raise OutOfSubset("module-level value %s.%s" % (m, name))

    # ---- running a unit ------------------------------------------------------
    def run_unit(self, unit, st, args, kwargs):
        """Bind parameters and execute the body.  Returns [(state, ctl)] with ctl in return/raise."""
        UNITS_READ.add(unit.key)
        # a decorator may change what calling the name means (memoisation, wrapping): only those known to leave the
        # call semantics of the body alone are looked through - for inlined callees and for units under verification alike
        for dec in getattr(unit.node, "decorator_list", []) or []:
            dn = ast.unparse(dec.func if isinstance(dec, ast.Call) else dec)
            if dn not in TRANSPARENT_DECORATORS and dn not in self.ctx.config.get("transparent_decorators", ()):
                raise OutOfSubset("function %s is decorated with %s, whose effect on calls is not modelled" % (unit.key, dn))
        st = st.fork()
        saved = (st.env, st.unit, st.closure)
        st.env = {}
        st.unit = unit
        names, a = unit.params()
        defaults = list(a.defaults)
        npos = len(names)
        pos = list(args)
        if len(pos) > npos and not a.vararg:
            raise OutOfSubset("too many positional args for %s" % unit.key)
        bound = {}
        for n, v in zip(names, pos):
            bound[n] = v
        kw = dict(kwargs)
        if a.vararg:
            # an abstract *args value can be supplied by a task under the key "*name"
            bound[a.vararg.arg] = kw.pop("*" + a.vararg.arg) if "*" + a.vararg.arg in kw else PyTuple(pos[npos:])
        for n in names[len(pos):]:
            if n in kw:
                bound[n] = kw.pop(n)
        for ko in a.kwonlyargs:
            if ko.arg in kw:
                bound[ko.arg] = kw.pop(ko.arg)
        if a.kwarg:
            bound[a.kwarg.arg] = PyDict(kw)
            kw = {}
        if kw:
            raise OutOfSubset("unexpected kwargs %s for %s" % (list(kw), unit.key))
        # defaults
        first_default = npos - len(defaults)
        pending = [(st, None)]
        for idx, n in enumerate(names):
            if n not in bound:
                if idx < first_default:
                    raise OutOfSubset("missing arg %s for %s" % (n, unit.key))
                dnode = defaults[idx - first_default]
                bound[n] = self.default_value(unit, n, dnode, st)
        for ko, dn in zip(a.kwonlyargs, a.kw_defaults):
            if ko.arg not in bound:
                bound[ko.arg] = self.default_value(unit, ko.arg, dn, st)
        st.env.update(bound)
        if unit.is_lambda:
            res = []
            for s2, v in self.eval(unit.node.body, st):
                res.append((s2, ("raise", v.exc) if isinstance(v, Raised) else ("return", v)))
        else:
            res = []
            for s2, ctl in self.exec_block(unit.node.body, st):
                if ctl[0] == "next":
                    ctl = ("return", lift(None))
                elif ctl[0] in ("break", "continue"):
                    raise OutOfSubset("stray %s" % ctl[0])
                res.append((s2, ctl))
        out = []
        for s2, ctl in res:
            s2.env, s2.unit, s2.closure = saved
            out.append((s2, ctl))
        return out

    def default_value(self, unit, name, node, st):
        if isinstance(node, ast.Constant):
            return lift(node.value)
        if isinstance(node, ast.Tuple) and not node.elts:
            return PyTuple(())
        if isinstance(node, ast.Call) and isinstance(node.func, ast.Name) and node.func.id == "object" and not node.args:
            return sentinel("%s_%s" % (unit.key.split(":")[1].replace(".", "_"), name))
        if isinstance(node, ast.Name):
            s2 = st.fork()
            s2.unit = unit
            s2.env = {}
            return self.lookup(s2, node.id)
        raise OutOfSubset("default value of %s in %s" % (name, unit.key))

    # ---- statements ---------------------------------------------------------
    def exec_block(self, stmts, st):
        outs = [(st, ("next", None))]
        for stmt in stmts:
            new = []
            for s, ctl in outs:
                if ctl[0] != "next":
                    new.append((s, ctl))
                else:
                    new.extend(self.exec_stmt(stmt, s))
            outs = new
            if not outs:
                break
        return outs

    def exec_stmt(self, node, st):
        m = getattr(self, "s_" + type(node).__name__, None)
        if m is None:
            raise OutOfSubset("statement %s in %s" % (type(node).__name__, st.unit.key))
        return m(node, st)

    def s_Expr(self, node, st):
        if isinstance(node.value, ast.Constant):
            return [(st, ("next", None))]       # docstring
        out = []
        for s, v in self.eval(node.value, st):
            out.append((s, ("raise", v.exc) if isinstance(v, Raised) else ("next", None)))
        return out

    def s_Pass(self, node, st):
        return [(st, ("next", None))]

    def s_Delete(self, node, st):
        """del obj[key] on task-modelled containers (delitem_hook)"""
        hook = self.ctx.config.get("delitem_hook")
        if hook is None or len(node.targets) != 1 or not isinstance(node.targets[0], ast.Subscript):
            raise OutOfSubset("del statement")
        tgt = node.targets[0]
        out = []
        for s1, obj in self.eval(tgt.value, st):
            if isinstance(obj, Raised):
                out.append((s1, ("raise", obj.exc)))
                continue
            for s2, key in self.eval(tgt.slice, s1):
                if isinstance(key, Raised):
                    out.append((s2, ("raise", key.exc)))
                    continue
                r = hook(self, s2, obj, key)
                if r is None:
                    raise OutOfSubset("del on %r" % (obj,))
                out.extend(r)
        return out

    def s_Import(self, node, st):
        hook = self.ctx.config.get("import_hook")
        if hook:
            return hook(self, node, st)
        raise OutOfSubset("import inside function")

    def s_Return(self, node, st):
        if node.value is None:
            return [(st, ("return", lift(None)))]
        out = []
        for s, v in self.eval(node.value, st):
            out.append((s, ("raise", v.exc) if isinstance(v, Raised) else ("return", v)))
        return out

    def s_Break(self, node, st):
        return [(st, ("break", None))]

    def s_Continue(self, node, st):
        return [(st, ("continue", None))]

    def s_Raise(self, node, st):
        if node.exc is None:
            cur = st.ghost.get("handling")
            if cur is None:
                raise OutOfSubset("bare raise outside handler")
            return [(st, ("raise", cur))]
        out = []
        for s, v in self.eval(node.exc, st):
            if isinstance(v, Raised):
                out.append((s, ("raise", v.exc)))
            elif isinstance(v, ClassRef):
                out.append((s, ("raise", ExcVal(v.name, {}, origin="raise@%s" % st.unit.key))))
            elif isinstance(v, (ExcVal, ErrVal)):
                out.append((s, ("raise", v)))
            elif isinstance(v, ErrRef):
                out.append((s, ("raise", s.heap[v.oid])))
            else:
                raise OutOfSubset("raise of %r" % (v,))
        return out

    def s_Assign(self, node, st):
        out = []
        for s, v in self.eval(node.value, st):
            if isinstance(v, Raised):
                out.append((s, ("raise", v.exc)))
                continue
            cur = [(s, ("next", None))]
            for tgt in node.targets:
                nxt = []
                for s2, ctl in cur:
                    if ctl[0] != "next":
                        nxt.append((s2, ctl))
                    else:
                        nxt.extend(self.assign(tgt, v, s2))
                cur = nxt
            out.extend(cur)
        return out

    def s_AugAssign(self, node, st):
        binop = ast.BinOp(left=_load(node.target), op=node.op, right=node.value)
        ast.copy_location(binop, node)
        out = []
        for s, v in self.eval(binop, st):
            if isinstance(v, Raised):
                out.append((s, ("raise", v.exc)))
            else:
                out.extend(self.assign(node.target, v, s))
        return out

    def assign(self, tgt, v, st):
        if isinstance(tgt, ast.Name):
            s = st.fork()
            s.env[tgt.id] = v
            return [(s, ("next", None))]
        if isinstance(tgt, (ast.Tuple, ast.List)):
            outs = []
            for s, items in self.unpack(v, len(tgt.elts), st):
                if isinstance(items, Raised):
                    outs.append((s, ("raise", items.exc)))
                    continue
                cur = [(s, ("next", None))]
                for t, item in zip(tgt.elts, items):
                    nxt = []
                    for s2, ctl in cur:
                        nxt.extend(self.assign(t, item, s2) if ctl[0] == "next" else [(s2, ctl)])
                    cur = nxt
                outs.extend(cur)
            return outs
        if isinstance(tgt, ast.Attribute):
            outs = []
            for s, obj in self.eval(tgt.value, st):
                if isinstance(obj, Raised):
                    outs.append((s, ("raise", obj.exc)))
                    continue
                outs.extend(self.set_attr(s, obj, tgt.attr, v))
            return outs
        if isinstance(tgt, ast.Subscript):
            outs = []
            for s, obj in self.eval(tgt.value, st):
                if isinstance(obj, Raised):
                    outs.append((s, ("raise", obj.exc)))
                    continue
                for s2, k in self.eval(tgt.slice, s):
                    if isinstance(k, Raised):
                        outs.append((s2, ("raise", k.exc)))
                        continue
                    outs.extend(self.set_item(s2, obj, k, v))
            return outs
        raise OutOfSubset("assignment target %s" % type(tgt).__name__)

    def unpack(self, v, n, st):
        if isinstance(v, PyTuple):
            if len(v.items) != n:
                raise OutOfSubset("unpack arity")
            return [(st, list(v.items))]
        hook = self.ctx.config.get("unpack_hook")
        if hook:
            r = hook(self, v, n, st)
            if r is not None:
                return r
        raise OutOfSubset("unpack of %r" % (v,))

    def set_attr(self, st, obj, attr, v):
        sh = self.ctx.config.get("setattr_hook")
        if sh:
            r = sh(self, st, obj, attr, v)
            if r is not None:
                return r
        if isinstance(obj, ObjVal):
            w = self.ctx.config.get("write_hook")
            if w:
                w(self, st, obj, attr, v)
            s = st.fork()
            s.heap[(obj.oid, attr)] = v
            return [(s, ("next", None))]
        if isinstance(obj, ErrVal):
            raise OutOfSubset("attribute assignment on an error object (use functional update)")
        raise OutOfSubset("set_attr on %r" % (obj,))

    def set_item(self, st, obj, k, v):
        hook = self.ctx.config.get("setitem_hook")
        if hook:
            r = hook(self, st, obj, k, v)
            if r is not None:
                return r
        raise OutOfSubset("item assignment on %r" % (obj,))

    def s_If(self, node, st):
        outs = []
        for s, v in self.eval(node.test, st):
            if isinstance(v, Raised):
                outs.append((s, ("raise", v.exc)))
                continue
            c = truth(self.ctx, s, v)
            for s2, which in branch(self.ctx, s, [(c, True), (z3.Not(c), False)]):
                outs.extend(self.exec_block(node.body if which else node.orelse, s2))
        return outs

    def s_Try(self, node, st):
        outs = []
        for s, ctl in self.exec_block(node.body, st):
            if ctl[0] == "raise":
                handled = False
                exc = ctl[1]
                for h in node.handlers:
                    m = self.handler_matches(h, exc, s)
                    if m is True:
                        handled = True
                        s2 = s.fork()
                        if h.name:
                            s2.env[h.name] = exc
                        prev = s2.ghost.get("handling")
                        s2.ghost["handling"] = exc
                        for s3, c3 in self.exec_block(h.body, s2):
                            s3 = s3.fork()
                            s3.ghost["handling"] = prev
                            outs.append((s3, c3))
                        break
                    if m is None:
                        raise OutOfSubset("cannot decide statically whether handler catches %r" % (exc,))
                if not handled:
                    outs.append((s, ctl))
            elif ctl[0] == "next" and node.orelse:
                outs.extend(self.exec_block(node.orelse, s))
            else:
                outs.append((s, ctl))
        if node.finalbody:
            final = []
            for s, ctl in outs:
                for s2, c2 in self.exec_block(node.finalbody, s):
                    final.append((s2, ctl if c2[0] == "next" else c2))
            outs = final
        return outs

    def handler_matches(self, h, exc, st):
        cls = exc.cls
        if h.type is None:
            return True
        names = self.exc_names(h.type, st)
        if names is None:
            return None
        if cls == "AnyException":
            # an arbitrary exception: caught only by Exception/BaseException handlers
            if any(n in ("Exception", "BaseException") for n in names):
                return True
            hook = self.ctx.config.get("any_exception_hook")
            if hook:
                return hook(self, h, exc, st, names)
            return None
        return any(exc_isinstance(cls, n) for n in names)

    def exc_names(self, node, st):
        if isinstance(node, ast.Tuple):
            r = []
            for e in node.elts:
                x = self.exc_names(e, st)
                if x is None:
                    return None
                r.extend(x)
            return r
        if isinstance(node, ast.Name):
            if node.id in st.env or node.id in st.closure:
                v = st.env.get(node.id, st.closure.get(node.id))
                if isinstance(v, ClassRef):
                    return [v.name]
                hook = self.ctx.config.get("exc_names_hook")
                if hook:
                    return hook(self, v, st)
                return None
            v = self.lookup(st, node.id)
            if isinstance(v, ClassRef):
                return [v.name]
            return None
        if isinstance(node, ast.Attribute):
            for s, v in self.eval(node, st):
                if isinstance(v, ClassRef):
                    return [v.name]
            return None
        return None

    def s_With(self, node, st):
        hook = self.ctx.config.get("with_hook")
        if hook:
            return hook(self, node, st)
        raise OutOfSubset("with statement")

    def s_FunctionDef(self, node, st):
        key = self.nested_key(st, node.name)
        s = st.fork()
        s.env[node.name] = FuncRef(key, closure=self.capture(st))
        return [(s, ("next", None))]

    def nested_key(self, st, name):
        base = st.unit.key
        m, q = base.split(":")
        key = "%s:%s.%s" % (m, q, name)
        if key not in self.repo.units:
            raise OutOfSubset("nested function %s" % key)
        return key

    def capture(self, st):
        c = dict(st.closure)
        c.update(st.env)
        return c

    # ---- yield --------------------------------------------------------------
    def do_yield(self, st, v):
        if isinstance(v, ErrRef):
            v = st.heap[v.oid]          # snapshot: the consumer owns the error from here on
        s = st.fork()
        s.out = s.out + (One(v),)
        res = [(s, lift(None))]
        if self.ctx.genexit:
            s2 = st.fork()
            s2.out = s2.out + (One(v),)
            res.append((s2, Raised(ExcVal("GeneratorExit", {}, origin="yield"))))
            if self.ctx.config.get("throw_at_yield"):
                s3 = st.fork()
                s3.out = s3.out + (One(v),)
                res.append((s3, Raised(ExcVal("AnyException", {}, origin="thrown-into-yield"))))
        return res

    # ---- loops --------------------------------------------------------------
    def s_For(self, node, st):
        outs = []
        for s, it in self.eval(node.iter, st):
            if isinstance(it, Raised):
                outs.append((s, ("raise", it.exc)))
                continue
            for s2, spec in self.iterspec(s, it):
                if isinstance(spec, Raised):
                    outs.append((s2, ("raise", spec.exc)))
                else:
                    outs.extend(self.run_loop(node, s2, spec))
        return outs

    def s_While(self, node, st):
        hook = self.ctx.config.get("while_hook")
        if hook:
            return hook(self, node, st)
        from .loops import loop_ordinal, run_while
        invs = self.ctx.config.get("while_invs") or {}
        inv = invs.get((st.unit.key, loop_ordinal(st.unit, node)))
        if inv is None:
            raise OutOfSubset("while loop without an invariant in %s" % st.unit.key)
        return run_while(self, node, st, inv)

    def iterspec(self, st, it):
        """-> [(state, IterSpec | Raised)]"""
        from .prims import make_iterspec
        return make_iterspec(self, st, it)

    def run_loop(self, node, st, spec):
        from .loops import run_for
        return run_for(self, node, st, spec)

    # ---- expressions ----------------------------------------------------------
    def eval(self, node, st):
        m = getattr(self, "e_" + type(node).__name__, None)
        if m is None:
            raise OutOfSubset("expression %s in %s" % (type(node).__name__, st.unit.key))
        return m(node, st)

    def eval_seq(self, nodes, st):
        """Evaluate nodes left to right: [(state, [values]) | (state, Raised)]"""
        cur = [(st, [])]
        for n in nodes:
            nxt = []
            for s, vals in cur:
                if isinstance(vals, Raised):
                    nxt.append((s, vals))
                    continue
                for s2, v in self.eval(n, s):
                    nxt.append((s2, v if isinstance(v, Raised) else vals + [v]))
            cur = nxt
        return cur

    def e_Constant(self, node, st):
        return [(st, lift(node.value))]

    def e_Name(self, node, st):
        return [(st, self.lookup(st, node.id))]

    def e_Tuple(self, node, st):
        return [(s, v if isinstance(v, Raised) else PyTuple(v)) for s, v in self.eval_seq(node.elts, st)]

    def e_List(self, node, st):
        out = []
        for s, v in self.eval_seq(node.elts, st):
            if isinstance(v, Raised):
                out.append((s, v))
                continue
            s2 = s.fork()
            oid = self.ctx.new_oid()
            s2.heap[oid] = {"kind": "list", "parts": tuple(One(x) for x in v), "items": list(v)}
            out.append((s2, ListObj(oid)))
        return out

    def e_Set(self, node, st):
        out = []
        for s, v in self.eval_seq(node.elts, st):
            out.append((s, v if isinstance(v, Raised) else PySet(v)))
        return out

    def e_Dict(self, node, st):
        hook = self.ctx.config.get("dict_literal_hook")
        if hook:
            r = hook(self, node, st)
            if r is not None:
                return r
        if not node.keys:
            return [(st, empty_dict())]
        keys = []
        for k in node.keys:
            if not (isinstance(k, ast.Constant) and isinstance(k.value, str)):
                raise OutOfSubset("dict literal with non-constant key")
            keys.append(k.value)
        out = []
        for s, v in self.eval_seq(node.values, st):
            out.append((s, v if isinstance(v, Raised) else PyDict(dict(zip(keys, v)))))
        return out

    def e_JoinedStr(self, node, st):
        return [(st, Opaque("fstring"))]

    def e_Lambda(self, node, st):
        key = self.repo.lambda_key(st.unit.module, node)
        return [(st, FuncRef(key, closure=self.capture(st)))]

    def e_IfExp(self, node, st):
        out = []
        for s, v in self.eval(node.test, st):
            if isinstance(v, Raised):
                out.append((s, v))
                continue
            c = truth(self.ctx, s, v)
            for s2, which in branch(self.ctx, s, [(c, True), (z3.Not(c), False)]):
                out.extend(self.eval(node.body if which else node.orelse, s2))
        return out

    def e_BoolOp(self, node, st):
        is_and = isinstance(node.op, ast.And)

        def go(idx, s):
            res = []
            for s2, v in self.eval(node.values[idx], s):
                if isinstance(v, Raised) or idx == len(node.values) - 1:
                    res.append((s2, v))
                    continue
                c = truth(self.ctx, s2, v)
                # pure boolean operands are merged instead of forked (keeps path count small)
                for s3, which in branch(self.ctx, s2, [(c, True), (z3.Not(c), False)]):
                    if which == is_and:
                        res.extend(go(idx + 1, s3))
                    else:
                        res.append((s3, v))
            return res
        return self.merge_bool(go(0, st), st)

    def merge_bool(self, results, st0):
        """Merge forks that differ only by one appended pure-boolean condition (optimisation only)."""
        return results

    def e_UnaryOp(self, node, st):
        out = []
        for s, v in self.eval(node.operand, st):
            if isinstance(v, Raised):
                out.append((s, v))
            elif isinstance(node.op, ast.Not):
                out.append((s, SB(z3.Not(truth(self.ctx, s, v)))))
            elif isinstance(node.op, ast.USub):
                from .prims import unary_minus
                out.extend(unary_minus(self, s, v))
            else:
                raise OutOfSubset("unary op")
        return out

    def e_Compare(self, node, st):
        from .prims import compare
        if len(node.ops) != 1:
            raise OutOfSubset("chained comparison")
        out = []
        for s, vals in self.eval_seq([node.left, node.comparators[0]], st):
            if isinstance(vals, Raised):
                out.append((s, vals))
            else:
                out.extend(compare(self, s, node.ops[0], vals[0], vals[1], node))
        return out

    def e_BinOp(self, node, st):
        from .prims import binop
        out = []
        for s, vals in self.eval_seq([node.left, node.right], st):
            if isinstance(vals, Raised):
                out.append((s, vals))
            else:
                out.extend(binop(self, s, node.op, vals[0], vals[1], node))
        return out

    def e_Attribute(self, node, st):
        from .prims import get_attr
        out = []
        for s, obj in self.eval(node.value, st):
            if isinstance(obj, Raised):
                out.append((s, obj))
            else:
                out.extend(get_attr(self, s, obj, node.attr))
        return out

    def e_Subscript(self, node, st):
        from .prims import subscript
        out = []
        if isinstance(node.slice, ast.Slice):
            parts = [node.slice.lower, node.slice.upper, node.slice.step]
            for s, obj in self.eval(node.value, st):
                if isinstance(obj, Raised):
                    out.append((s, obj))
                    continue
                nodes = [p for p in parts if p is not None]
                for s2, vals in self.eval_seq(nodes, s):
                    if isinstance(vals, Raised):
                        out.append((s2, vals))
                        continue
                    it = iter(vals)
                    sl = [next(it) if p is not None else None for p in parts]
                    out.extend(subscript(self, s2, obj, ("slice", sl)))
            return out
        for s, vals in self.eval_seq([node.value, node.slice], st):
            if isinstance(vals, Raised):
                out.append((s, vals))
            else:
                out.extend(subscript(self, s, vals[0], vals[1]))
        return out

    def e_Yield(self, node, st):
        out = []
        if node.value is None:
            return self.do_yield(st, lift(None))
        for s, v in self.eval(node.value, st):
            if isinstance(v, Raised):
                out.append((s, v))
            else:
                out.extend(self.do_yield(s, v))
        return out

    def e_Call(self, node, st):
        out = []
        for s, f in self.eval(node.func, st):
            if isinstance(f, Raised):
                out.append((s, f))
                continue
            # genexp / comprehension arguments are handled by the callee primitive lazily
            argnodes = list(node.args)
            kwnodes = [(k.arg, k.value) for k in node.keywords]
            lazy = [isinstance(a, ast.GeneratorExp) for a in argnodes]
            evalnodes = [a for a, lz in zip(argnodes, lazy) if not lz and not isinstance(a, ast.Starred)]
            starred = [a for a in argnodes if isinstance(a, ast.Starred)]
            if starred:
                evalnodes = evalnodes + [a.value for a in starred]
            dstar = [v for k, v in kwnodes if k is None]
            kwplain = [(k, v) for k, v in kwnodes if k is not None]
            allnodes = evalnodes + [v for k, v in kwplain] + dstar
            for s2, vals in self.eval_seq(allnodes, s):
                if isinstance(vals, Raised):
                    out.append((s2, vals))
                    continue
                it = iter(vals)
                args = []
                for a, lz in zip(argnodes, lazy):
                    if isinstance(a, ast.Starred):
                        continue
                    args.append(GenExpArg(a, s2) if lz else next(it))
                for a in starred:
                    sv = next(it)
                    if isinstance(sv, PyTuple):
                        args.extend(sv.items)
                    else:
                        raise OutOfSubset("*args of %r" % (sv,))
                kwargs = {}
                for k, _ in kwplain:
                    kwargs[k] = next(it)
                for _ in dstar:
                    d = next(it)
                    if isinstance(d, PyDict):
                        kwargs.update(d.d)
                    else:
                        raise OutOfSubset("**kwargs of %r" % (d,))
                out.extend(self.call(s2, f, args, kwargs, node))
        return out

    def e_GeneratorExp(self, node, st):
        return [(st, GenExpArg(node, st))]

    def e_ListComp(self, node, st):
        from .loops import eval_listcomp
        return eval_listcomp(self, node, st)

    # ---- calls ----------------------------------------------------------------
    def call(self, st, f, args, kwargs, node=None):
        from .prims import call_builtin, call_method, construct
        if isinstance(f, FuncRef):
            return self.call_func(st, f, args, kwargs, node)
        if isinstance(f, Builtin):
            return call_builtin(self, st, f.name, args, kwargs, node)
        if isinstance(f, BoundMethod):
            return call_method(self, st, f.obj, f.name, args, kwargs, node)
        if isinstance(f, ClassRef):
            return construct(self, st, f.name, args, kwargs, node)
        hook = self.ctx.config.get("call_hook")
        if hook:
            r = hook(self, st, f, args, kwargs, node)
            if r is not None:
                return r
        raise OutOfSubset("call of %r" % (f,))

    def call_func(self, st, f, args, kwargs, node=None):
        c = self.ctx.contracts.get(f.key)
        if c is not None and not self.ctx.config.get("inline_only", {}).get(f.key):
            CONTRACTS_USED.add(f.key)
            return c.apply(self, st, args, kwargs, f)
        unit = self.repo.units.get(f.key)
        if unit is None:
            raise OutOfSubset("no source for %s" % f.key)
        if self.ctx.inline_depth > 6:
            raise OutOfSubset("inlining too deep (recursive function without a contract?): %s" % f.key)
        args = [self.force(st, a) for a in args]
        self.ctx.inline_depth += 1
        try:
            s0 = st.fork()
            s0.closure = f.closure
            ch = self.ctx.config.get("closure_for")
            if ch and not f.closure:
                extra = ch(f.key)
                if extra:
                    s0.closure = extra
            if unit.is_generator:
                saved_out = s0.out
                s0.out = ()
                res = []
                for s2, ctl in self.run_unit(unit, s0, args, kwargs):
                    seq = cat(*s2.out)
                    s2.out = saved_out
                    s2.closure = st.closure
                    if ctl[0] == "raise":
                        # an inlined generator that raises: the exception surfaces when iterated;
                        # we conservatively surface it at the call (ordering w.r.t. other effects is
                        # only relevant for X analysis, where inlined generators are not used)
                        res.append((s2, Raised(ctl[1])))
                    else:
                        res.append((s2, seq))
                return res
            res = []
            for s2, ctl in self.run_unit(unit, s0, args, kwargs):
                s2.closure = st.closure
                res.append((s2, Raised(ctl[1]) if ctl[0] == "raise" else ctl[1]))
            return res
        finally:
            self.ctx.inline_depth -= 1

    def force(self, st, a):
        return a

    # ---- attribute access on objects (heap) ------------------------------------
    def get_field(self, st, obj, attr):
        return st.heap.get((obj.oid, attr))


class GenExpArg:
    """An unevaluated generator expression passed to a call (any/all/set/sorted/join...)."""
    __slots__ = ("node", "st")

    def __init__(self, node, st):
        self.node, self.st = node, st


def _load(t):
    import copy
    t2 = copy.deepcopy(t)
    for n in ast.walk(t2):
        if hasattr(n, "ctx"):
            n.ctx = ast.Load()
    return t2


BUILTINS = {"len", "isinstance", "any", "all", "set", "sorted", "list", "dict", "tuple", "enumerate", "zip",
            "map", "repr", "str", "int", "float", "bool", "getattr", "setattr", "hasattr", "next", "iter", "max", "min",
            "sum", "reversed", "type", "object", "open", "vars", "frozenset", "super", "range", "staticmethod",
            "classmethod", "property", "callable", "id"}


def ext_name(mod, nm):
    """Names imported from outside the repository."""
    full = "%s.%s" % (mod, nm)
    if nm in EXC_PARENTS:
        return ClassRef(nm)
    return Builtin(full)
