"""Run-time helper (real code): ErrorTree built from real validation errors in every arrival order
(C17).  Bounded stand-in / replay."""
import itertools
import json
import sys


def load(root):
    sys.path.insert(0, root)
    import jsonschema
    from jsonschema import validators, exceptions
    assert jsonschema.__file__.startswith(root)
    return jsonschema, validators, exceptions


CASES = [
    (3, {"additionalProperties": False, "properties": {"a": {"required": True}}}, {"b": 1}),
    (3, {"properties": {"a": {"required": True}, "b": {"type": "string"}}, "additionalProperties": False}, {"b": 1, "c": 2}),
    (7, {"propertyNames": {"maxLength": 1}, "properties": {"bbb": {"type": "string"}}}, {"bbb": 1}),
    (7, {"items": {"type": "integer", "enum": [1]}, "minItems": 3}, ["a", 2]),
    (7, {"minItems": 3, "items": {"type": "integer", "enum": [1]}}, ["a", 2]),
    (7, {"properties": {"a.b": {"type": "integer"}, "a": {"properties": {"b": {"type": "integer"}}}}}, {"a.b": "x", "a": {"b": "y"}}),
    (7, {"properties": {"list[0]": {"type": "integer"}, "list": {"items": {"type": "integer"}}}}, {"list[0]": "x", "list": ["y"]}),
    (7, {"items": {"properties": {"a": {"type": "integer"}}}}, [{"a": "x"}, {"a": 1}, {"a": "y"}]),
    (4, {"properties": {"p": {"items": [{"type": "integer"}, {"type": "string"}], "additionalItems": False}}, "required": ["q"]}, {"p": ["a", 1, 2]}),
    (6, {"type": "object", "properties": {"x": {"type": "integer", "minimum": 5}, "y": {"anyOf": [{"type": "string"}, {"minimum": 9}]}}}, {"x": 1.5, "y": 1}),
    (7, {"type": "integer", "enum": [1], "minimum": 7}, "s"),
    (7, {"properties": {"0": {"type": "integer"}}, "items": {"type": "integer"}}, {"0": "x"}),
    # distinct paths whose textual renderings coincide under some separator (a location memo keyed by a joined string)
    (7, {"properties": {"a/b": {"type": "integer"}, "a": {"properties": {"b": {"type": "integer"}}}}}, {"a/b": "x", "a": {"b": "y"}}),
    (7, {"type": "object", "maxProperties": 0, "properties": {"": {"type": "integer"}}}, {"": "x"}),
    (7, {"properties": {"a": {"properties": {"1": {"type": "integer"}}, "items": {"type": "integer"}}, "b": {"items": {"type": "integer"}}, "b/1": {"type": "integer"}}},
     {"a": {"1": "x"}, "b": [0, "y"], "b/1": "z"}),
    (4, {"properties": {"": {"properties": {"": {"type": "integer"}}}, "/": {"type": "integer"}}}, {"": {"": "x"}, "/": "y"}),
]


def check_tree(exceptions, errors, instance):
    """-> problem or None"""
    from jsonschema.exceptions import ErrorTree
    try:
        tree = ErrorTree(errors)
    except Exception as e:      # noqa
        return "ErrorTree(errors) raised %s: %s" % (type(e).__name__, str(e)[:60])
    pairs = {}
    for e in errors:
        pairs[(tuple(e.path), e.validator)] = e
    # every error where its path says
    for e in errors:
        node = tree
        try:
            for el in e.path:
                if el not in node:
                    return "walking path %r: %r is not reported as a member" % (list(e.path), el)
                node = node[el]
        except Exception as ex:      # noqa
            return "walking the tree along %r raised %s" % (list(e.path), type(ex).__name__)
        got = node.errors.get(e.validator)
        if got is None or tuple(got.path) != tuple(e.path):
            return "node at %r does not hold an error of keyword %r with that path" % (list(e.path), e.validator)

    def below(prefix):
        return [p for p in pairs if p[0][:len(prefix)] == prefix]

    def walk(node, prefix):
        nexts = {p[0][len(prefix)] for p in below(prefix) if len(p[0]) > len(prefix)}
        try:
            if set(iter(node)) != nexts:
                return "iteration at %r yields %r, expected %r" % (list(prefix), sorted(map(repr, iter(node))), sorted(map(repr, nexts)))
            for x in nexts:
                if x not in node:
                    return "%r not a member at %r" % (x, list(prefix))
            for absent in ("__absent__", 987654):
                if absent in node:
                    return "membership reports an element without errors"
            n = len(below(prefix))
            if node.total_errors != n or len(node) != n:
                return "total_errors at %r is %r (len %r), expected %d distinct (path, keyword) pairs" % (list(prefix), node.total_errors, len(node), n)
            for x in sorted(nexts, key=repr):
                p = walk(node[x], prefix + (x,))
                if p:
                    return p
        except Exception as ex:      # noqa
            return "inspecting the node at %r raised %s" % (list(prefix), type(ex).__name__)
        return None
    p = walk(tree, ())
    if p:
        return p
    # an element that exists in the instance but has no errors gives an empty tree
    fresh = ErrorTree(errors)
    try:
        if isinstance(instance, list) and instance:
            for i in range(len(instance)):
                if i not in fresh:
                    if len(fresh[i]) != 0 or fresh[i].errors:
                        return "indexing an error-free element gives a non-empty tree"
                    break
        if isinstance(instance, dict):
            for k in instance:
                if k not in fresh:
                    if len(fresh[k]) != 0 or fresh[k].errors:
                        return "indexing an error-free element gives a non-empty tree"
                    break
    except Exception as ex:      # noqa
        # not claimed only when the root recorded an instance other than the validated one (hand-made errors); a root
        # without an error of its own records no instance and indexing it creates an empty child
        roots = [e for e in errors if not e.path]
        if not roots or all(e.instance is instance or e.instance == instance for e in roots):
            return "indexing an existing error-free element raised %s" % type(ex).__name__
    return None


def search(job):
    jsonschema, validators, exceptions = load(job["root"])
    classes = {3: validators.Draft3Validator, 4: validators.Draft4Validator, 6: validators.Draft6Validator, 7: validators.Draft7Validator}
    out, tried = [], 0
    for idx, (d, schema, inst) in enumerate(CASES):
        errs = list(classes[d](schema).iter_errors(inst))
        perms = list(itertools.permutations(range(len(errs)))) if len(errs) <= 5 else [tuple(range(len(errs))), tuple(reversed(range(len(errs))))]
        for perm in perms:
            tried += 1
            # fresh error objects per permutation (the tree keeps references)
            es = list(classes[d](schema).iter_errors(inst))
            p = check_tree(exceptions, [es[i] for i in perm], inst)
            if p:
                out.append({"kind": "T", "case": idx, "draft": d, "schema": schema, "instance": inst, "order": list(perm), "problem": p})
                break
        if len(out) >= job.get("limit", 3):
            break
    # hand-made errors: same path and keyword twice, deep paths, mixed element types
    VE = exceptions.ValidationError
    made = [[VE("a", validator="k", path=[0, "x"], instance=1), VE("b", validator="k", path=[0, "x"], instance=1), VE("c", validator="j", path=[0], instance={"x": 1})],
            [VE("a", validator="k", path=["p", 1, "q"], instance=1), VE("b", validator="k", path=[], instance={"p": [0, {"q": 1}]}), VE("c", validator="m", path=["p"], instance=[0, {"q": 1}])]]
    # pairs of different paths that a joined-string key would identify, for several separators; and int vs digit-string elements
    for sep in ("/", ".", ",", " ", "", "\x00", "', '", "][", "->", ":"):
        made.append([VE("a", validator="k", path=["a", "b"], instance=1), VE("b", validator="k", path=["a" + sep + "b"], instance=2)])
    made.append([VE("a", validator="k", path=[], instance=1), VE("b", validator="k", path=[""], instance=2)])
    made.append([VE("a", validator="k", path=[0], instance=1), VE("b", validator="k", path=["0"], instance=2)])
    made.append([VE("a", validator="k", path=["a", 1], instance=1), VE("b", validator="k", path=["a", "1"], instance=2)])
    made.append([VE("a", validator="k", path=["", ""], instance=1), VE("b", validator="k", path=[""], instance=2), VE("c", validator="k", path=[], instance=3)])
    for m in made:
        for perm in itertools.permutations(range(len(m))):
            tried += 1
            p = check_tree(exceptions, [m[i] for i in perm], None)
            if p:
                out.append({"kind": "T", "case": "made", "order": list(perm), "problem": p})
                break
    return {"failures": out[:job.get("limit", 3)], "tried": tried}


def replay(job):
    r = search(job)
    if r["failures"]:
        return {"status": "fails", "failure": r["failures"][0]}
    return {"status": "agrees"}


if __name__ == "__main__":
    job = json.load(sys.stdin)
    json.dump({"search": search, "replay": replay}[job["cmd"]](job), sys.stdout, default=str)
