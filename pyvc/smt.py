"""SMT vocabulary for Python/JSON values (DESIGN.md section 4) and the solver wrapper.

One uninterpreted sort V for Python values with total accessor functions.  All
axioms are universally quantified with explicit patterns.  Nothing here is
specific to jsonschema.
"""
import itertools
import os
import subprocess
import tempfile
import time

import z3

V = z3.DeclareSort("V")
I, B, R, S = z3.IntSort(), z3.BoolSort(), z3.RealSort(), z3.StringSort()

K_NONE, K_BOOL, K_INT, K_FLOAT, K_STR, K_LIST, K_DICT, K_OBJ = range(8)
_CTOR_KIND = {"mk_str": K_STR, "mk_int": K_INT, "mk_bool": K_BOOL, "mk_float": K_FLOAT, "mk_none": K_NONE}
KIND_NAMES = ["none", "bool", "int", "float", "str", "list", "dict", "obj"]

_kind = z3.Function("kind", V, I)
_bval = z3.Function("bval", V, B)
_ival = z3.Function("ival", V, I)
_fval = z3.Function("fval", V, R)
_sval = z3.Function("sval", V, S)


def _unwrap(t, ctor):
    return t.arg(0) if (z3.is_app(t) and t.num_args() == 1 and t.decl().name() == ctor) else None


def _is_ite(t):
    return z3.is_app(t) and t.decl().kind() == z3.Z3_OP_ITE


def kind(t):
    k = _CTOR_KIND.get(t.decl().name()) if z3.is_app(t) else None
    if k is not None:
        return z3.IntVal(k)
    if _is_ite(t):
        a, b = kind(t.arg(1)), kind(t.arg(2))
        if z3.is_int_value(a) and z3.is_int_value(b):
            return a if a.as_long() == b.as_long() else z3.If(t.arg(0), a, b)
    return _kind(t)


def bval(t):
    a = _unwrap(t, "mk_bool")
    if a is not None:
        return a
    if _is_ite(t) and static_kind(t.arg(1)) == K_BOOL and static_kind(t.arg(2)) == K_BOOL:
        return z3.If(t.arg(0), bval(t.arg(1)), bval(t.arg(2)))
    return _bval(t)


def ival(t):
    a = _unwrap(t, "mk_int")
    if a is not None:
        return a
    if _is_ite(t) and static_kind(t.arg(1)) == K_INT and static_kind(t.arg(2)) == K_INT:
        return z3.If(t.arg(0), ival(t.arg(1)), ival(t.arg(2)))
    return _ival(t)


def fval(t):
    a = _unwrap(t, "mk_float")
    return a if a is not None else _fval(t)


def sval(t):
    a = _unwrap(t, "mk_str")
    return a if a is not None else _sval(t)
llen = z3.Function("llen", V, I)
lget = z3.Function("lget", V, I, V)
dlen = z3.Function("dlen", V, I)
dkey = z3.Function("dkey", V, I, S)
dval = z3.Function("dval", V, I, V)
dhas = z3.Function("dhas", V, S, B)
dget = z3.Function("dget", V, S, V)
didx = z3.Function("didx", V, S, I)

mk_none = z3.Const("mk_none", V)
mk_bool = z3.Function("mk_bool", B, V)
mk_int = z3.Function("mk_int", I, V)
mk_float = z3.Function("mk_float", R, V)
mk_str = z3.Function("mk_str", S, V)

isjson = z3.Function("isjson", V, B)
pyeq = z3.Function("pyeq", V, V, B)       # Python ==
jeq = z3.Function("jeq", V, V, B)         # JSON equality (spec)
isdouble = z3.Function("isdouble", R, B)  # "this real is a finite IEEE double"
objtruth = z3.Function("objtruth", V, B)
size = z3.Function("size", V, I)          # well-founded measure on JSON trees

# regular expressions: one shared uninterpreted predicate (C01 prescribes it)
re_search = z3.Function("re_search", S, S, B)
re_compiles = z3.Function("re_compiles", S, B)

_counter = itertools.count()


def fresh(prefix, sort=V):
    return z3.Const("%s!%d" % (prefix, next(_counter)), sort)


def static_kind(t):
    if z3.is_app(t):
        k = _CTOR_KIND.get(t.decl().name())
        if k is not None:
            return k
        if t.decl().kind() == z3.Z3_OP_ITE:
            a, b = static_kind(t.arg(1)), static_kind(t.arg(2))
            if a is not None and a == b:
                return a
    return None


def kd(t, k):
    """kind(t) == k, folded when t is a constructor application"""
    sk = static_kind(t)
    if sk is not None:
        return z3.BoolVal(sk == k)
    return kind(t) == k


def fresh_fn(prefix, args, sort=V):
    """A fresh value depending on the enclosing loop indices `args` (skolem function)."""
    if not args:
        return fresh(prefix, sort)
    f = z3.Function("%s!%d" % (prefix, next(_counter)), *([a.sort() for a in args] + [sort]))
    return f(*args)


def IntV(n):
    return z3.IntVal(n)


def StrV(s):
    return z3.StringVal(s)


def is_kind(v, *ks):
    sk = static_kind(v)
    if sk is not None:
        return z3.BoolVal(sk in ks)
    return z3.Or([kind(v) == k for k in ks]) if len(ks) > 1 else kind(v) == ks[0]


def num(v):
    """Mathematical value of a numeric Python value (bool counts as 0/1)."""
    return z3.If(kind(v) == K_BOOL, z3.If(bval(v), z3.RealVal(1), z3.RealVal(0)),
                 z3.If(kind(v) == K_INT, z3.ToReal(ival(v)), fval(v)))


def is_numeric(v):
    return is_kind(v, K_BOOL, K_INT, K_FLOAT)


def truthy(v):
    if z3.is_app(v) and v.decl().kind() == z3.Z3_OP_ITE:
        return z3.If(v.arg(0), truthy(v.arg(1)), truthy(v.arg(2)))
    sk = static_kind(v)
    if sk == K_BOOL:
        return bval(v)
    if sk == K_NONE:
        return z3.BoolVal(False)
    if sk == K_INT:
        return ival(v) != 0
    if sk == K_STR:
        return z3.Length(sval(v)) > 0
    return z3.If(kind(v) == K_NONE, z3.BoolVal(False),
           z3.If(kind(v) == K_BOOL, bval(v),
           z3.If(kind(v) == K_INT, ival(v) != 0,
           z3.If(kind(v) == K_FLOAT, fval(v) != 0,
           z3.If(kind(v) == K_STR, z3.Length(sval(v)) > 0,
           z3.If(kind(v) == K_LIST, llen(v) > 0,
           z3.If(kind(v) == K_DICT, dlen(v) > 0, objtruth(v))))))))


def core_axioms():
    v, w = z3.Consts("v w", V)
    i, j = z3.Ints("i j")
    b = z3.Bool("b")
    r = z3.Real("r")
    s = z3.String("s")
    ax = []
    A = ax.append
    A(z3.ForAll([v], z3.And(kind(v) >= 0, kind(v) <= 7), patterns=[kind(v)]))
    A(z3.ForAll([v], llen(v) >= 0, patterns=[llen(v)]))
    A(z3.ForAll([v], dlen(v) >= 0, patterns=[dlen(v)]))
    # constructors (stated over the raw accessor symbols: the Python-level wrappers fold these away)
    A(_kind(mk_none) == K_NONE)
    A(z3.ForAll([b], z3.And(_kind(mk_bool(b)) == K_BOOL, _bval(mk_bool(b)) == b), patterns=[mk_bool(b)]))
    A(z3.ForAll([i], z3.And(_kind(mk_int(i)) == K_INT, _ival(mk_int(i)) == i), patterns=[mk_int(i)]))
    A(z3.ForAll([r], z3.And(_kind(mk_float(r)) == K_FLOAT, _fval(mk_float(r)) == r), patterns=[mk_float(r)]))
    A(z3.ForAll([s], z3.And(_kind(mk_str(s)) == K_STR, _sval(mk_str(s)) == s), patterns=[mk_str(s)]))
    # scalars are determined by kind + payload
    A(z3.ForAll([v], z3.Implies(_kind(v) == K_NONE, v == mk_none), patterns=[_kind(v)]))
    A(z3.ForAll([v], z3.Implies(_kind(v) == K_BOOL, v == mk_bool(_bval(v))), patterns=[_bval(v)]))
    A(z3.ForAll([v], z3.Implies(_kind(v) == K_INT, v == mk_int(_ival(v))), patterns=[_ival(v)]))
    A(z3.ForAll([v], z3.Implies(_kind(v) == K_FLOAT, v == mk_float(_fval(v))), patterns=[_fval(v)]))
    A(z3.ForAll([v], z3.Implies(_kind(v) == K_STR, v == mk_str(_sval(v))), patterns=[_sval(v)]))
    # dicts: distinct keys in insertion order; dhas/dget/didx tie keys to positions
    A(z3.ForAll([v, i, j], z3.Implies(z3.And(0 <= i, i < j, j < dlen(v)), dkey(v, i) != dkey(v, j)),
                patterns=[z3.MultiPattern(dkey(v, i), dkey(v, j))]))
    A(z3.ForAll([v, s], z3.Implies(dhas(v, s), z3.And(0 <= didx(v, s), didx(v, s) < dlen(v),
                                                     dkey(v, didx(v, s)) == s,
                                                     dget(v, s) == dval(v, didx(v, s)))),
                patterns=[dhas(v, s)]))
    A(z3.ForAll([v, i], z3.Implies(z3.And(0 <= i, i < dlen(v)),
                                   z3.And(dhas(v, dkey(v, i)), didx(v, dkey(v, i)) == i,
                                          dget(v, dkey(v, i)) == dval(v, i))),
                patterns=[dkey(v, i)], ))
    A(z3.ForAll([v, s], z3.Implies(dhas(v, s), kind(v) == K_DICT), patterns=[dhas(v, s)]))
    return ax


def json_axioms():
    v = z3.Const("v", V)
    i = z3.Int("i")
    ax = []
    A = ax.append
    A(z3.ForAll([v], z3.Implies(isjson(v), kind(v) != K_OBJ), patterns=[isjson(v)]))
    A(z3.ForAll([v], z3.Implies(z3.And(isjson(v), kind(v) == K_FLOAT), isdouble(fval(v))), patterns=[isjson(v)]))
    A(z3.ForAll([v, i], z3.Implies(z3.And(isjson(v), kind(v) == K_LIST, 0 <= i, i < llen(v)), isjson(lget(v, i))),
                patterns=[z3.MultiPattern(isjson(v), lget(v, i))]))
    A(z3.ForAll([v, i], z3.Implies(z3.And(isjson(v), kind(v) == K_DICT, 0 <= i, i < dlen(v)), isjson(dval(v, i))),
                patterns=[z3.MultiPattern(isjson(v), dval(v, i))]))
    s_ = z3.String("s")
    b_ = z3.Bool("b")
    A(z3.ForAll([s_], isjson(mk_str(s_)), patterns=[mk_str(s_)]))
    A(z3.ForAll([i], isjson(mk_int(i)), patterns=[mk_int(i)]))
    A(z3.ForAll([b_], isjson(mk_bool(b_)), patterns=[mk_bool(b_)]))
    A(isjson(mk_none))
    # well-founded size
    A(z3.ForAll([v], size(v) >= 1, patterns=[size(v)]))
    A(z3.ForAll([v, i], z3.Implies(z3.And(kind(v) == K_LIST, 0 <= i, i < llen(v)), size(lget(v, i)) < size(v)),
                patterns=[size(lget(v, i))]))
    A(z3.ForAll([v, i], z3.Implies(z3.And(kind(v) == K_DICT, 0 <= i, i < dlen(v)), size(dval(v, i)) < size(v)),
                patterns=[size(dval(v, i))]))
    return ax


def _eq_axioms(eq, bool_is_number):
    """Structural equality axioms.  pyeq: bool is a number (True == 1).  jeq: it is not."""
    a, b = z3.Consts("a b", V)
    i = z3.Int("i")
    s = z3.String("s")
    ax = []
    A = ax.append
    pat = [eq(a, b)]
    numk = (K_BOOL, K_INT, K_FLOAT) if bool_is_number else (K_INT, K_FLOAT)

    def cls(v):  # equality class of kinds
        if bool_is_number:
            return z3.If(is_kind(v, *numk), IntV(100), kind(v))
        return z3.If(is_kind(v, *numk), IntV(100), kind(v))
    A(z3.ForAll([a, b], z3.Implies(cls(a) != cls(b), z3.Not(eq(a, b))), patterns=pat))
    A(z3.ForAll([a, b], z3.Implies(z3.And(is_kind(a, *numk), is_kind(b, *numk)), eq(a, b) == (num(a) == num(b))), patterns=pat))
    if not bool_is_number:
        A(z3.ForAll([a, b], z3.Implies(z3.And(kind(a) == K_BOOL, kind(b) == K_BOOL), eq(a, b) == (bval(a) == bval(b))), patterns=pat))
    A(z3.ForAll([a, b], z3.Implies(z3.And(kind(a) == K_STR, kind(b) == K_STR), eq(a, b) == (sval(a) == sval(b))), patterns=pat))
    A(z3.ForAll([a, b], z3.Implies(z3.And(kind(a) == K_NONE, kind(b) == K_NONE), eq(a, b)), patterns=pat))
    A(z3.ForAll([a, b], z3.Implies(z3.And(kind(a) == K_OBJ, kind(b) == K_OBJ), eq(a, b) == (a == b)), patterns=pat))
    A(z3.ForAll([a], eq(a, a), patterns=[eq(a, a)]))
    A(z3.ForAll([a, b], eq(a, b) == eq(b, a), patterns=pat))
    # lists
    A(z3.ForAll([a, b], z3.Implies(z3.And(kind(a) == K_LIST, kind(b) == K_LIST, eq(a, b)), llen(a) == llen(b)), patterns=pat))
    A(z3.ForAll([a, b, i], z3.Implies(z3.And(kind(a) == K_LIST, kind(b) == K_LIST, eq(a, b), 0 <= i, i < llen(a)),
                                      eq(lget(a, i), lget(b, i))),
                patterns=[z3.MultiPattern(eq(a, b), lget(a, i))]))
    wit = z3.Function("eqwit_" + eq.name(), V, V, I)
    A(z3.ForAll([a, b], z3.Implies(z3.And(kind(a) == K_LIST, kind(b) == K_LIST, llen(a) == llen(b), z3.Not(eq(a, b))),
                                   z3.And(0 <= wit(a, b), wit(a, b) < llen(a),
                                          z3.Not(eq(lget(a, wit(a, b)), lget(b, wit(a, b)))))), patterns=pat))
    # dicts
    A(z3.ForAll([a, b], z3.Implies(z3.And(kind(a) == K_DICT, kind(b) == K_DICT, eq(a, b)), dlen(a) == dlen(b)), patterns=pat))
    A(z3.ForAll([a, b, s], z3.Implies(z3.And(kind(a) == K_DICT, kind(b) == K_DICT, eq(a, b), dhas(a, s)),
                                      z3.And(dhas(b, s), eq(dget(a, s), dget(b, s)))),
                patterns=[z3.MultiPattern(eq(a, b), dhas(a, s))]))
    dwit = z3.Function("eqdwit_" + eq.name(), V, V, S)
    A(z3.ForAll([a, b], z3.Implies(z3.And(kind(a) == K_DICT, kind(b) == K_DICT, dlen(a) == dlen(b), z3.Not(eq(a, b))),
                                   z3.And(dhas(a, dwit(a, b)),
                                          z3.Or(z3.Not(dhas(b, dwit(a, b))),
                                                z3.Not(eq(dget(a, dwit(a, b)), dget(b, dwit(a, b))))))), patterns=pat))
    return ax


def pyeq_axioms():
    return _eq_axioms(pyeq, True)


def jeq_axioms():
    return _eq_axioms(jeq, False)


AXIOM_GROUPS = {
    "core": core_axioms,
    "json": json_axioms,
    "pyeq": pyeq_axioms,
    "jeq": jeq_axioms,
}


def _decl_names(expr, acc=None, seen=None):
    acc = set() if acc is None else acc
    seen = set() if seen is None else seen
    stack = [expr]
    while stack:
        e = stack.pop()
        k = e.get_id()
        if k in seen:
            continue
        seen.add(k)
        if z3.is_quantifier(e):
            stack.append(e.body())
        elif z3.is_app(e):
            acc.add(e.decl().name())
            stack.extend(e.children())
    return acc


def needed_groups(formulas, extra_groups=()):
    names = set()
    seen = set()
    for f in formulas:
        _decl_names(f, names, seen)
    g = ["core"]
    if names & {"isjson", "size"}:
        g.append("json")
    if "pyeq" in names:
        g.append("pyeq")
    if "jeq" in names:
        g.append("jeq")
    for x in extra_groups:
        if x not in g:
            g.append(x)
    return g


def _split_range_forall(q):
    """ForAll([i], Implies(And(lo-cond, hi-cond), body)) -> (lo, n, body_with_var) or None"""
    if not (z3.is_quantifier(q) and q.is_forall() and q.num_vars() == 1 and q.var_sort(0) == I):
        return None
    b = q.body()
    if not (z3.is_app(b) and b.decl().kind() == z3.Z3_OP_IMPLIES):
        return None
    rng, body = b.arg(0), b.arg(1)
    return rng, body


def pointwise_iff(lhs, rhs):
    """A goal that implies (lhs <=> rhs) and is easier for the solver when both sides are bounded
    universal quantifications over the same index range: forall i. range => (A(i) <=> B(i)).
    Returns None when the shapes do not match."""
    a, b = _split_range_forall(lhs), _split_range_forall(rhs)
    if a is None or b is None:
        return None
    i = fresh("pw", I)
    ra, ba = z3.substitute_vars(a[0], i), z3.substitute_vars(a[1], i)
    rb, bb = z3.substitute_vars(b[0], i), z3.substitute_vars(b[1], i)
    inner = pointwise_iff(ba, bb)
    core = inner if inner is not None else (ba == bb)
    return z3.And(z3.ForAll([i], ra == rb), z3.ForAll([i], z3.Implies(ra, core)))


class Result:
    def __init__(self, status, model=None, solver="z3", time_s=0.0, reason=""):
        self.status, self.model, self.solver, self.time_s, self.reason = status, model, solver, time_s, reason


_extra_axiom_providers = []   # callables(names:set) -> list of axioms ; registered by spec modules


def register_axioms(fn):
    _extra_axiom_providers.append(fn)
    return fn


def all_axioms_for(formulas):
    names = set()
    seen = set()
    for f in formulas:
        _decl_names(f, names, seen)
    ax = []
    # fixpoint: axioms can mention further symbols
    used_groups = set()
    used_providers = {}
    changed = True
    while changed:
        changed = False
        groups = ["core"]
        if names & {"isjson", "size"}:
            groups.append("json")
        if "pyeq" in names:
            groups.append("pyeq")
        if "jeq" in names:
            groups.append("jeq")
        for g in groups:
            if g not in used_groups:
                used_groups.add(g)
                new = AXIOM_GROUPS[g]()
                ax.extend(new)
                for f in new:
                    _decl_names(f, names, seen)
                changed = True
        for idx, p in enumerate(_extra_axiom_providers):
            new = p(names)
            key = used_providers.setdefault(idx, set())
            for f in new:
                fid = f.get_id()
                if fid not in key:
                    key.add(fid)
                    ax.append(f)
                    _decl_names(f, names, seen)
                    changed = True
    return ax


def check_sat(formulas, timeout_ms=10000, seed=0, use_cvc5=True):
    """Satisfiability of the conjunction of `formulas` plus the needed axioms."""
    ax = all_axioms_for(formulas)
    s = z3.Solver()
    s.set("timeout", timeout_ms)
    if seed:
        s.set("random_seed", seed % (2 ** 30))
    for a in ax:
        s.add(a)
    for f in formulas:
        s.add(f)
    t0 = time.time()
    r = s.check()
    dt = time.time() - t0
    if r == z3.unsat:
        return Result("unsat", None, "z3", dt)
    if r == z3.sat:
        return Result("sat", s.model(), "z3", dt)
    reason = s.reason_unknown()
    if use_cvc5:
        r2 = _cvc5_check(s.to_smt2(), timeout_ms)
        if r2 is not None:
            return Result(r2, None, "cvc5", dt + 0.0, reason="z3: " + reason)
    return Result("unknown", None, "z3", dt, reason=reason)


def to_smt2(formulas):
    ax = all_axioms_for(formulas)
    s = z3.Solver()
    for a in ax:
        s.add(a)
    for f in formulas:
        s.add(f)
    return s.to_smt2()


def _cvc5_check(smt2, timeout_ms):
    """Second opinion from the cvc5 binary on z3's `unknown`.  Only `unsat` is used."""
    exe = "/usr/bin/cvc5"
    if not os.path.exists(exe):
        return None
    txt = "(set-logic ALL)\n" + smt2
    fd, path = tempfile.mkstemp(suffix=".smt2", dir=os.environ.get("PYVC_SCRATCH", None))
    try:
        with os.fdopen(fd, "w") as f:
            f.write(txt)
        try:
            p = subprocess.run([exe, "--strings-exp", "--tlimit=%d" % timeout_ms, path],
                               capture_output=True, text=True, timeout=timeout_ms / 1000.0 + 5)
        except subprocess.TimeoutExpired:
            return None
        out = p.stdout.strip().splitlines()
        if out and out[0].strip() == "unsat":
            return "unsat"
        return None
    finally:
        try:
            os.unlink(path)
        except OSError:
            pass


# ---------------------------------------------------------------------------
# counter-model -> concrete Python value

class Unconcretisable(Exception):
    pass


def model_value(model, term, depth=0, maxlen=6):
    """Concrete Python (JSON-ish) value of V-term `term` in `model`."""
    if depth > 6:
        return None
    ev = lambda e: model.eval(e, model_completion=True)
    k = ev(kind(term))
    k = k.as_long() if z3.is_int_value(k) else 0
    if k == K_NONE:
        return None
    if k == K_BOOL:
        return z3.is_true(ev(bval(term)))
    if k == K_INT:
        x = ev(ival(term))
        return x.as_long() if z3.is_int_value(x) else 0
    if k == K_FLOAT:
        x = ev(fval(term))
        try:
            if z3.is_rational_value(x):
                return float(x.numerator_as_long()) / float(x.denominator_as_long())
            if z3.is_algebraic_value(x):
                return float(x.approx(20).as_decimal(17).rstrip("?"))
        except (OverflowError, ZeroDivisionError, ValueError):
            pass
        return 0.5
    if k == K_STR:
        x = ev(sval(term))
        return x.as_string() if z3.is_string_value(x) else ""
    if k == K_LIST:
        n = ev(llen(term))
        n = n.as_long() if z3.is_int_value(n) else 0
        if n > maxlen:
            raise Unconcretisable("list of length %d" % n)
        return [model_value(model, lget(term, IntV(j)), depth + 1, maxlen) for j in range(n)]
    if k == K_DICT:
        n = ev(dlen(term))
        n = n.as_long() if z3.is_int_value(n) else 0
        if n > maxlen:
            raise Unconcretisable("dict of length %d" % n)
        out = {}
        for j in range(n):
            key = ev(dkey(term, IntV(j)))
            key = key.as_string() if z3.is_string_value(key) else "k%d" % j
            out[key] = model_value(model, dval(term, IntV(j)), depth + 1, maxlen)
        return out
    return {"__obj__": str(ev(term))}
