"""Value domain of the symbolic executor (DESIGN.md section 3.2)."""
import z3

from . import smt

NOCONC = object()


class OutOfSubset(Exception):
    """The code uses something the engine does not model: verdict 'undecided', never a violation."""


class SV:
    """A Python value of SMT sort V, with its concrete Python value when statically known."""
    __slots__ = ("t", "conc", "shape")

    def __init__(self, t, conc=NOCONC, shape=None):
        # shape: a container built by the analysed function: python dict/list whose leaves are SVs
        self.t, self.conc, self.shape = t, conc, shape

    def __repr__(self):
        return "SV(%s)" % (self.t if self.conc is NOCONC else repr(self.conc))

    @property
    def known(self):
        return self.conc is not NOCONC


class SB:
    """A Python bool given by an SMT formula."""
    __slots__ = ("f",)

    def __init__(self, f):
        self.f = f if not isinstance(f, bool) else z3.BoolVal(f)

    def __repr__(self):
        return "SB(%s)" % self.f


class SInt:
    """A Python int given by an SMT integer term (lengths, indices)."""
    __slots__ = ("t",)

    def __init__(self, t):
        self.t = t if not isinstance(t, int) else z3.IntVal(t)

    def __repr__(self):
        return "SInt(%s)" % self.t


class SStr:
    """A Python str given by an SMT string term."""
    __slots__ = ("t",)

    def __init__(self, t):
        self.t = t if not isinstance(t, str) else z3.StringVal(t)

    def __repr__(self):
        return "SStr(%s)" % self.t


class SReal:
    """A Python float/Fraction given by an SMT real term (only as intermediate results)."""
    __slots__ = ("t", "isfloat")

    def __init__(self, t, isfloat=True):
        self.t, self.isfloat = t, isfloat


class Opaque:
    """A value whose content is not modelled (formatted messages, reprs)."""
    __slots__ = ("tag", "args")

    def __init__(self, tag, args=()):
        self.tag, self.args = tag, tuple(args)

    def __repr__(self):
        return "Opaque(%s)" % (self.tag,)


class PyTuple:
    __slots__ = ("items",)

    def __init__(self, items):
        self.items = tuple(items)

    def __repr__(self):
        return "PyTuple%r" % (self.items,)


class PyDict:
    """A dict with statically known string keys (kwargs, literal tables)."""
    __slots__ = ("d",)

    def __init__(self, d):
        self.d = dict(d)


class PySet:
    """A set literal of statically known constants."""
    __slots__ = ("items",)

    def __init__(self, items):
        self.items = tuple(items)


class ListObj:
    """Reference to a mutable list allocated by the function under analysis (content in heap)."""
    __slots__ = ("oid",)

    def __init__(self, oid):
        self.oid = oid

    def __repr__(self):
        return "ListObj(%s)" % self.oid


class ObjVal:
    """Reference to an object with modelled fields (validator, resolver, checker ...)."""
    __slots__ = ("cls", "oid")

    def __init__(self, cls, oid):
        self.cls, self.oid = cls, oid

    def __repr__(self):
        return "ObjVal(%s#%s)" % (self.cls, self.oid)


class FuncRef:
    """A function of the repository (by unit key), with its closure bindings."""
    __slots__ = ("key", "closure")

    def __init__(self, key, closure=None):
        self.key, self.closure = key, closure or {}

    def __repr__(self):
        return "FuncRef(%s)" % self.key


class ClassRef:
    __slots__ = ("name",)

    def __init__(self, name):
        self.name = name

    def __repr__(self):
        return "ClassRef(%s)" % self.name


class ModuleRef:
    __slots__ = ("name",)

    def __init__(self, name):
        self.name = name

    def __repr__(self):
        return "ModuleRef(%s)" % self.name


class Builtin:
    __slots__ = ("name",)

    def __init__(self, name):
        self.name = name

    def __repr__(self):
        return "Builtin(%s)" % self.name


class BoundMethod:
    __slots__ = ("obj", "name")

    def __init__(self, obj, name):
        self.obj, self.name = obj, name

    def __repr__(self):
        return "BoundMethod(%r.%s)" % (self.obj, self.name)


class ExcVal:
    """An exception instance: class name + modelled attributes."""
    __slots__ = ("cls", "fields", "origin")

    def __init__(self, cls, fields=None, origin=""):
        self.cls, self.fields, self.origin = cls, dict(fields or {}), origin

    def __repr__(self):
        return "ExcVal(%s @%s)" % (self.cls, self.origin)


class Undefined:
    """Value of a loop variable after a summarised loop: any use is out of subset."""
    def __init__(self, name):
        self.name = name


# ---------------------------------------------------------------------------
# error objects (ValidationError) as immutable records

ERR_FIELDS = ("message", "validator", "validator_value", "instance", "schema", "path", "schema_path",
              "context", "cause", "parent")


class PathV:
    """A deque of path elements: concrete python tuple of values prepended/appended to an abstract base.

    value = tuple(front) ++ base ++ tuple(back), where base is None (empty) or a z3 Seq-like abstract
    token (ErrElem field)."""
    __slots__ = ("front", "base", "back")

    def __init__(self, front=(), base=None, back=()):
        self.front, self.base, self.back = tuple(front), base, tuple(back)

    def appendleft(self, x):
        return PathV((x,) + self.front, self.base, self.back)

    def extend(self, xs):
        return PathV(self.front, self.base, self.back + tuple(xs))

    def __repr__(self):
        return "PathV(%r,%r,%r)" % (self.front, self.base, self.back)


class UNSET:
    def __repr__(self):
        return "<unset>"


UNSET = UNSET()


class ErrVal:
    """A ValidationError value.  `base` is None for an error constructed in the function under
    analysis, or an ErrElem (generic element of a callee's result sequence).  `fields` holds the
    fields known to have been assigned; for base errors a field not in `fields` is base's.  `setif`
    holds `_set` assignments: field -> value used *if the base field is unset*."""
    __slots__ = ("cls", "base", "fields", "setif")

    def __init__(self, cls="ValidationError", base=None, fields=None, setif=None):
        self.cls, self.base, self.fields, self.setif = cls, base, dict(fields or {}), dict(setif or {})

    def with_field(self, k, v):
        f = dict(self.fields)
        f[k] = v
        return ErrVal(self.cls, self.base, f, self.setif)

    def with_setif(self, k, v):
        s = dict(self.setif)
        if k not in s:            # innermost _set wins
            s[k] = v
        return ErrVal(self.cls, self.base, self.fields, s)

    def __repr__(self):
        return "ErrVal(base=%r,%r,setif=%r)" % (self.base, self.fields, self.setif)


class ErrRef:
    """Reference to an error object (a mutable Python object) whose record is heap[oid] (an ErrVal)."""
    __slots__ = ("oid",)

    def __init__(self, oid):
        self.oid = oid

    def __repr__(self):
        return "ErrRef(%s)" % self.oid


class ErrElem:
    """Generic element of a result sequence `src` (a Gen node); `first`: it is the first element."""
    __slots__ = ("src", "first")

    def __init__(self, src, first=False):
        self.src, self.first = src, first

    def __repr__(self):
        return "ErrElem(%r%s)" % (self.src, ", first" if self.first else "")


# ---------------------------------------------------------------------------
# sequence expressions: results of generators, contents of lists

class Seq:
    pass


class Nil(Seq):
    def __repr__(self):
        return "Nil"


NIL = Nil()


class One(Seq):
    __slots__ = ("val",)

    def __init__(self, val):
        self.val = val

    def __repr__(self):
        return "One(%r)" % (self.val,)


class Cat(Seq):
    __slots__ = ("parts",)

    def __init__(self, parts):
        self.parts = tuple(parts)

    def __repr__(self):
        return "Cat%r" % (self.parts,)


class Alt(Seq):
    """Exactly one of the guarded alternatives is taken (guards partition the reachable space)."""
    __slots__ = ("cases",)

    def __init__(self, cases):
        self.cases = tuple(cases)      # (BoolRef, Seq)

    def __repr__(self):
        return "Alt%r" % (self.cases,)


class For(Seq):
    """flat-map: concat_{i in [0,n)} body(i).  `unordered`: iteration order unspecified (set)."""
    __slots__ = ("ivar", "n", "body", "unordered", "lo")

    def __init__(self, ivar, n, body, unordered=False, lo=None):
        self.ivar, self.n, self.body, self.unordered = ivar, n, body, unordered
        self.lo = lo if lo is not None else z3.IntVal(0)

    def rng(self):
        return z3.And(self.ivar >= self.lo, self.ivar < self.n)

    def __repr__(self):
        return "For(%s<=%s<%s: %r)" % (self.lo, self.ivar, self.n, self.body)


class ForErr(Seq):
    """flat-map over the elements of `src`: `body` mentions ErrElem(src) as the generic element."""
    __slots__ = ("src", "body")

    def __init__(self, src, body):
        self.src, self.body = src, body

    def __repr__(self):
        return "ForErr(%r: %r)" % (self.src, self.body)


class Gen(Seq):
    """Result sequence of a call handled by contract.  `key` names the callee, `args` is a tuple of
    hashable descriptors (z3 terms / constants); `empty` the z3 condition for emptiness, `meta`
    whatever the contract wants to remember (used for element properties)."""
    __slots__ = ("key", "args", "empty", "meta")

    def __init__(self, key, args, empty, meta=None):
        self.key, self.args, self.empty, self.meta = key, tuple(args), empty, meta or {}

    def __repr__(self):
        return "Gen(%s%r)" % (self.key, self.args)


def cat(*parts):
    flat = []
    for p in parts:
        if isinstance(p, Nil):
            continue
        if isinstance(p, Cat):
            flat.extend(p.parts)
        else:
            flat.append(p)
    if not flat:
        return NIL
    if len(flat) == 1:
        return flat[0]
    return Cat(flat)


def seq_empty(s):
    """SMT condition: the sequence is empty."""
    if isinstance(s, Nil):
        return z3.BoolVal(True)
    if isinstance(s, One):
        return z3.BoolVal(False)
    if isinstance(s, Cat):
        return z3.And([seq_empty(p) for p in s.parts])
    if isinstance(s, Alt):
        return z3.And([z3.Implies(c, seq_empty(b)) for c, b in s.cases])
    if isinstance(s, For):
        body = seq_empty(s.body)
        if z3.is_true(body):
            return body
        return z3.ForAll([s.ivar], z3.Implies(s.rng(), body))
    if isinstance(s, ForErr):
        if seq_never_empty(s.body):
            return seq_empty(s.src)
        raise OutOfSubset("emptiness of a flat-map over errors whose body may yield nothing")
    if isinstance(s, Gen):
        return s.empty
    raise OutOfSubset("seq_empty of %r" % (s,))


def seq_never_empty(s):
    if isinstance(s, One):
        return True
    if isinstance(s, Cat):
        return any(seq_never_empty(p) for p in s.parts)
    if isinstance(s, Alt):
        return all(seq_never_empty(b) for _, b in s.cases)
    return False


# ---------------------------------------------------------------------------
# substitution of z3 constants inside values (used when a loop index i becomes the exit index j)

def subst(x, pairs):
    if isinstance(x, z3.ExprRef):
        return z3.substitute(x, *pairs)
    if isinstance(x, SV):
        return SV(z3.substitute(x.t, *pairs), x.conc, subst(x.shape, pairs) if x.shape is not None else None)
    if isinstance(x, SB):
        return SB(z3.substitute(x.f, *pairs))
    if isinstance(x, SInt):
        return SInt(z3.substitute(x.t, *pairs))
    if isinstance(x, SStr):
        return SStr(z3.substitute(x.t, *pairs))
    if isinstance(x, SReal):
        return SReal(z3.substitute(x.t, *pairs), x.isfloat)
    if isinstance(x, PyTuple):
        return PyTuple([subst(i, pairs) for i in x.items])
    if isinstance(x, PyDict):
        return PyDict({k: subst(v, pairs) for k, v in x.d.items()})
    if isinstance(x, Opaque):
        return Opaque(x.tag, [subst(a, pairs) for a in x.args])
    if isinstance(x, ErrVal):
        return ErrVal(x.cls, subst(x.base, pairs), {k: subst(v, pairs) for k, v in x.fields.items()},
                      {k: subst(v, pairs) for k, v in x.setif.items()})
    if isinstance(x, ErrElem):
        return ErrElem(subst(x.src, pairs), x.first)
    if isinstance(x, PathV):
        return PathV([subst(i, pairs) for i in x.front], subst(x.base, pairs), [subst(i, pairs) for i in x.back])
    if isinstance(x, ExcVal):
        return ExcVal(x.cls, {k: subst(v, pairs) for k, v in x.fields.items()}, x.origin)
    if isinstance(x, One):
        return One(subst(x.val, pairs))
    if isinstance(x, Cat):
        return Cat([subst(p, pairs) for p in x.parts])
    if isinstance(x, Alt):
        return Alt([(subst(c, pairs), subst(b, pairs)) for c, b in x.cases])
    if isinstance(x, For):
        return For(x.ivar, subst(x.n, pairs), subst(x.body, pairs), x.unordered, subst(x.lo, pairs))
    if isinstance(x, ForErr):
        return ForErr(subst(x.src, pairs), subst(x.body, pairs))
    if isinstance(x, Gen):
        return Gen(x.key, [subst(a, pairs) for a in x.args], subst(x.empty, pairs),
                   {k: subst(v, pairs) for k, v in x.meta.items()})
    if isinstance(x, (list, tuple)):
        return type(x)(subst(i, pairs) for i in x)
    if isinstance(x, dict):
        return {k: subst(v, pairs) for k, v in x.items()}
    return x
