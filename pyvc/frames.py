"""Read/write frame analysis (DESIGN.md 3.4 R/W): conservative syntactic data-flow over the AST.

R: every use of a keyword function's `schema` parameter is a lookup with a constant key
   (schema.get(K[, d]), schema[K], K in schema), a hand-over to a callee whose own uses are analysed
   the same way, or a *record* use (stored in an error: schema=..., _set(schema=...)).
W: every mutation site (attribute / subscript assignment, del, augmented assignment, mutator method
   call) is classified by its receiver: fresh-in-function, a parameter, `self` field, module global,
   class attribute, closure variable.
"""
import ast

MUTATORS = {"append", "extend", "insert", "pop", "remove", "clear", "update", "setdefault", "sort", "reverse",
            "appendleft", "extendleft", "popleft", "add", "discard", "popitem", "__setitem__", "__delitem__"}


def own_nodes(fn):
    body = fn.body if not isinstance(fn, ast.Lambda) else [fn.body]
    stack = list(body)
    while stack:
        n = stack.pop()
        yield n
        if isinstance(n, (ast.FunctionDef, ast.AsyncFunctionDef, ast.Lambda, ast.ClassDef)):
            continue      # a nested definition: its body belongs to another unit
        for c in ast.iter_child_nodes(n):
            if isinstance(c, (ast.FunctionDef, ast.Lambda, ast.ClassDef)):
                continue
            stack.append(c)


def param_names(fn):
    a = fn.args
    return [x.arg for x in a.posonlyargs + a.args] + ([a.vararg.arg] if a.vararg else []) + \
        [x.arg for x in a.kwonlyargs] + ([a.kwarg.arg] if a.kwarg else [])


def schema_reads(repo, key, param, seen=None):
    """-> (set of constant keys read, list of problems, set of callees the parameter is handed to)"""
    seen = seen if seen is not None else set()
    if (key, param) in seen:
        return set(), [], set()
    seen.add((key, param))
    unit = repo.units[key]
    fn = unit.node
    keys, problems, callees = set(), [], set()
    parents = {}
    for n in own_nodes(fn):
        for c in ast.iter_child_nodes(n):
            parents[id(c)] = n
    # aliases: x = schema  (simple rebinding) is treated as another name of the parameter
    names = {param}
    for n in own_nodes(fn):
        if isinstance(n, ast.Assign) and isinstance(n.value, ast.Name) and n.value.id in names:
            for t in n.targets:
                if isinstance(t, ast.Name):
                    names.add(t.id)
    shadowed = set()
    for n in own_nodes(fn):
        if isinstance(n, (ast.GeneratorExp, ast.ListComp, ast.SetComp, ast.DictComp)):
            bound = set()
            for g in n.generators:
                bound |= set(_names(g.target))
            if bound & names:
                for sub in ast.walk(n):
                    if isinstance(sub, ast.Name) and sub.id in bound:
                        shadowed.add(id(sub))
    for n in own_nodes(fn):
        if not (isinstance(n, ast.Name) and n.id in names and isinstance(n.ctx, ast.Load)):
            continue
        if id(n) in shadowed:
            continue
        p = parents.get(id(n))
        # schema.get(K[, d])
        if isinstance(p, ast.Attribute) and p.value is n:
            pp = parents.get(id(p))
            if p.attr == "get" and isinstance(pp, ast.Call) and pp.func is p and pp.args and isinstance(pp.args[0], ast.Constant) \
                    and isinstance(pp.args[0].value, str):
                keys.add(pp.args[0].value)
                continue
            problems.append("use %s.%s at line %d" % (n.id, p.attr, n.lineno))
            continue
        if isinstance(p, ast.Subscript) and p.value is n:
            if isinstance(p.slice, ast.Constant) and isinstance(p.slice.value, str):
                keys.add(p.slice.value)
                continue
            problems.append("subscript with non-constant key at line %d" % n.lineno)
            continue
        if isinstance(p, ast.Compare) and len(p.ops) == 1 and isinstance(p.ops[0], (ast.In, ast.NotIn)) and p.comparators[0] is n:
            if isinstance(p.left, ast.Constant) and isinstance(p.left.value, str):
                keys.add(p.left.value)
                continue
            problems.append("membership test with non-constant key at line %d" % n.lineno)
            continue
        if isinstance(p, ast.Compare) and len(p.ops) == 1 and isinstance(p.ops[0], (ast.Is, ast.IsNot)) and \
                all(isinstance(c, ast.Constant) and c.value in (True, False, None) for c in [p.left] + p.comparators if c is not n):
            continue      # kind test: `schema is True`
        if isinstance(p, ast.Call) and isinstance(p.func, ast.Name) and p.func.id == "isinstance" and p.args and p.args[0] is n:
            continue
        if isinstance(p, ast.keyword) and p.arg in ("schema", "_schema"):
            continue      # record use: ValidationError(schema=schema) / error._set(schema=schema)
        if isinstance(p, ast.Call) and n in p.args:
            callee = _callee_key(repo, unit, p.func)
            if callee is None:
                problems.append("handed to an unknown callee at line %d" % n.lineno)
                continue
            idx = p.args.index(n)
            cfn = repo.units[callee].node
            cparams = param_names(cfn)
            if idx >= len(cparams):
                problems.append("handed to %s beyond its parameters" % callee)
                continue
            k2, p2, c2 = schema_reads(repo, callee, cparams[idx], seen)
            keys |= k2
            problems += ["%s: %s" % (callee, x) for x in p2]
            callees.add(callee)
            callees |= c2
            continue
        if isinstance(p, ast.Assign) and p.value is n:
            continue      # alias, handled above
        problems.append("other use of %s at line %d (%s)" % (n.id, n.lineno, type(p).__name__))
    return keys, problems, callees


def _callee_key(repo, unit, func):
    m = unit.module
    if isinstance(func, ast.Name):
        g = repo.globals[m].get(func.id)
        if g and g[0] == "func":
            return g[1]
        if g and g[0] == "import" and g[1] and g[1].startswith("jsonschema"):
            sub = g[1].split(".")[-1]
            key = "%s:%s" % (sub, g[2])
            return key if key in repo.units else None
    if isinstance(func, ast.Attribute) and isinstance(func.value, ast.Name):
        g = repo.globals[m].get(func.value.id)
        if g and (g[0] == "module" or g[0] == "import"):
            sub = func.value.id
            key = "%s:%s" % (sub, func.attr)
            return key if key in repo.units else None
    return None


# ---------------------------------------------------------------------------------------------
# writes

class Write:
    def __init__(self, unit, line, receiver_class, receiver, what):
        self.unit, self.line, self.cls, self.receiver, self.what = unit, line, receiver_class, receiver, what

    def __repr__(self):
        return "%s:%d %s %s (%s)" % (self.unit, self.line, self.cls, self.receiver, self.what)

    def as_dict(self):
        return {"unit": self.unit, "line": self.line, "class": self.cls, "receiver": self.receiver, "what": self.what}


def _root_name(node):
    while isinstance(node, (ast.Attribute, ast.Subscript, ast.Call)):
        node = node.value if not isinstance(node, ast.Call) else node.func
    return node.id if isinstance(node, ast.Name) else None


def _chain(node):
    parts = []
    while isinstance(node, (ast.Attribute, ast.Subscript)):
        parts.append(node.attr if isinstance(node, ast.Attribute) else "[]")
        node = node.value
    if isinstance(node, ast.Name):
        parts.append(node.id)
    else:
        parts.append("<expr>")
    return ".".join(reversed(parts))


FRESH_CALLS = {"dict", "list", "set", "deque", "defaultdict", "sorted", "tuple", "frozenset", "object"}


def writes_of(repo, key):
    unit = repo.units[key]
    fn = unit.node
    if isinstance(fn, ast.Lambda):
        return []
    params = set(param_names(fn))
    # locals bound to fresh objects: literal containers, comprehension results, calls of constructors
    fresh = set()
    assigned = set()
    for n in own_nodes(fn):
        if isinstance(n, ast.Assign):
            for t in n.targets:
                for nm in _names(t):
                    assigned.add(nm)
                    if _is_fresh_expr(n.value):
                        fresh.add(nm)
        elif isinstance(n, (ast.For, ast.comprehension)):
            for nm in _names(n.target):
                assigned.add(nm)
        elif isinstance(n, ast.With):
            for it in n.items:
                if it.optional_vars is not None:
                    for nm in _names(it.optional_vars):
                        assigned.add(nm)
        elif isinstance(n, ast.ExceptHandler) and n.name:
            assigned.add(n.name)
    # a name assigned both fresh and non-fresh is not fresh
    for n in own_nodes(fn):
        if isinstance(n, ast.Assign) and not _is_fresh_expr(n.value):
            for t in n.targets:
                for nm in _names(t):
                    fresh.discard(nm)
    out = []

    def classify(root, chain):
        if root is None:
            return "expr"
        if root in fresh:
            return "fresh"
        if root in ("self", "cls") and root in params:
            return root
        if root in params:
            return "param"
        if root in assigned:
            return "local"          # a local bound to a non-fresh value: may alias anything
        if root in repo.globals[unit.module]:
            return "global"
        return "closure"

    for n in own_nodes(fn):
        if isinstance(n, (ast.Assign, ast.AugAssign, ast.AnnAssign)):
            targets = n.targets if isinstance(n, ast.Assign) else [n.target]
            for t in targets:
                for tt in ([t] if not isinstance(t, (ast.Tuple, ast.List)) else t.elts):
                    if isinstance(tt, (ast.Attribute, ast.Subscript)):
                        root = _root_name(tt)
                        out.append(Write(key, n.lineno, classify(root, tt), _chain(tt), "assign"))
        elif isinstance(n, ast.Delete):
            for tt in n.targets:
                if isinstance(tt, (ast.Attribute, ast.Subscript)):
                    out.append(Write(key, n.lineno, classify(_root_name(tt), tt), _chain(tt), "del"))
        elif isinstance(n, ast.Call) and isinstance(n.func, ast.Attribute) and n.func.attr in MUTATORS:
            recv = n.func.value
            root = _root_name(recv)
            out.append(Write(key, n.lineno, classify(root, recv), _chain(recv), n.func.attr))
        elif isinstance(n, ast.Call) and isinstance(n.func, ast.Name) and n.func.id == "setattr":
            recv = n.args[0]
            out.append(Write(key, n.lineno, classify(_root_name(recv), recv), _chain(recv), "setattr"))
        elif isinstance(n, ast.Global) or isinstance(n, ast.Nonlocal):
            for nm in n.names:
                out.append(Write(key, n.lineno, "global" if isinstance(n, ast.Global) else "closure", nm, "rebinding"))
    return out


def _names(t):
    if isinstance(t, ast.Name):
        return [t.id]
    if isinstance(t, (ast.Tuple, ast.List)):
        r = []
        for e in t.elts:
            r += _names(e)
        return r
    return []


def _is_fresh_expr(v):
    if isinstance(v, (ast.List, ast.Dict, ast.Set, ast.ListComp, ast.DictComp, ast.SetComp, ast.Tuple, ast.Constant)):
        return True
    if isinstance(v, ast.Call):
        f = v.func
        nm = f.id if isinstance(f, ast.Name) else (f.attr if isinstance(f, ast.Attribute) else None)
        if nm in FRESH_CALLS:
            return True
        if isinstance(f, ast.Attribute) and nm == "copy" and not v.args:
            return True     # x.copy(): a new container
        if nm and nm[:1].isupper():      # constructor call by convention (ValidationError(...), cls(...))
            return True
    return False


def reachable(repo, roots, extra_edges=None):
    """call graph closure over repo units (by name resolution of direct calls and of attribute calls
    whose attribute names a repo method), plus extra edges (keyword tables)."""
    seen, stack = set(), list(roots)
    method_index = {}
    for k in repo.units:
        method_index.setdefault(k.split(":")[1].split(".")[-1], []).append(k)
    while stack:
        k = stack.pop()
        if k in seen or k not in repo.units:
            continue
        seen.add(k)
        unit = repo.units[k]
        for e in (extra_edges or {}).get(k, []):
            stack.append(e)
        fn = unit.node
        for n in own_nodes(fn):
            if isinstance(n, ast.Call):
                ck = _callee_key(repo, unit, n.func)
                if ck:
                    stack.append(ck)
                elif isinstance(n.func, ast.Attribute):
                    for cand in method_index.get(n.func.attr, []):
                        if "." in cand.split(":")[1]:      # methods only
                            stack.append(cand)
                elif isinstance(n.func, ast.Name):
                    # nested function or closure variable holding a repo function
                    nk = "%s.%s" % (k, n.func.id)
                    if nk in repo.units:
                        stack.append(nk)
            elif isinstance(n, ast.Attribute) and isinstance(n.ctx, ast.Load):
                # properties (resolution_scope, base_uri, total_errors ...)
                for cand in method_index.get(n.attr, []):
                    node = repo.units[cand].node
                    if isinstance(node, ast.FunctionDef) and any(_dec_name(d) in ("property",) for d in node.decorator_list):
                        stack.append(cand)
    return seen


def _dec_name(d):
    if isinstance(d, ast.Name):
        return d.id
    if isinstance(d, ast.Attribute):
        return d.attr
    if isinstance(d, ast.Call):
        return _dec_name(d.func)
    return None


# ---------------------------------------------------------------------------------------------
# ownership of the state an object allocates for itself, generator discipline

def init_assignments(repo, key):
    """self.<attr> = <expr> statements of a constructor: [(attr, expr_node, class)] where class is
    'fresh' (literal / constructor or copy call), 'param:<name>', or 'other'."""
    fn = repo.units[key].node
    params = set(param_names(fn))
    out = []
    for n in own_nodes(fn):
        if isinstance(n, ast.Assign):
            for t in n.targets:
                if isinstance(t, ast.Attribute) and isinstance(t.value, ast.Name) and t.value.id == "self":
                    v = n.value
                    if _is_fresh_expr(v) or _is_wrapping_call(v):
                        cls = "fresh"
                    elif isinstance(v, ast.Name) and v.id in params:
                        cls = "param:" + v.id
                    elif isinstance(v, ast.Name):
                        cls = "local:" + v.id
                    else:
                        cls = "other"
                    out.append((t.attr, v, cls, n.lineno))
    return out


def _is_wrapping_call(v):
    # lru_cache(1024)(f): a call whose callee is itself a call -> a new wrapper object
    return isinstance(v, ast.Call) and isinstance(v.func, ast.Call)


GENERATOR_CONSUMERS = {"next", "list", "any", "all", "set", "sorted", "tuple", "iter", "best_match", "chain", "enumerate", "zip", "sum", "max", "min"}


def generator_discipline(repo, key, generator_units):
    """The result of calling a generator function is consumed where it is created (for-loop,
    next/list/any/best_match...) or returned; if it is bound to a local variable, the function contains
    no `raise` (a raise would keep the frame - and with it the suspended generator - alive in the
    traceback, delaying the finalisation that restores the resolver's scope stack).
    -> list of problems"""
    unit = repo.units[key]
    fn = unit.node
    if isinstance(fn, ast.Lambda):
        return []
    gen_names = {g.split(":")[1].split(".")[-1] for g in generator_units}
    parents = {}
    for n in own_nodes(fn):
        for c in ast.iter_child_nodes(n):
            parents[id(c)] = n
    problems = []
    has_raise = any(isinstance(n, ast.Raise) for n in own_nodes(fn))
    for n in own_nodes(fn):
        if not isinstance(n, ast.Call):
            continue
        f = n.func
        nm = f.id if isinstance(f, ast.Name) else (f.attr if isinstance(f, ast.Attribute) else None)
        if nm not in gen_names:
            continue
        # climb through `or ()` / parentheses
        p = parents.get(id(n))
        node = n
        while isinstance(p, ast.BoolOp):
            node, p = p, parents.get(id(p))
        if isinstance(p, ast.For) and p.iter is node:
            continue
        if isinstance(p, ast.comprehension) and p.iter is node:
            continue
        if isinstance(p, ast.Call) and node in p.args:
            pf = p.func
            pn = pf.id if isinstance(pf, ast.Name) else (pf.attr if isinstance(pf, ast.Attribute) else None)
            if pn in GENERATOR_CONSUMERS:
                continue
            problems.append("generator from %s() handed to %s() at line %d" % (nm, pn, n.lineno))
            continue
        if isinstance(p, (ast.Return, ast.Yield, ast.YieldFrom)):
            continue
        if isinstance(p, ast.withitem):
            continue
        if isinstance(p, ast.Assign):
            if has_raise:
                problems.append("generator from %s() bound to a local at line %d in a function that raises" % (nm, n.lineno))
            continue
        if isinstance(p, ast.Expr):
            continue
        problems.append("generator from %s() used in %s at line %d" % (nm, type(p).__name__, n.lineno))
    return problems
