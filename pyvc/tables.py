"""Static evaluation of the module-level tables (DESIGN.md 3.1): the four `create(...)` calls with
their literal keyword tables, the type-checker chain in _types.py, the id_of lambdas.  Everything is
read from the AST of the working tree; the functions involved (`TypeChecker.remove/redefine`) are
applied through their contracts (new map = old map minus / plus entries)."""
import ast

from .values import FuncRef, OutOfSubset


class DraftTable:
    def __init__(self, d):
        self.d = d
        self.keywords = {}       # keyword -> unit key
        self.type_checks = {}    # type name -> unit key
        self.id_of = None        # unit key
        self.version = None
        self.class_name = None


def _find_assign(tree, name):
    for st in tree.body:
        if isinstance(st, ast.Assign) and any(isinstance(t, ast.Name) and t.id == name for t in st.targets):
            return st.value
    raise OutOfSubset("module-level assignment %s not found" % name)


def _func_key(repo, module, node):
    """`_validators.ref` / bare name / lambda -> unit key"""
    if isinstance(node, ast.Attribute) and isinstance(node.value, ast.Name):
        m = node.value.id
        key = "%s:%s" % (m, node.attr)
        if key in repo.units:
            return key
        raise OutOfSubset("table entry %s.%s is not a repository function" % (m, node.attr))
    if isinstance(node, ast.Name):
        g = repo.globals[module].get(node.id)
        if g and g[0] == "func":
            return g[1]
        if g and g[0] == "import" and g[1] and g[1].startswith("jsonschema"):
            sub = g[1].split(".")[-1]
            key = "%s:%s" % (sub, g[2])
            if key in repo.units:
                return key
        raise OutOfSubset("table entry %s is not a repository function" % node.id)
    if isinstance(node, ast.Lambda):
        return repo.lambda_key(module, node)
    raise OutOfSubset("table entry of kind %s" % type(node).__name__)


def eval_type_checker(repo, node, module="_types"):
    """-> dict type name -> unit key"""
    tree = repo.trees[module]
    if isinstance(node, ast.Name):
        return eval_type_checker(repo, _find_assign(tree, node.id), module)
    if isinstance(node, ast.Attribute) and isinstance(node.value, ast.Name) and node.value.id == "_types":
        return eval_type_checker(repo, _find_assign(repo.trees["_types"], node.attr), "_types")
    if isinstance(node, ast.Call):
        f = node.func
        if isinstance(f, ast.Name) and f.id == "TypeChecker":
            arg = node.args[0] if node.args else None
            for kw in node.keywords:
                if kw.arg == "type_checkers":
                    arg = kw.value
            if not isinstance(arg, ast.Dict):
                raise OutOfSubset("TypeChecker(...) with a non-literal map")
            return {k.value: _func_key(repo, module, v) for k, v in zip(arg.keys, arg.values)}
        if isinstance(f, ast.Attribute) and f.attr == "remove":
            base = dict(eval_type_checker(repo, f.value, module))
            for a in node.args:
                if not isinstance(a, ast.Constant) or a.value not in base:
                    raise OutOfSubset("TypeChecker.remove of unknown/non-literal name")
                del base[a.value]
            return base
        if isinstance(f, ast.Attribute) and f.attr == "redefine":
            base = dict(eval_type_checker(repo, f.value, module))
            if not isinstance(node.args[0], ast.Constant):
                raise OutOfSubset("TypeChecker.redefine of non-literal name")
            base[node.args[0].value] = _func_key(repo, module, node.args[1])
            return base
        if isinstance(f, ast.Attribute) and f.attr == "redefine_many":
            base = dict(eval_type_checker(repo, f.value, module))
            arg = node.args[0]
            if not isinstance(arg, ast.Dict):
                raise OutOfSubset("redefine_many with non-literal map")
            for k, v in zip(arg.keys, arg.values):
                base[k.value] = _func_key(repo, module, v)
            return base
    raise OutOfSubset("type checker expression %s" % ast.dump(node)[:80])


def draft_tables(repo):
    out = {}
    tree = repo.trees["validators"]
    for d in (3, 4, 6, 7):
        name = "Draft%dValidator" % d
        call = _find_assign(tree, name)
        if not (isinstance(call, ast.Call) and isinstance(call.func, ast.Name) and call.func.id == "create"):
            raise OutOfSubset("%s is not a create(...) call" % name)
        t = DraftTable(d)
        t.class_name = name
        kws = {k.arg: k.value for k in call.keywords}
        v = kws.get("validators")
        if not isinstance(v, ast.Dict):
            raise OutOfSubset("%s: validators= is not a literal dict" % name)
        for k, val in zip(v.keys, v.values):
            if not isinstance(k, ast.Constant):
                raise OutOfSubset("non-constant keyword name in table")
            if k.value in t.keywords:
                raise OutOfSubset("duplicate keyword %s in table" % k.value)
            t.keywords[k.value] = _func_key(repo, "validators", val)
        t.type_checks = eval_type_checker(repo, kws["type_checker"], "validators") if "type_checker" in kws else None
        if "id_of" in kws:
            t.id_of = _func_key(repo, "validators", kws["id_of"])
        else:
            # default of create(): read from the signature
            cr = repo.units["validators:create"].node
            names = [a.arg for a in cr.args.args]
            dflt = cr.args.defaults[names.index("id_of") - (len(names) - len(cr.args.defaults))]
            t.id_of = _func_key(repo, "validators", dflt)
        ms = kws.get("meta_schema")
        ok = (isinstance(ms, ast.Call) and isinstance(ms.func, ast.Attribute) and ms.func.attr == "load_schema"
              and isinstance(ms.args[0], ast.Constant) and ms.args[0].value == "draft%d" % d)
        if not ok:
            raise OutOfSubset("%s: meta_schema is not load_schema('draft%d')" % (name, d))
        if isinstance(kws.get("version"), ast.Constant):
            t.version = kws["version"].value
        out[d] = t
    latest = _find_assign(tree, "_LATEST_VERSION")
    out["latest"] = latest.id if isinstance(latest, ast.Name) else None
    return out
