"""Python semantics of primitives on symbolic values (DESIGN.md section 4).

Every primitive returns a list of (state, value-or-Raised); infeasible alternatives are pruned.
"""
import ast

import z3

from . import smt
from .smt import V, kind, bval, ival, fval, sval, llen, lget, dlen, dkey, dval, dhas, dget
from .smt import K_NONE, K_BOOL, K_INT, K_FLOAT, K_STR, K_LIST, K_DICT, K_OBJ
from .values import *   # noqa
from .interp import Raised, assume, branch, truth, lift, to_sv, GenExpArg, exc_isinstance, sentinel
from .loops import IterSpec, eval_any_all, eval_collect


def raised(cls, origin, **fields):
    return Raised(ExcVal(cls, fields, origin=origin))


def list_seq(st, lo):
    return cat(*st.heap[lo.oid]["parts"])


def new_list(I, st, parts=(), kind_="list", items=None):
    s = st.fork()
    oid = I.ctx.new_oid()
    s.heap[oid] = {"kind": kind_, "parts": tuple(parts), "items": items}
    return s, ListObj(oid)


# extra SMT functions ---------------------------------------------------------------------------
lslice = z3.Function("lslice", V, smt.I, V)          # x[a:] for lists, a already clamped to [0,len]
strjoin_keys = z3.Function("strjoin_keys", smt.S, V, smt.S)   # sep.join(dict)
str_lt = z3.Function("str_lt", smt.S, smt.S, smt.B)
fdiv = z3.Function("fdiv", smt.R, smt.R, smt.R)      # rounded float division (finite result)
fdiv_overflows = z3.Function("fdiv_overflows", smt.R, smt.R, smt.B)
int2float_ok = z3.Function("int2float_ok", smt.I, smt.B)
to_float = z3.Function("to_float", smt.R, smt.R)     # nearest double of a real (ints converted to float)


ssplit = z3.Function("str_split", smt.S, smt.S, V)                 # s.split(sep) -> list of str
str_replace = z3.Function("str_replace_all", smt.S, smt.S, smt.S, smt.S)   # s.replace(a, b)
unquote_f = z3.Function("unquote", smt.S, smt.S)                   # urllib.parse.unquote
py_isdigit = z3.Function("py_isdigit", smt.S, smt.B)
py_isascii = z3.Function("py_isascii", smt.S, smt.B)
py_int_ok = z3.Function("py_int_ok", smt.S, smt.B)                 # int(s) does not raise ValueError
py_int_val = z3.Function("py_int_val", smt.S, smt.I)
ASCII_DIGITS = z3.Plus(z3.Range("0", "9"))


@smt.register_axioms
def _str_axioms(names):
    ax = []
    s, sep = z3.String("s"), z3.String("sep")
    i = z3.Int("i")
    if "str_split" in names:
        sp = ssplit(s, sep)
        ax.append(z3.ForAll([s, sep], z3.And(kind(sp) == K_LIST, llen(sp) >= 1, smt.isjson(sp)), patterns=[sp]))
        ax.append(z3.ForAll([s, sep, i], z3.Implies(z3.And(0 <= i, i < llen(sp)), kind(lget(sp, i)) == K_STR), patterns=[lget(sp, i)]))
    if names & {"py_isdigit", "py_isascii", "py_int_ok", "py_int_val"}:
        # assumed str contracts (DESIGN.md section 5): isdigit() is false for "", and, together with
        # isascii(), true exactly on [0-9]+ ; int(s) on [0-9]+ is its decimal value.  The regular-language
        # side of these is used only in the separately discharged string lemmas.
        ax.append(z3.ForAll([s], z3.Implies(py_isdigit(s), z3.Length(s) >= 1), patterns=[py_isdigit(s)]))
    return ax


@smt.register_axioms
def _prim_axioms(names):
    ax = []
    v = z3.Const("v", V)
    a, i = z3.Ints("a i")
    s = z3.String("s")
    if "lslice" in names:
        ax.append(z3.ForAll([v, a], z3.And(kind(lslice(v, a)) == K_LIST, llen(lslice(v, a)) == llen(v) - a),
                            patterns=[lslice(v, a)]))
        ax.append(z3.ForAll([v, a, i], lget(lslice(v, a), i) == lget(v, i + a), patterns=[lget(lslice(v, a), i)]))
        ax.append(z3.ForAll([v, a], z3.Implies(smt.isjson(v), smt.isjson(lslice(v, a))), patterns=[lslice(v, a)]))
    if "strjoin_keys" in names:
        ax.append(z3.ForAll([s, v], z3.Implies(dlen(v) == 0, strjoin_keys(s, v) == z3.StringVal("")),
                            patterns=[strjoin_keys(s, v)]))
        ax.append(z3.ForAll([s, v], z3.Implies(dlen(v) == 1, strjoin_keys(s, v) == dkey(v, 0)),
                            patterns=[strjoin_keys(s, v)]))
        ax.append(z3.ForAll([s, v], z3.Implies(dlen(v) >= 2, z3.Length(strjoin_keys(s, v)) >= z3.Length(s) * (dlen(v) - 1)),
                            patterns=[strjoin_keys(s, v)]))
    if names & {"fdiv", "fdiv_overflows", "int2float_ok", "to_float"}:
        x, y = z3.Reals("x y")
        n = z3.Int("n")
        # |n| < 2**1024 - 2**970 converts; beyond, OverflowError.  (exact threshold)
        lim = z3.IntVal(2 ** 1024 - 2 ** 970)
        ax.append(z3.ForAll([n], int2float_ok(n) == z3.And(n < lim, n > -lim), patterns=[int2float_ok(n)]))
        ax.append(z3.ForAll([x], z3.Implies(smt.isdouble(x), to_float(x) == x), patterns=[to_float(x)]))
        ax.append(z3.ForAll([x], smt.isdouble(to_float(x)), patterns=[to_float(x)]))
        # exact quotients that are doubles are returned exactly; results are doubles
        ax.append(z3.ForAll([x, y], z3.Implies(z3.And(y != 0, smt.isdouble(x / y), z3.Not(fdiv_overflows(x, y))), fdiv(x, y) == x / y),
                            patterns=[fdiv(x, y)]))
        ax.append(z3.ForAll([x, y], smt.isdouble(fdiv(x, y)), patterns=[fdiv(x, y)]))
        big = z3.RealVal(2 ** 1024 - 2 ** 970)
        ax.append(z3.ForAll([x, y], z3.Implies(y != 0, fdiv_overflows(x, y) == z3.Or(x / y >= big, x / y <= -big)),
                            patterns=[fdiv_overflows(x, y)]))
        # zero is a double; doubles are below the overflow threshold
        ax.append(smt.isdouble(z3.RealVal(0)))
        ax.append(z3.ForAll([x], z3.Implies(smt.isdouble(x), z3.And(x < big, x > -big)), patterns=[smt.isdouble(x)]))
    return ax


# ---------------------------------------------------------------------------
# iteration

class SliceVal:
    """x[a:] of a JSON list x (a clamped to [0, len]): kept symbolic as (base, lo) so that loops over
    it range over the *original* indices (no index shift in the verification conditions)."""
    __slots__ = ("base", "lo")

    def __init__(self, base, lo):
        self.base, self.lo = base, lo


def str_slice_from(sv, a):
    """Python s[a:] on strings (start clamped into [0, len]) as an SMT term"""
    sl = z3.Length(sv)
    if z3.is_int_value(a) and a.as_long() >= 0:
        k = a.as_long()
        return sv if k == 0 else z3.If(sl >= k, z3.SubString(sv, k, sl - k), z3.StringVal(""))
    a3 = z3.If(a < 0, z3.If(a + sl < 0, 0, a + sl), z3.If(a > sl, sl, a))
    return z3.SubString(sv, a3, sl - a3)


class ItemsView:
    __slots__ = ("d",)

    def __init__(self, d):
        self.d = d


class IterVal:
    """Value of enumerate()/zip()/iter(): wraps an IterSpec; `oid` if it is a stateful iterator object."""
    __slots__ = ("spec", "oid")

    def __init__(self, spec, oid=None):
        self.spec, self.oid = spec, oid


def make_iterspec(I, st, it):
    ctx = I.ctx
    if isinstance(it, IterVal):
        if it.oid is not None:
            cell = st.heap[it.oid]
            sp = it.spec
            return [(st, IterSpec(n=sp.n, elem=sp.elem, unordered=sp.unordered, iterobj=it.oid, start=cell["pos"]))]
        return [(st, it.spec)]
    if isinstance(it, IterSpec):
        return [(st, it)]
    if isinstance(it, PyTuple):
        return [(st, IterSpec(concrete=list(it.items)))]
    if isinstance(it, PySet):
        return [(st, IterSpec(concrete=list(it.items)))]
    if isinstance(it, PyDict):
        return [(st, IterSpec(concrete=[lift(k) for k in it.d]))]
    if isinstance(it, ListObj):
        cell = st.heap[it.oid]
        if cell.get("items") is not None:
            return [(st, IterSpec(concrete=list(cell["items"])))]
        parts = [p for p in cell["parts"] if not isinstance(p, Nil)]
        if len(parts) == 1 and isinstance(parts[0], For) and isinstance(parts[0].body, One) and cell["kind"] == "list":
            f = parts[0]
            return [(st, IterSpec(n=f.n, elem=(lambda i, f=f: subst(f.body.val, [(f.ivar, i)])), start=None if z3.is_int_value(f.lo) and f.lo.as_long() == 0 else f.lo))]
        return [(st, IterSpec(seq=cat(*cell["parts"]), unordered=cell["kind"] == "set"))]
    if isinstance(it, Seq):
        return [(st, IterSpec(seq=it))]
    if isinstance(it, SliceVal):
        b = it.base.t
        return [(st, IterSpec(n=llen(b), elem=lambda i: SV(lget(b, i)), start=it.lo))]
    if isinstance(it, ItemsView):
        d = it.d
        return [(st, IterSpec(n=dlen(d.t), elem=lambda i: PyTuple([SV(smt.mk_str(dkey(d.t, i))), SV(dval(d.t, i))])))]
    if isinstance(it, SV):
        t = it.t
        cases = [
            (smt.kd(t, K_LIST), IterSpec(n=llen(t), elem=lambda i: SV(lget(t, i)))),
            (smt.kd(t, K_DICT), IterSpec(n=dlen(t), elem=lambda i: SV(smt.mk_str(dkey(t, i))))),
            (smt.kd(t, K_STR), IterSpec(n=z3.Length(sval(t)), elem=lambda i: SV(smt.mk_str(z3.SubString(sval(t), i, 1))))),
            (z3.Not(smt.is_kind(t, K_LIST, K_DICT, K_STR)), raised("TypeError", "iter")),
        ]
        return branch(ctx, st, cases)
    hook = ctx.config.get("iter_hook")
    if hook:
        r = hook(I, st, it)
        if r is not None:
            return r
    raise OutOfSubset("iteration over %r" % (it,))


# ---------------------------------------------------------------------------
# isinstance

TYPE_KINDS = {
    "bool": (K_BOOL,), "int": (K_BOOL, K_INT), "float": (K_FLOAT,), "str": (K_STR,), "list": (K_LIST,),
    "dict": (K_DICT,), "tuple": (), "numbers.Number": (K_BOOL, K_INT, K_FLOAT), "Sequence": (K_STR, K_LIST),
    "collections.abc.Sequence": (K_STR, K_LIST), "Mapping": (K_DICT,), "collections.abc.Mapping": (K_DICT,),
    "MutableMapping": (K_DICT,), "collections.abc.MutableMapping": (K_DICT,),
}


def type_name(tv):
    if isinstance(tv, Builtin):
        return tv.name
    if isinstance(tv, ClassRef):
        return tv.name
    return None


def prim_isinstance(I, st, x, tv):
    if isinstance(tv, PyTuple):
        names = [type_name(t) for t in tv.items]
    else:
        names = [type_name(tv)]
    if any(n is None for n in names):
        hook = I.ctx.config.get("isinstance_hook")
        if hook:
            r = hook(I, st, x, tv)
            if r is not None:
                return r
        raise OutOfSubset("isinstance against %r" % (tv,))
    if isinstance(x, SV):
        ks = []
        for n in names:
            if n not in TYPE_KINDS:
                raise OutOfSubset("isinstance(JSON value, %s)" % n)
            ks.extend(TYPE_KINDS[n])
        if x.known:
            import numbers
            import collections.abc as cabc
            pyt = {"bool": bool, "int": int, "float": float, "str": str, "list": list, "dict": dict, "tuple": tuple,
                   "numbers.Number": numbers.Number, "Sequence": cabc.Sequence, "collections.abc.Sequence": cabc.Sequence,
                   "Mapping": cabc.Mapping, "collections.abc.Mapping": cabc.Mapping,
                   "MutableMapping": cabc.MutableMapping, "collections.abc.MutableMapping": cabc.MutableMapping}
            return [(st, SB(any(isinstance(x.conc, pyt[n]) for n in names)))]
        if not ks:
            return [(st, SB(False))]
        return [(st, SB(smt.is_kind(x.t, *sorted(set(ks)))))]
    if isinstance(x, SInt):
        return [(st, SB(any(n == "int" for n in names)))]
    if isinstance(x, SStr):
        return [(st, SB(any(n == "str" for n in names)))]
    if isinstance(x, SB):
        return [(st, SB(any(n in ("int", "bool") for n in names)))]
    if isinstance(x, PyTuple):
        return [(st, SB(any(n == "tuple" for n in names)))]
    if isinstance(x, (ErrVal, ExcVal)):
        return [(st, SB(any(exc_isinstance(x.cls, n) for n in names)))]
    if isinstance(x, (ClassRef, Builtin)):
        return [(st, SB(False))]
    raise OutOfSubset("isinstance(%r, %s)" % (x, names))


# ---------------------------------------------------------------------------
# comparison

def compare(I, st, op, a, b, node=None):
    ctx = I.ctx
    if isinstance(op, (ast.Is, ast.IsNot)):
        r = prim_is(I, st, a, b)
        if isinstance(op, ast.IsNot):
            r = SB(z3.Not(r.f))
        return [(st, r)]
    if isinstance(op, (ast.In, ast.NotIn)):
        res = []
        for s, v in prim_in(I, st, a, b):
            if not isinstance(v, Raised) and isinstance(op, ast.NotIn):
                v = SB(z3.Not(v.f))
            res.append((s, v))
        return res
    if isinstance(op, (ast.Eq, ast.NotEq)):
        f = prim_eq(I, st, a, b)
        return [(st, SB(f if isinstance(op, ast.Eq) else z3.Not(f)))]
    # ordering
    if isinstance(a, SInt) and isinstance(b, SInt):
        return [(st, SB(_ord(op, a.t, b.t)))]
    if isinstance(a, SInt) or isinstance(b, SInt):
        a2, b2 = to_sv(a), to_sv(b)
    else:
        a2, b2 = a, b
    if isinstance(a2, SV) and isinstance(b2, SV):
        bothnum = z3.And(smt.is_numeric(a2.t), smt.is_numeric(b2.t))
        bothstr = z3.And(smt.kd(a2.t, K_STR), smt.kd(b2.t, K_STR))
        cases = [
            (bothnum, SB(_ord(op, smt.num(a2.t), smt.num(b2.t)))),
            (bothstr, SB(_ordstr(op, sval(a2.t), sval(b2.t)))),
            (z3.And(z3.Not(bothnum), z3.Not(bothstr), z3.And(smt.kd(a2.t, K_LIST), smt.kd(b2.t, K_LIST))), "lists"),
            (z3.And(z3.Not(bothnum), z3.Not(bothstr), z3.Not(z3.And(smt.kd(a2.t, K_LIST), smt.kd(b2.t, K_LIST)))),
             raised("TypeError", "ordering")),
        ]
        out = []
        for s, payload in branch(ctx, st, cases):
            if payload == "lists":
                ctx.refute_or_oos(s, "ordering comparison of lists")
                continue
            out.append((s, payload))
        return out
    raise OutOfSubset("comparison %s of %r and %r" % (type(op).__name__, a, b))


def _ord(op, x, y):
    if isinstance(op, ast.Lt):
        return x < y
    if isinstance(op, ast.LtE):
        return x <= y
    if isinstance(op, ast.Gt):
        return x > y
    return x >= y


def _ordstr(op, x, y):
    if isinstance(op, ast.Lt):
        return str_lt(x, y)
    if isinstance(op, ast.LtE):
        return z3.Or(str_lt(x, y), x == y)
    if isinstance(op, ast.Gt):
        return str_lt(y, x)
    return z3.Or(str_lt(y, x), x == y)


def prim_is(I, st, a, b):
    if b is UNSET or a is UNSET:
        hook = I.ctx.config.get("is_hook")
        if hook:
            r = hook(I, st, a, b)
            if r is not None:
                return r
        other = a if b is UNSET else b
        return SB(other is UNSET) if not isinstance(other, ErrFieldRef) else other.is_unset()
    for x, y in ((a, b), (b, a)):
        if isinstance(y, SV) and y.known and (y.conc is None or isinstance(y.conc, bool)) and isinstance(x, SV) and x.known:
            return SB(x.conc is y.conc)
        if isinstance(y, SV) and y.known and y.conc is None:
            if isinstance(x, SV):
                return SB(smt.kd(x.t, K_NONE))
            return SB(False)
        if isinstance(y, SV) and y.known and y.conc is True:
            if isinstance(x, SV):
                return SB(z3.And(smt.kd(x.t, K_BOOL), bval(x.t)))
            if isinstance(x, SB):
                return SB(x.f)
            return SB(False)
        if isinstance(y, SV) and y.known and y.conc is False:
            if isinstance(x, SV):
                return SB(z3.And(smt.kd(x.t, K_BOOL), z3.Not(bval(x.t))))
            if isinstance(x, SB):
                return SB(z3.Not(x.f))
            return SB(False)
    if isinstance(a, ObjVal) and isinstance(b, ObjVal):
        return SB(a.oid == b.oid)
    if isinstance(a, FuncRef) and isinstance(b, FuncRef):
        return SB(a.key == b.key)
    hook = I.ctx.config.get("is_hook")
    if hook:
        r = hook(I, st, a, b)
        if r is not None:
            return r
    raise OutOfSubset("identity test of %r and %r" % (a, b))


class ErrFieldRef:
    pass


def prim_eq(I, st, a, b):
    if isinstance(a, SInt) and isinstance(b, SInt):
        return a.t == b.t
    if isinstance(a, SStr) and isinstance(b, SStr):
        return a.t == b.t
    if isinstance(a, SB) and isinstance(b, SB):
        return a.f == b.f
    if isinstance(a, FloatV) or isinstance(b, FloatV):
        fa, other = (a, b) if isinstance(a, FloatV) else (b, a)
        if isinstance(other, FloatV):
            return z3.And(fa.isinf == other.isinf, z3.Or(fa.isinf, fa.val == other.val))
        o2 = to_sv(other)
        return z3.And(z3.Not(fa.isinf), smt.is_numeric(o2.t), smt.num(o2.t) == fa.val)
    if isinstance(a, FractionV) or isinstance(b, FractionV):
        fa, other = (a, b) if isinstance(a, FractionV) else (b, a)
        ot = other.t if isinstance(other, FractionV) else smt.num(to_sv(other).t)
        return fa.t == ot
    if isinstance(a, SReal) or isinstance(b, SReal):
        ra = a.t if isinstance(a, SReal) else smt.num(to_sv(a).t)
        rb = b.t if isinstance(b, SReal) else smt.num(to_sv(b).t)
        return ra == rb
    try:
        a2, b2 = to_sv(a), to_sv(b)
    except OutOfSubset:
        if isinstance(a, SV) and isinstance(b, ListObj):
            raise
        raise
    if a2.known and b2.known:
        return z3.BoolVal(a2.conc == b2.conc and not (isinstance(a2.conc, float) and a2.conc != a2.conc))
    if b2.known and isinstance(b2.conc, str):
        return z3.And(smt.kd(a2.t, K_STR), sval(a2.t) == z3.StringVal(b2.conc))
    if a2.known and isinstance(a2.conc, str):
        return z3.And(smt.kd(b2.t, K_STR), sval(b2.t) == z3.StringVal(a2.conc))
    for x, y in ((a2, b2), (b2, a2)):
        if y.known and isinstance(y.conc, (int, bool)) and not isinstance(y.conc, float):
            return z3.And(smt.is_numeric(x.t), smt.num(x.t) == z3.RealVal(int(y.conc)))
    return smt.pyeq(a2.t, b2.t)


def prim_in(I, st, x, c):
    ctx = I.ctx
    if isinstance(c, PySet) or isinstance(c, PyTuple):
        fs = [prim_eq(I, st, x, item) for item in c.items]
        return [(st, SB(z3.Or(fs) if fs else z3.BoolVal(False)))]
    if isinstance(c, PyDict):
        if isinstance(x, SV) and x.known:
            return [(st, SB(x.conc in c.d))]
        xs = to_sv(x)
        return [(st, SB(z3.And(smt.kd(xs.t, K_STR), z3.Or([sval(xs.t) == z3.StringVal(k) for k in c.d]) if c.d else z3.BoolVal(False))))]
    if isinstance(c, SV):
        xs = to_sv(x)
        t = c.t
        i = smt.fresh("k", smt.I)
        cases = [
            (z3.And(smt.kd(t, K_DICT), smt.kd(xs.t, K_STR)), SB(dhas(t, sval(xs.t)))),
            (z3.And(smt.kd(t, K_DICT), smt.is_kind(xs.t, K_LIST, K_DICT)), raised("TypeError", "unhashable")),
            (z3.And(smt.kd(t, K_DICT), z3.Not(smt.is_kind(xs.t, K_STR, K_LIST, K_DICT))), SB(False)),
            (smt.kd(t, K_LIST), SB(z3.Exists([i], z3.And(0 <= i, i < llen(t), smt.pyeq(lget(t, i), xs.t))))),
            (z3.And(smt.kd(t, K_STR), smt.kd(xs.t, K_STR)), SB(z3.Contains(sval(t), sval(xs.t)))),
            (z3.And(smt.kd(t, K_STR), z3.Not(smt.kd(xs.t, K_STR))), raised("TypeError", "in-str")),
            (z3.Not(smt.is_kind(t, K_DICT, K_LIST, K_STR)), raised("TypeError", "in-noncontainer")),
        ]
        return branch(ctx, st, cases)
    if isinstance(c, ListObj):
        seq = list_seq(st, c)
        return [(st, SB(seq_exists(seq, lambda v: prim_eq(I, st, x, v))))]
    hook = ctx.config.get("in_hook")
    if hook:
        r = hook(I, st, x, c)
        if r is not None:
            return r
    raise OutOfSubset("%r in %r" % (x, c))


def seq_exists(seq, pred):
    if isinstance(seq, Nil):
        return z3.BoolVal(False)
    if isinstance(seq, One):
        return pred(seq.val)
    if isinstance(seq, Cat):
        return z3.Or([seq_exists(p, pred) for p in seq.parts])
    if isinstance(seq, Alt):
        return z3.Or([z3.And(c, seq_exists(b, pred)) for c, b in seq.cases])
    if isinstance(seq, For):
        return z3.Exists([seq.ivar], z3.And(seq.rng(), seq_exists(seq.body, pred)))
    raise OutOfSubset("membership in %r" % (seq,))


# ---------------------------------------------------------------------------
# arithmetic

class FloatV:
    """A float result that may be +-infinity: (isinf, sign>0, real value when finite)."""
    __slots__ = ("isinf", "val")

    def __init__(self, isinf, val):
        self.isinf, self.val = isinf, val


def binop(I, st, op, a, b, node=None):
    ctx = I.ctx
    origin = "binop"
    if isinstance(op, ast.Mod) and (isinstance(a, (Opaque,)) or (isinstance(a, SV) and a.known and isinstance(a.conc, str))):
        # message formatting: text dropped (DESIGN 3.1 item 2)
        return [(st, Opaque("fmt", [a, b]))]
    if isinstance(op, ast.Add) and (isinstance(a, Opaque) or isinstance(b, Opaque)):
        return [(st, Opaque("concat", [a, b]))]
    if isinstance(a, SInt) and isinstance(b, SInt):
        if isinstance(op, ast.Add):
            return [(st, SInt(a.t + b.t))]
        if isinstance(op, ast.Sub):
            return [(st, SInt(a.t - b.t))]
        if isinstance(op, ast.BitOr):
            raise OutOfSubset("bit-or on symbolic ints")
    if isinstance(op, ast.BitOr) and isinstance(a, SB) and isinstance(b, SB):
        return [(st, SB(z3.Or(a.f, b.f)))]
    if isinstance(op, ast.Add) and isinstance(a, SStr) and isinstance(b, SStr):
        return [(st, SStr(z3.Concat(a.t, b.t)))]
    if isinstance(op, ast.Add) and (isinstance(a, SStr) or isinstance(b, SStr)):
        a2, b2 = to_sv(a), to_sv(b)
        cases = [(z3.And(smt.kd(a2.t, K_STR), smt.kd(b2.t, K_STR)), SStr(z3.Concat(sval(a2.t), sval(b2.t)))),
                 (z3.Not(z3.And(smt.kd(a2.t, K_STR), smt.kd(b2.t, K_STR))), raised("TypeError", "str+"))]
        return branch(ctx, st, cases)
    if isinstance(a, (SV, SInt, SB)) and isinstance(b, (SV, SInt, SB)):
        a2, b2 = to_sv(a), to_sv(b)
        if isinstance(op, ast.Div):
            return prim_truediv(I, st, a2, b2)
        if isinstance(op, ast.Mod):
            return prim_mod(I, st, a2, b2)
        if isinstance(op, ast.BitOr):
            # int | bool on operands that are 0 / 1 (flags): bitwise or == logical or
            def bit(t):
                return z3.If(smt.kd(t, K_BOOL), z3.If(bval(t), 1, 0), ival(t))
            small = z3.And(smt.is_kind(a2.t, K_INT, K_BOOL), smt.is_kind(b2.t, K_INT, K_BOOL),
                           bit(a2.t) >= 0, bit(a2.t) <= 1, bit(b2.t) >= 0, bit(b2.t) <= 1)
            bothbool = z3.And(smt.kd(a2.t, K_BOOL), smt.kd(b2.t, K_BOOL))
            r = z3.If(z3.Or(bit(a2.t) == 1, bit(b2.t) == 1), 1, 0)
            out = []
            for s, p in branch(ctx, st, [(z3.And(small, bothbool), SV(smt.mk_bool(r == 1))), (z3.And(small, z3.Not(bothbool)), SV(smt.mk_int(r))),
                                         (z3.Not(small), "other")]):
                if p == "other":
                    ctx.refute_or_oos(s, "bit-or on values other than 0/1 flags")
                    continue
                out.append((s, p))
            return out
        if isinstance(op, (ast.Add, ast.Sub)):
            bothint = z3.And(smt.is_kind(a2.t, K_INT, K_BOOL), smt.is_kind(b2.t, K_INT, K_BOOL))
            ia = z3.If(smt.kd(a2.t, K_BOOL), z3.If(bval(a2.t), 1, 0), ival(a2.t))
            ib = z3.If(smt.kd(b2.t, K_BOOL), z3.If(bval(b2.t), 1, 0), ival(b2.t))
            r = ia + ib if isinstance(op, ast.Add) else ia - ib
            bothnum = z3.And(smt.is_numeric(a2.t), smt.is_numeric(b2.t))
            na, nb = smt.num(a2.t), smt.num(b2.t)
            a_ok = z3.Or(z3.Not(smt.kd(a2.t, K_INT)), int2float_ok(ival(a2.t)))
            b_ok = z3.Or(z3.Not(smt.kd(b2.t, K_INT)), int2float_ok(ival(b2.t)))
            fa, fb = to_float(na), to_float(nb)
            exact = fa + fb if isinstance(op, ast.Add) else fa - fb
            cases = [(bothint, SV(smt.mk_int(r))),
                     (z3.And(bothnum, z3.Not(bothint), z3.Not(z3.And(a_ok, b_ok))), raised("OverflowError", "int too large to convert to float")),
                     # float result: the rounded exact sum/difference (exact when representable)
                     (z3.And(bothnum, z3.Not(bothint), a_ok, b_ok), SV(smt.mk_float(to_float(exact)))),
                     ]
            if isinstance(op, ast.Add):
                bothstr = z3.And(smt.kd(a2.t, K_STR), smt.kd(b2.t, K_STR))
                cases.append((bothstr, SStr(z3.Concat(sval(a2.t), sval(b2.t)))))
                cases.append((z3.And(z3.Not(bothnum), z3.Not(bothstr)), raised("TypeError", "+ on operands that are neither numbers nor strings")))
            else:
                cases.append((z3.Not(bothnum), raised("TypeError", "- on non-numbers")))
            return branch(ctx, st, cases)
    if isinstance(a, FractionV) and isinstance(b, FractionV) and isinstance(op, ast.Div):
        cases = [(b.t != 0, FractionV(a.t / b.t)), (b.t == 0, raised("ZeroDivisionError", "Fraction/"))]
        return branch(ctx, st, cases)
    raise OutOfSubset("binary %s on %r, %r" % (type(op).__name__, a, b))


class FractionV:
    __slots__ = ("t",)

    def __init__(self, t):
        self.t = t


def prim_truediv(I, st, a, b):
    """a / b for numeric a, b (result float, possibly +-inf is not produced: float/float overflow
    yields inf silently in CPython)."""
    ctx = I.ctx
    bothnum = z3.And(smt.is_numeric(a.t), smt.is_numeric(b.t))
    na, nb = smt.num(a.t), smt.num(b.t)
    a_is_int = smt.is_kind(a.t, K_INT, K_BOOL)
    b_is_int = smt.is_kind(b.t, K_INT, K_BOOL)
    ia, ib = ival(a.t), ival(b.t)
    a_conv_ok = z3.Or(z3.Not(smt.kd(a.t, K_INT)), int2float_ok(ia))
    b_conv_ok = z3.Or(z3.Not(smt.kd(b.t, K_INT)), int2float_ok(ib))
    bothint = z3.And(a_is_int, b_is_int)
    cases = [
        (z3.Not(bothnum), raised("TypeError", "truediv")),
        (z3.And(bothnum, nb == 0), raised("ZeroDivisionError", "truediv")),
        # int / int: exact big-int division, OverflowError only if the *result* is too large
        (z3.And(bothnum, nb != 0, bothint, fdiv_overflows(na, nb)), raised("OverflowError", "truediv:int/int result")),
        (z3.And(bothnum, nb != 0, bothint, z3.Not(fdiv_overflows(na, nb))), FloatV(z3.BoolVal(False), fdiv(na, nb))),
        # mixed: the int operand is converted to float first
        (z3.And(bothnum, nb != 0, z3.Not(bothint), z3.Not(z3.And(a_conv_ok, b_conv_ok))),
         raised("OverflowError", "truediv:int too large to convert to float")),
        (z3.And(bothnum, nb != 0, z3.Not(bothint), a_conv_ok, b_conv_ok, z3.Not(fdiv_overflows(to_float(na), to_float(nb)))),
         FloatV(z3.BoolVal(False), fdiv(to_float(na), to_float(nb)))),
        (z3.And(bothnum, nb != 0, z3.Not(bothint), a_conv_ok, b_conv_ok, fdiv_overflows(to_float(na), to_float(nb))),
         FloatV(z3.BoolVal(True), to_float(na) / to_float(nb))),
    ]
    return branch(ctx, st, cases)


py_mod = z3.Function("py_mod", smt.R, smt.R, smt.R)     # Python % on reals (floats), sign of divisor


def prim_mod(I, st, a, b):
    ctx = I.ctx
    bothnum = z3.And(smt.is_numeric(a.t), smt.is_numeric(b.t))
    na, nb = smt.num(a.t), smt.num(b.t)
    a_is_int = smt.is_kind(a.t, K_INT, K_BOOL)
    b_is_int = smt.is_kind(b.t, K_INT, K_BOOL)
    ia = z3.If(smt.kd(a.t, K_BOOL), z3.If(bval(a.t), 1, 0), ival(a.t))
    ib = z3.If(smt.kd(b.t, K_BOOL), z3.If(bval(b.t), 1, 0), ival(b.t))
    bothint = z3.And(a_is_int, b_is_int)
    # Python int %: result has the sign of the divisor.  z3's mod is non-negative for any divisor.
    pym = z3.If(ib > 0, ia % ib, -((-ia) % (-ib)))
    a_conv_ok = z3.Or(z3.Not(smt.kd(a.t, K_INT)), int2float_ok(ival(a.t)))
    b_conv_ok = z3.Or(z3.Not(smt.kd(b.t, K_INT)), int2float_ok(ival(b.t)))
    # float % : exact fmod with Python's sign rule, on converted operands
    fa, fb = to_float(na), to_float(nb)
    q = z3.ToInt(fa / fb)   # floor for positive divisor
    fm = fa - fb * z3.ToReal(z3.ToInt(fa / fb))
    cases = [
        (z3.Not(bothnum), raised("TypeError", "mod")),
        (z3.And(bothnum, nb == 0), raised("ZeroDivisionError", "mod")),
        (z3.And(bothnum, nb != 0, bothint), SV(smt.mk_int(pym))),
        (z3.And(bothnum, nb != 0, z3.Not(bothint), z3.Not(z3.And(a_conv_ok, b_conv_ok))),
         raised("OverflowError", "mod:int too large to convert to float")),
        (z3.And(bothnum, nb != 0, z3.Not(bothint), a_conv_ok, b_conv_ok), SV(smt.mk_float(fm))),
    ]
    return branch(ctx, st, cases)


def unary_minus(I, st, v):
    if isinstance(v, SInt):
        return [(st, SInt(-v.t))]
    if isinstance(v, SV) and v.known and isinstance(v.conc, (int, float)):
        return [(st, lift(-v.conc))]
    raise OutOfSubset("unary minus on %r" % (v,))


# ---------------------------------------------------------------------------
# attribute access

def get_attr(I, st, obj, attr):
    ctx = I.ctx
    hook = ctx.config.get("getattr_hook")
    if hook:
        r = hook(I, st, obj, attr)
        if r is not None:
            return r
    if isinstance(obj, ModuleRef):
        name = obj.name
        if name.startswith("jsonschema."):
            m = name.split(".", 1)[1]
            if m in I.repo.globals and attr in I.repo.globals[m]:
                return [(st, I.global_value(m, attr))]
            raise OutOfSubset("%s.%s" % (name, attr))
        from .interp import ext_name
        return [(st, ext_name(name, attr))]
    if isinstance(obj, ObjVal):
        v = st.heap.get((obj.oid, attr))
        if v is not None:
            return [(st, v)]
        return [(st, BoundMethod(obj, attr))]
    if type(obj).__name__ == "AnyTable":
        return [(st, BoundMethod(obj, attr))]
    if isinstance(obj, ErrRef):
        return err_get_attr(I, st, obj, attr)
    if isinstance(obj, ErrVal):
        raise OutOfSubset("attribute of an error snapshot")
    if isinstance(obj, FractionV) and attr == "denominator":
        # denominator == 1  <=>  value is an integer; expose as an int term that is 1 iff integral
        return [(st, SInt(z3.If(z3.IsInt(obj.t), z3.IntVal(1), z3.IntVal(2))))]
    if isinstance(obj, ExcVal):
        if attr in obj.fields:
            return [(st, obj.fields[attr])]
        raise OutOfSubset("attribute %s of %r" % (attr, obj))
    if isinstance(obj, (SV, SStr, SInt, ListObj, PyDict, PyTuple, ItemsView, SliceVal, IterVal, FractionV, FloatV, PathV, Opaque, ClassRef, Builtin, ErrPathRef)):
        return [(st, BoundMethod(obj, attr))]
    raise OutOfSubset("attribute %s of %r" % (attr, obj))


def err_get_attr(I, st, ref, attr):
    e = st.heap[ref.oid]
    if attr in ("path", "relative_path"):
        return [(st, ErrPathRef(ref, "path"))]
    if attr in ("schema_path", "relative_schema_path"):
        return [(st, ErrPathRef(ref, "schema_path"))]
    if attr in e.fields:
        return [(st, e.fields[attr])]
    if attr in ("_set", "_contents", "create_from"):
        return [(st, BoundMethod(ref, attr))]
    if e.base is None:
        raise OutOfSubset("unset field %s of constructed error" % attr)
    return [(st, Opaque("errfield", [e, attr]))]


class ErrPathRef:
    """error.path / error.schema_path as a mutable deque owned by error `e` (linear ownership)."""
    __slots__ = ("err", "field")

    def __init__(self, err, field):
        self.err, self.field = err, field


# ---------------------------------------------------------------------------
# subscript

def norm_index(t, n):
    return z3.If(t < 0, t + n, t)


def subscript(I, st, obj, key):
    ctx = I.ctx
    if isinstance(key, tuple) and key[0] == "slice":
        lo, hi, step = key[1]
        if hi is not None or step is not None:
            raise OutOfSubset("slice with upper bound/step")
        if isinstance(obj, SV):
            if lo is None:
                a = z3.IntVal(0)
            elif isinstance(lo, SInt):
                a = lo.t
            elif isinstance(lo, SV) and lo.known and isinstance(lo.conc, int):
                a = z3.IntVal(lo.conc)
            else:
                raise OutOfSubset("slice bound %r" % (lo,))
            n = llen(obj.t)
            # clamp as Python does
            a2 = z3.If(a < 0, z3.If(a + n < 0, 0, a + n), z3.If(a > n, n, a))
            cases = [(smt.kd(obj.t, K_LIST), SliceVal(obj, a2)),
                     (smt.kd(obj.t, K_STR), "str"),
                     (z3.Not(smt.is_kind(obj.t, K_LIST, K_STR)), raised("TypeError", "slice"))]
            out = []
            for s, p in branch(ctx, st, cases):
                if p == "str":
                    out.append((s, SV(smt.mk_str(str_slice_from(sval(obj.t), a)))))
                    continue
                out.append((s, p))
            return out
        raise OutOfSubset("slice of %r" % (obj,))
    if isinstance(obj, PyDict):
        if isinstance(key, SV) and key.known:
            if key.conc in obj.d:
                return [(st, obj.d[key.conc])]
            return [(st, raised("KeyError", "dict[]"))]
        ks = to_sv(key)
        cases = []
        for k2, val in obj.d.items():
            cases.append((z3.And(smt.kd(ks.t, K_STR), sval(ks.t) == z3.StringVal(k2)), val))
        hit = z3.And(smt.kd(ks.t, K_STR), z3.Or([sval(ks.t) == z3.StringVal(k2) for k2 in obj.d])) if obj.d else z3.BoolVal(False)
        cases.append((z3.And(z3.Not(hit), smt.is_kind(ks.t, K_LIST, K_DICT)), raised("TypeError", "unhashable key")))
        cases.append((z3.And(z3.Not(hit), z3.Not(smt.is_kind(ks.t, K_LIST, K_DICT))), raised("KeyError", "dict[]")))
        return branch(ctx, st, cases)
    if isinstance(obj, PyTuple):
        if isinstance(key, SV) and key.known and isinstance(key.conc, int):
            try:
                return [(st, obj.items[key.conc])]
            except IndexError:
                return [(st, raised("IndexError", "tuple[]"))]
        raise OutOfSubset("symbolic index into tuple")
    if isinstance(obj, SV):
        t = obj.t
        k = key if isinstance(key, SV) else to_sv(key)
        kt = k.t
        kint = z3.If(smt.kd(kt, K_BOOL), z3.If(bval(kt), 1, 0), ival(kt))
        isint = smt.is_kind(kt, K_INT, K_BOOL)
        n = llen(t)
        ni = norm_index(kint, n)
        sl = z3.Length(sval(t))
        si = norm_index(kint, sl)
        cases = [
            (z3.And(smt.kd(t, K_DICT), smt.kd(kt, K_STR), dhas(t, sval(kt))), SV(dget(t, sval(kt)))),
            (z3.And(smt.kd(t, K_DICT), smt.kd(kt, K_STR), z3.Not(dhas(t, sval(kt)))), raised("KeyError", "dict[]")),
            (z3.And(smt.kd(t, K_DICT), smt.is_kind(kt, K_LIST, K_DICT)), raised("TypeError", "unhashable key")),
            (z3.And(smt.kd(t, K_DICT), z3.Not(smt.is_kind(kt, K_STR, K_LIST, K_DICT))), raised("KeyError", "dict[non-str]")),
            (z3.And(smt.kd(t, K_LIST), isint, 0 <= ni, ni < n), SV(lget(t, ni))),
            (z3.And(smt.kd(t, K_LIST), isint, z3.Not(z3.And(0 <= ni, ni < n))), raised("IndexError", "list[]")),
            (z3.And(smt.kd(t, K_LIST), z3.Not(isint)), raised("TypeError", "list[non-int]")),
            (z3.And(smt.kd(t, K_STR), isint, 0 <= si, si < sl), SV(smt.mk_str(z3.SubString(sval(t), si, 1)))),
            (z3.And(smt.kd(t, K_STR), isint, z3.Not(z3.And(0 <= si, si < sl))), raised("IndexError", "str[]")),
            (z3.And(smt.kd(t, K_STR), z3.Not(isint)), raised("TypeError", "str[non-int]")),
            (z3.Not(smt.is_kind(t, K_DICT, K_LIST, K_STR)), raised("TypeError", "not subscriptable")),
        ]
        return branch(ctx, st, cases)
    hook = ctx.config.get("subscript_hook")
    if hook:
        r = hook(I, st, obj, key)
        if r is not None:
            return r
    raise OutOfSubset("subscript of %r" % (obj,))


# ---------------------------------------------------------------------------
# builtins

def call_builtin(I, st, name, args, kwargs, node=None):
    ctx = I.ctx
    hook = ctx.config.get("builtin_hook")
    if hook:
        r = hook(I, st, name, args, kwargs, node)
        if r is not None:
            return r
    if name == "isinstance":
        return prim_isinstance(I, st, args[0], args[1])
    if name == "len":
        return prim_len(I, st, args[0])
    if name in ("any", "all"):
        a = args[0]
        if isinstance(a, GenExpArg):
            return eval_any_all(I, st, a, name == "any")
        raise OutOfSubset("%s of non-genexp" % name)
    if name in ("list", "set", "sorted", "tuple", "frozenset"):
        if not args:
            s, lo = new_list(I, st, (), "set" if name in ("set", "frozenset") else "list", items=[])
            return [(s, lo)]
        a = args[0]
        kind_ = {"list": "list", "tuple": "list", "set": "set", "frozenset": "set", "sorted": "sorted"}[name]
        if isinstance(a, GenExpArg):
            res = []
            for s, v in eval_collect(I, st, a.node, kind_):
                res.append((s, v))
            return res
        return prim_list_of(I, st, a, kind_)
    if name == "enumerate":
        start = kwargs.get("start", args[1] if len(args) > 1 else None)
        return prim_enumerate(I, st, args[0], start)
    if name == "zip":
        return prim_zip(I, st, args)
    if name == "getattr":
        return prim_getattr(I, st, args)
    if name == "setattr":
        obj, nm, val = args
        if isinstance(obj, ErrRef) and isinstance(nm, SV) and nm.known:
            s = st.fork()
            s.heap[obj.oid] = s.heap[obj.oid].with_field(nm.conc, val)
            return [(s, lift(None))]
        raise OutOfSubset("setattr(%r, %r)" % (obj, nm))
    if name == "next":
        return prim_next(I, st, args)
    if name == "iter":
        return prim_iter(I, st, args[0])
    if name == "repr" or name == "str" and args and not isinstance(args[0], (SInt, SV)):
        return [(st, Opaque(name, args))]
    if name == "str":
        a = args[0]
        if isinstance(a, SInt):
            return [(st, SStr(z3.IntToStr(a.t)))] if False else [(st, StrOfInt(a))]
        return [(st, Opaque("str", args))]
    if name == "map":
        return [(st, Opaque("map", args))]
    if name == "int":
        return prim_int(I, st, args[0])
    if name == "bool":
        return [(st, SB(truth(ctx, st, args[0])))]
    if name == "urllib.parse.unquote":
        a = to_sv(args[0])
        cases = [(smt.kd(a.t, K_STR), SV(smt.mk_str(unquote_f(sval(a.t))))), (z3.Not(smt.kd(a.t, K_STR)), raised("TypeError", "unquote"))]
        return branch(ctx, st, cases)
    if name == "fractions.Fraction":
        return prim_fraction(I, st, args[0])
    if name == "re.search":
        return prim_re_search(I, st, args[0], args[1])
    if name == "object":
        oid = ctx.new_oid()
        return [(st, sentinel("obj%d" % oid))]
    if name in ("max", "min", "sum", "reversed"):
        h = ctx.config.get("agg_hook")
        if h:
            return h(I, st, name, args, kwargs)
        raise OutOfSubset(name)
    if name == "dict" and len(args) == 1 and isinstance(args[0], GenExpArg) and not kwargs:
        res = []
        for s, lo in eval_collect(I, st, args[0].node, "list"):
            if isinstance(lo, Raised):
                res.append((s, lo))
                continue
            items = s.heap[lo.oid].get("items")
            if items is None or not all(isinstance(it, PyTuple) and len(it.items) == 2 and isinstance(it.items[0], SV) and it.items[0].known for it in items):
                raise OutOfSubset("dict(genexp) with symbolic keys")
            res.append((s, PyDict({it.items[0].conc: it.items[1] for it in items})))
        return res
    if name == "dict":
        if not args and not kwargs:
            return [(st, PyDict({}))]
        h = ctx.config.get("dict_hook")
        if h:
            r = h(I, st, args, kwargs)
            if r is not None:
                return r
        raise OutOfSubset("dict(...)")
    raise OutOfSubset("builtin %s" % name)


class StrOfInt:
    """str(i) for a symbolic non-negative int (rendering of paths)"""
    __slots__ = ("i",)

    def __init__(self, i):
        self.i = i


def prim_len(I, st, x):
    ctx = I.ctx
    if isinstance(x, SV):
        t = x.t
        cases = [
            (smt.kd(t, K_LIST), SInt(llen(t))),
            (smt.kd(t, K_DICT), SInt(dlen(t))),
            (smt.kd(t, K_STR), SInt(z3.Length(sval(t)))),
            (z3.Not(smt.is_kind(t, K_LIST, K_DICT, K_STR)), raised("TypeError", "len")),
        ]
        return branch(ctx, st, cases)
    if isinstance(x, PyTuple):
        return [(st, SInt(len(x.items)))]
    if isinstance(x, PyDict):
        return [(st, SInt(len(x.d)))]
    if isinstance(x, SliceVal):
        return [(st, SInt(llen(x.base.t) - x.lo))]
    if isinstance(x, ListObj) and st.heap[x.oid]["kind"] == "set":
        return set_len(I, st, x)
    if isinstance(x, ListObj):
        return [(st, SInt(seq_len(list_seq(st, x), st.heap[x.oid]["kind"])))]
    hook = ctx.config.get("len_hook")
    if hook:
        r = hook(I, st, x)
        if r is not None:
            return r
    raise OutOfSubset("len(%r)" % (x,))


def elem_term(body):
    """the single element produced by a loop body, as one V term (If-chain over the alternatives)"""
    if isinstance(body, One) and isinstance(body.val, SV):
        return body.val.t
    if isinstance(body, Alt):
        cases = [(c, elem_term(b)) for c, b in body.cases]
        t = cases[-1][1]
        for c, e in reversed(cases[:-1]):
            t = z3.If(c, e, t)
        return t
    raise OutOfSubset("set element of shape %r" % (type(body).__name__,))


def set_len(I, st, lo):
    """len(set(f(x) for x in xs)) -- ASSUMED contract of the built-in set (DESIGN.md section 5): with all
    elements hashable, the size is at most the number of elements and equals it iff no two elements
    are == -equal."""
    from .interp import add_lemma
    parts = [p for p in st.heap[lo.oid]["parts"] if not isinstance(p, Nil)]
    try:
        if len(parts) != 1 or not isinstance(parts[0], For):
            raise OutOfSubset("len of a set that is not a comprehension over one container")
        f = parts[0]
        e_i = elem_term(f.body)
    except OutOfSubset:
        # a filtered / composite set: only "non-negative, zero iff empty" is known about its size
        m = smt.fresh_fn("setlen", st.loopvars, smt.I)
        s = st.fork()
        add_lemma(s, z3.And(m >= 0, (m == 0) == seq_empty(cat(*parts))))
        return [(s, SInt(m))]
    j = smt.fresh("sj", smt.I)
    e_j = z3.substitute(e_i, (f.ivar, j))
    m = smt.fresh_fn("setlen", st.loopvars, smt.I)
    distinct = z3.ForAll([f.ivar, j], z3.Implies(z3.And(f.lo <= f.ivar, f.ivar < j, j < f.n), z3.Not(smt.pyeq(e_i, e_j))))
    s = st.fork()
    add_lemma(s, z3.And(m >= 0, m <= f.n - f.lo, (m == f.n - f.lo) == distinct))
    I.ctx.notes.append("assumed: len(set(...)) contract")
    return [(s, SInt(m))]


seq_count = z3.Function("seq_count", smt.I, smt.I)    # opaque counts, keyed by a unique id


def seq_len(seq, kind_="list"):
    """Length of a Seq as an Int term.  Only what is needed: concrete parts and opaque counts."""
    if isinstance(seq, Nil):
        return z3.IntVal(0)
    if isinstance(seq, One):
        return z3.IntVal(1)
    if isinstance(seq, Cat):
        return z3.Sum([seq_len(p) for p in seq.parts])
    # opaque but consistent: nonneg and zero iff empty
    return SeqLenTerm.of(seq)


class SeqLenTerm:
    _tbl = {}

    @classmethod
    def of(cls, seq):
        c = smt.fresh("seqlen", smt.I)
        cls._tbl[c.get_id()] = seq
        return c


def prim_list_of(I, st, a, kind_):
    """list(x) / set(x) / sorted(x) for an already evaluated iterable."""
    ctx = I.ctx
    if isinstance(a, Seq):
        s, lo = new_list(I, st, (a,), kind_)
        return [(s, lo)]
    if isinstance(a, ListObj):
        cell = st.heap[a.oid]
        s, lo = new_list(I, st, cell["parts"], kind_, items=cell.get("items") if kind_ == "list" else None)
        return [(s, lo)]
    if isinstance(a, PyTuple):
        s, lo = new_list(I, st, tuple(One(x) for x in a.items), kind_, items=list(a.items) if kind_ == "list" else None)
        return [(s, lo)]
    out = []
    for s, spec in make_iterspec(I, st, a):
        if isinstance(spec, Raised):
            out.append((s, spec))
            continue
        if spec.concrete is not None:
            s2, lo = new_list(I, s, tuple(One(x) for x in spec.concrete), kind_, items=list(spec.concrete) if kind_ == "list" else None)
        elif spec.seq is not None:
            s2, lo = new_list(I, s, (spec.seq,), kind_)
        else:
            i = smt.fresh("i", smt.I)
            s2, lo = new_list(I, s, (For(i, spec.n, One(spec.elem(i)), spec.unordered),), kind_)
        out.append((s2, lo))
    return out


def prim_enumerate(I, st, x, start=None):
    out = []
    if start is None:
        st_t = z3.IntVal(0)
    elif isinstance(start, SInt):
        st_t = start.t
    elif isinstance(start, SV) and start.known:
        st_t = z3.IntVal(start.conc)
    else:
        raise OutOfSubset("enumerate start %r" % (start,))
    for s, spec in make_iterspec(I, st, x):
        if isinstance(spec, Raised):
            out.append((s, spec))
            continue
        if spec.concrete is not None:
            if start is not None and not z3.is_int_value(st_t):
                raise OutOfSubset("enumerate concrete with symbolic start")
            base = st_t.as_long()
            out.append((s, IterVal(IterSpec(concrete=[PyTuple([lift(base + k), v]) for k, v in enumerate(spec.concrete)]))))
            continue
        if spec.seq is not None:
            raise OutOfSubset("enumerate over a generator result")
        inner = spec.elem
        lo = spec.start if spec.start is not None else z3.IntVal(0)
        off = z3.simplify(st_t - lo)
        sp = IterSpec(n=spec.n, elem=(lambda i, inner=inner: PyTuple([SInt(z3.simplify(i + off)), inner(i)])), unordered=spec.unordered)
        # enumerate() returns a stateful iterator object; model its position so it can be shared
        s2 = s.fork()
        oid = I.ctx.new_oid()
        s2.heap[oid] = {"iter": True, "pos": lo}
        out.append((s2, IterVal(sp, oid)))
    return out


def prim_zip(I, st, args):
    specs = []
    cur = [(st, [])]
    for a in args:
        nxt = []
        for s, acc in cur:
            for s2, sp in make_iterspec(I, s, a):
                if isinstance(sp, Raised):
                    return [(s2, sp)] if len(cur) == 1 else _oos("zip with raising iterables")
                nxt.append((s2, acc + [sp]))
        cur = nxt
    out = []
    for s, sps in cur:
        if any(sp.concrete is not None or sp.seq is not None for sp in sps):
            raise OutOfSubset("zip of concrete/sequence iterables")
        if any(sp.start is not None and not (z3.is_int_value(sp.start) and sp.start.as_long() == 0) for sp in sps):
            raise OutOfSubset("zip of a resumed iterator")
        n = sps[0].n
        for sp in sps[1:]:
            n = z3.If(sp.n < n, sp.n, n)
        elems = [sp.elem for sp in sps]
        out.append((s, IterVal(IterSpec(n=n, elem=(lambda i, elems=elems: PyTuple([e(i) for e in elems]))))))
    return out


def _oos(msg):
    raise OutOfSubset(msg)


def prim_getattr(I, st, args):
    obj, name = args[0], args[1]
    if not (isinstance(name, SV) and name.known and isinstance(name.conc, str)):
        raise OutOfSubset("getattr with symbolic name")
    if isinstance(obj, ErrRef):
        return get_attr(I, st, obj, name.conc)
    hook = I.ctx.config.get("hasattr_hook")
    has = hook(I, st, obj, name.conc) if hook else None
    if has is None:
        raise OutOfSubset("getattr(%r, %r)" % (obj, name.conc))
    if has:
        return get_attr(I, st, obj, name.conc)
    if len(args) > 2:
        return [(st, args[2])]
    return [(st, raised("AttributeError", "getattr"))]


def prim_next(I, st, args):
    it = args[0]
    default = args[1] if len(args) > 1 else None
    if isinstance(it, Seq):
        seq = it
    elif isinstance(it, IterVal) and it.spec.seq is not None:
        seq = it.spec.seq
    else:
        raise OutOfSubset("next(%r)" % (it,))
    emp = seq_empty(seq)
    first = Opaque("first", [seq])
    cases = [(z3.Not(emp), first)]
    if default is not None:
        cases.append((emp, default))
    else:
        cases.append((emp, raised("StopIteration", "next")))
    return branch(I.ctx, st, cases)


def prim_iter(I, st, x):
    if isinstance(x, Seq):
        return [(st, x)]
    out = []
    for s, sp in make_iterspec(I, st, x):
        out.append((s, sp if isinstance(sp, Raised) else (sp.seq if sp.seq is not None else IterVal(sp))))
    return out


def prim_int(I, st, x):
    ctx = I.ctx
    if isinstance(x, FloatV):
        cases = [(x.isinf, raised("OverflowError", "int(inf)")),
                 (z3.Not(x.isinf), SV(smt.mk_int(z3.If(x.val >= 0, z3.ToInt(x.val), -z3.ToInt(-x.val)))))]
        return branch(ctx, st, cases)
    hook = ctx.config.get("int_hook")
    if hook:
        r = hook(I, st, x)
        if r is not None:
            return r
    if isinstance(x, SV):
        t = x.t
        sv = sval(t)
        cases = [(z3.And(smt.kd(t, K_STR), py_int_ok(sv)), SInt(py_int_val(sv))),
                 (z3.And(smt.kd(t, K_STR), z3.Not(py_int_ok(sv))), raised("ValueError", "int(str)")),
                 (smt.kd(t, K_INT), SInt(ival(t))),
                 (smt.kd(t, K_BOOL), SInt(z3.If(bval(t), 1, 0))),
                 (smt.is_kind(t, K_NONE, K_LIST, K_DICT), raised("TypeError", "int()")),
                 (smt.kd(t, K_FLOAT), "float")]
        out = []
        for s, p in branch(ctx, st, cases):
            if p == "float":
                ctx.refute_or_oos(s, "int(float value)")
                continue
            out.append((s, p))
        return out
    raise OutOfSubset("int(%r)" % (x,))


def prim_fraction(I, st, x):
    xs = to_sv(x)
    cases = [(smt.is_numeric(xs.t), FractionV(smt.num(xs.t))),
             (z3.Not(smt.is_numeric(xs.t)), "other")]
    out = []
    for s, p in branch(I.ctx, st, cases):
        if p == "other":
            I.ctx.refute_or_oos(s, "Fraction of non-number")
            continue
        out.append((s, p))
    return out


def prim_re_search(I, st, pat, s_):
    p, s2 = to_sv(pat), to_sv(s_)
    okk = z3.And(smt.kd(p.t, K_STR), smt.kd(s2.t, K_STR))
    cases = [
        (z3.And(okk, smt.re_compiles(sval(p.t))), SB(smt.re_search(sval(p.t), sval(s2.t)))),
        (z3.And(okk, z3.Not(smt.re_compiles(sval(p.t)))), raised("re.error", "re.search")),
        (z3.Not(okk), raised("TypeError", "re.search")),
    ]
    return branch(I.ctx, st, cases)


# ---------------------------------------------------------------------------
# methods

def call_method(I, st, obj, name, args, kwargs, node=None):
    ctx = I.ctx
    hook = ctx.config.get("method_hook")
    if hook:
        r = hook(I, st, obj, name, args, kwargs, node)
        if r is not None:
            return r
    if isinstance(obj, SV):
        return sv_method(I, st, obj, name, args, kwargs)
    if isinstance(obj, ListObj):
        return list_method(I, st, obj, name, args, kwargs)
    if isinstance(obj, ErrRef):
        return err_method(I, st, obj, name, args, kwargs, node)
    if isinstance(obj, ErrPathRef):
        return errpath_method(I, st, obj, name, args, kwargs)
    if isinstance(obj, PyDict):
        if name == "items":
            return [(st, PyTuple([PyTuple([lift(k), v]) for k, v in obj.d.items()]))]
        if name == "get":
            k = args[0]
            if isinstance(k, SV) and k.known:
                return [(st, obj.d.get(k.conc, args[1] if len(args) > 1 else lift(None)))]
            # symbolic key into a concrete table: case split
            ks = to_sv(k)
            cases = []
            for key, val in obj.d.items():
                cases.append((z3.And(smt.kd(ks.t, K_STR), sval(ks.t) == z3.StringVal(key)), val))
            miss = z3.Not(z3.And(smt.kd(ks.t, K_STR), z3.Or([sval(ks.t) == z3.StringVal(key) for key in obj.d]))) if obj.d else z3.BoolVal(True)
            cases.append((miss, args[1] if len(args) > 1 else lift(None)))
            return branch(ctx, st, cases)
    if isinstance(obj, FractionV) and name == "denominator":
        pass
    if isinstance(obj, ClassRef):
        key = find_method(I, obj.name, name)
        if key is not None:
            return I.call_func(st, FuncRef(key), [obj] + list(args), kwargs, node)
    if isinstance(obj, ObjVal):
        # method of a repository class
        key = find_method(I, obj.cls, name)
        if key is not None:
            return I.call_func(st, FuncRef(key), [obj] + list(args), kwargs, node)
    if isinstance(obj, (SStr,)) or (isinstance(obj, Opaque)):
        if name in ("join", "format", "title", "replace", "rstrip"):
            return [(st, Opaque("strmeth:" + name, [obj] + list(args)))]
    raise OutOfSubset("method %s of %r" % (name, obj))


def find_method(I, cls, name):
    for ck, node in I.repo.classes.items():
        if ck.split(":")[1].split(".")[-1] == cls or ck.split(":")[1] == cls:
            m = ck.split(":")[0]
            q = ck.split(":")[1]
            key = "%s:%s.%s" % (m, q, name)
            if key in I.repo.units:
                return key
            # base classes inside the repo
            for b in node.bases:
                if isinstance(b, ast.Name):
                    r = find_method(I, b.id, name)
                    if r:
                        return r
    return None


def sv_method(I, st, obj, name, args, kwargs):
    ctx = I.ctx
    t = obj.t
    if name == "get" and obj.known and isinstance(obj.conc, dict) and isinstance(args[0], SV) and args[0].known:
        from spec.ops import lift_json
        if args[0].conc in obj.conc:
            return [(st, lift_json(obj.conc[args[0].conc]))]
        return [(st, args[1] if len(args) > 1 else lift(None))]
    if name == "get":
        k = to_sv(args[0])
        default = args[1] if len(args) > 1 else lift(None)
        if not (k.known and isinstance(k.conc, str)):
            kt = k.t
            cases = [
                (z3.And(smt.kd(t, K_DICT), smt.kd(kt, K_STR), dhas(t, sval(kt))), SV(dget(t, sval(kt)))),
                (z3.And(smt.kd(t, K_DICT), smt.kd(kt, K_STR), z3.Not(dhas(t, sval(kt)))), default),
                (z3.And(smt.kd(t, K_DICT), z3.Not(smt.kd(kt, K_STR))), "nonstr"),
                (z3.Not(smt.kd(t, K_DICT)), raised("AttributeError", ".get")),
            ]
        else:
            ks = z3.StringVal(k.conc)
            cases = [
                (z3.And(smt.kd(t, K_DICT), dhas(t, ks)), SV(dget(t, ks))),
                (z3.And(smt.kd(t, K_DICT), z3.Not(dhas(t, ks))), default),
                (z3.Not(smt.kd(t, K_DICT)), raised("AttributeError", ".get")),
            ]
        out = []
        for s, p in branch(ctx, st, cases):
            if p == "nonstr":
                ctx.refute_or_oos(s, ".get with non-string key")
                continue
            out.append((s, p))
        return out
    if name == "items":
        cases = [(smt.kd(t, K_DICT), ItemsView(obj)), (z3.Not(smt.kd(t, K_DICT)), raised("AttributeError", ".items"))]
        return branch(ctx, st, cases)
    if name == "is_integer":
        cases = [(smt.kd(t, K_FLOAT), SB(z3.IsInt(fval(t)))),
                 (smt.kd(t, K_INT), SB(True)),      # int.is_integer exists since 3.12
                 (z3.Not(smt.is_kind(t, K_FLOAT, K_INT)), raised("AttributeError", ".is_integer"))]
        return branch(ctx, st, cases)
    if name == "join" and obj.known and isinstance(obj.conc, str):
        a = args[0]
        if isinstance(a, SV):
            cases = [(smt.kd(a.t, K_DICT), SStr(strjoin_keys(z3.StringVal(obj.conc), a.t))),
                     (z3.Not(smt.kd(a.t, K_DICT)), "other")]
            out = []
            for s, p in branch(ctx, st, cases):
                if p == "other":
                    ctx.refute_or_oos(s, "str.join of a non-dict JSON value")
                    continue
                out.append((s, p))
            return out
        return [(st, Opaque("join", [obj, a]))]
    if name in ("format", "title", "replace", "lower", "upper") and obj.known and isinstance(obj.conc, str) and name == "format":
        return [(st, Opaque("format", [obj] + list(args)))]
    if name in ("lower", "upper", "casefold", "title", "swapcase", "capitalize") and not args:
        # case mappings: uninterpreted functions of the string (nothing is assumed about them)
        val = SV(smt.mk_str(z3.Function("str_" + name, smt.S, smt.S)(sval(t))))
        return branch(ctx, st, [(smt.kd(t, K_STR), val), (z3.Not(smt.kd(t, K_STR)), raised("AttributeError", "." + name))])
    if name in ("startswith", "split", "replace", "isdigit", "isascii", "lstrip", "strip"):
        isstr = smt.kd(t, K_STR)
        sv = sval(t)

        def const(a):
            if isinstance(a, SV) and a.known and isinstance(a.conc, str):
                return z3.StringVal(a.conc)
            if isinstance(a, SV):
                return sval(a.t)
            if isinstance(a, SStr):
                return a.t
            raise OutOfSubset("string method argument %r" % (a,))
        if name == "startswith":
            val = SB(z3.PrefixOf(const(args[0]), sv))
        elif name == "split":
            val = SV(ssplit(sv, const(args[0])))
        elif name == "replace":
            val = SV(smt.mk_str(str_replace(sv, const(args[0]), const(args[1]))))
        elif name == "isdigit":
            val = SB(py_isdigit(sv))
        elif name == "isascii":
            val = SB(py_isascii(sv))
        else:
            val = SV(smt.mk_str(z3.Function("str_" + name, smt.S, smt.S, smt.S)(sv, const(args[0]) if args else z3.StringVal(" "))))
        cases = [(isstr, val), (z3.Not(isstr), raised("AttributeError", "." + name))]
        return branch(ctx, st, cases)
    hook = ctx.config.get("sv_method_hook")
    if hook:
        r = hook(I, st, obj, name, args, kwargs)
        if r is not None:
            return r
    raise OutOfSubset("method %s on JSON value" % name)


def list_method(I, st, lo, name, args, kwargs):
    cell = st.heap[lo.oid]
    if name in ("append", "add") and cell["kind"] == "set":
        e = args[0]
        if isinstance(e, SV):
            res = []
            for s, ok in branch(I.ctx, st, [(z3.Not(smt.is_kind(e.t, K_LIST, K_DICT)), True), (smt.is_kind(e.t, K_LIST, K_DICT), False)]):
                if not ok:
                    res.append((s, raised("TypeError", "unhashable")))
                    continue
                s.heap[lo.oid] = dict(cell, parts=cell["parts"] + (One(e),), items=None)
                res.append((s, lift(None)))
            return res
        raise OutOfSubset("set element %r" % (e,))
    if name in ("append", "add"):
        s = st.fork()
        items = cell.get("items")
        s.heap[lo.oid] = dict(cell, parts=cell["parts"] + (One(args[0]),), items=(items + [args[0]]) if items is not None else None)
        return [(s, lift(None))]
    if name in ("extend", "update"):
        a = args[0]
        s = st.fork()
        if isinstance(a, ListObj):
            c2 = s.heap[a.oid]
            items = cell.get("items")
            i2 = c2.get("items")
            s.heap[lo.oid] = dict(cell, parts=cell["parts"] + c2["parts"],
                                  items=(items + i2) if items is not None and i2 is not None else None)
            return [(s, lift(None))]
        if isinstance(a, Seq):
            s.heap[lo.oid] = dict(cell, parts=cell["parts"] + (a,), items=None)
            return [(s, lift(None))]
        if isinstance(a, PyTuple):
            items = cell.get("items")
            s.heap[lo.oid] = dict(cell, parts=cell["parts"] + tuple(One(x) for x in a.items),
                                  items=(items + list(a.items)) if items is not None else None)
            return [(s, lift(None))]
        raise OutOfSubset("extend with %r" % (a,))
    raise OutOfSubset("list method %s" % name)


def err_method(I, st, ref, name, args, kwargs, node):
    key = "exceptions:_Error.%s" % name
    if key in I.repo.units:
        return I.call_func(st, FuncRef(key), [ref] + list(args), kwargs, node)
    raise OutOfSubset("method %s on error object" % name)


def errpath_method(I, st, pref, name, args, kwargs):
    e = st.heap[pref.err.oid]
    cur = e.fields.get(pref.field)
    if cur is None:
        cur = PathV(base=("elem", pref.field))       # the base error's own path
    if name == "appendleft":
        new = cur.appendleft(args[0])
    elif name == "extend":
        a = args[0]
        if isinstance(a, ListObj):
            items = st.heap[a.oid].get("items")
            if items is None:
                raise OutOfSubset("deque.extend with a symbolic list")
        elif isinstance(a, PyTuple):
            items = list(a.items)
        else:
            raise OutOfSubset("deque.extend(%r)" % (a,))
        new = cur.extend(items)
    else:
        raise OutOfSubset("deque method %s" % name)
    s = st.fork()
    s.heap[pref.err.oid] = e.with_field(pref.field, new)
    return [(s, lift(None))]


# ---------------------------------------------------------------------------
# constructors

def construct(I, st, cls, args, kwargs, node=None):
    ctx = I.ctx
    hook = ctx.config.get("construct_hook")
    if hook:
        r = hook(I, st, cls, args, kwargs, node)
        if r is not None:
            return r
    if cls in ("ValidationError", "SchemaError"):
        names = ["message", "validator", "path", "cause", "context", "validator_value", "instance", "schema",
                 "schema_path", "parent"]
        f = {}
        for n, a in zip(names, args):
            f[n] = a
        f.update(kwargs)
        fields = {
            "message": f.get("message"),
            "validator": f.get("validator", UNSET),
            "validator_value": f.get("validator_value", UNSET),
            "instance": f.get("instance", UNSET),
            "schema": f.get("schema", UNSET),
            "cause": f.get("cause", lift(None)),
            "parent": f.get("parent", lift(None)),
        }
        for pf in ("path", "schema_path"):
            v = f.get(pf, PyTuple(()))
            if isinstance(v, PyTuple):
                fields[pf] = PathV(front=v.items)
            elif isinstance(v, PathV):
                fields[pf] = v
            elif isinstance(v, ErrPathRef):
                src = st.heap[v.err.oid].fields.get(v.field)      # deque(path) copies the elements
                fields[pf] = src if isinstance(src, PathV) else PathV(base=("elem", v.field))
            else:
                raise OutOfSubset("error constructed with path %r" % (v,))
        cx = f.get("context", PyTuple(()))
        if isinstance(cx, PyTuple) and not cx.items:
            fields["context"] = NIL
        elif isinstance(cx, ListObj):
            fields["context"] = list_seq(st, cx)      # list(context) copies
        elif isinstance(cx, Seq):
            fields["context"] = cx
        else:
            raise OutOfSubset("error constructed with context %r" % (cx,))
        s = st.fork()
        oid = ctx.new_oid()
        s.heap[oid] = ErrVal(cls, None, fields)
        return [(s, ErrRef(oid))]
    from .interp import EXC_PARENTS
    if cls in EXC_PARENTS:
        f = {"args": PyTuple(args)}
        f.update(kwargs)
        return [(st, ExcVal(cls, f, origin="constructed@%s" % st.unit.key))]
    raise OutOfSubset("construct %s" % cls)
