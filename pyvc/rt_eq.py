"""Run-time helper (real code under /venv/bin/python): directed search / bounded stand-in for
_utils.equal and _utils.uniq against the executable JSON equality of the spec (C08)."""
import itertools
import json
import sys

ALPHABET = [0, 1, 1.0, True, False, "a", "", None, [], [0], [False], [1, "a"], [[0]], [[False]], {}, {"a": 0}, {"a": False},
            {"a": 0, "b": 1}, {"b": 1, "a": 0}, 2 ** 53, 2 ** 53 + 1, float(2 ** 53), [1], [1.0], [True], {"b": 0}, {"a": 0, "c": 1}]


def search(job):
    root = job["root"]
    sys.path.insert(0, root)
    from jsonschema import _utils
    from spec.pyops import py_jeq
    which = job["which"]
    maxlen = job.get("maxlen", 3)
    out, tried = [], 0
    if which == "equal":
        for a, b in itertools.product(ALPHABET, repeat=2):
            tried += 1
            exp = py_jeq(a, b)
            try:
                obs = bool(_utils.equal(a, b))
            except Exception as e:      # noqa
                obs = "exception %s" % type(e).__name__
            if obs != exp:
                out.append({"kind": "S" if isinstance(obs, str) else "F", "which": "equal", "args": [a, b], "expected": exp, "observed": obs})
                if len(out) >= 3:
                    break
    else:
        alpha = ALPHABET if maxlen <= 3 else ALPHABET[:17]
        for n in range(0, maxlen + 1):
            for xs in itertools.product(alpha, repeat=n):
                tried += 1
                xs = list(xs)
                exp = not any(py_jeq(xs[i], xs[j]) for i in range(n) for j in range(i + 1, n))
                try:
                    obs = bool(_utils.uniq(xs))
                except Exception as e:      # noqa
                    obs = "exception %s" % type(e).__name__
                if obs != exp:
                    out.append({"kind": "S" if isinstance(obs, str) else "F", "which": "uniq", "args": [xs], "expected": exp, "observed": obs})
                    if len(out) >= 3:
                        break
            if len(out) >= 3:
                break
    return {"failures": out, "tried": tried, "alphabet": len(ALPHABET), "maxlen": maxlen}


def replay(job):
    root = job["root"]
    sys.path.insert(0, root)
    from jsonschema import _utils
    from spec.pyops import py_jeq
    f = job["failure"]
    if f["which"] == "equal":
        a, b = f["args"]
        exp = py_jeq(a, b)
        try:
            obs = bool(_utils.equal(a, b))
        except Exception as e:      # noqa
            obs = "exception %s" % type(e).__name__
    else:
        xs = f["args"][0]
        exp = not any(py_jeq(xs[i], xs[j]) for i in range(len(xs)) for j in range(i + 1, len(xs)))
        try:
            obs = bool(_utils.uniq(xs))
        except Exception as e:      # noqa
            obs = "exception %s" % type(e).__name__
    if obs == exp:
        return {"status": "agrees"}
    return {"status": "fails", "failure": dict(f, expected=exp, observed=obs)}


if __name__ == "__main__":
    job = json.load(sys.stdin)
    json.dump({"search": search, "replay": replay}[job["cmd"]](job), sys.stdout)
