"""Run-time helper (real code): draft selection from $schema and registration (C20), class derivation
(C16).  Bounded stand-ins / replay."""
import io
import json
import os
import sys
import tempfile
import warnings


def load(root):
    sys.path.insert(0, root)
    import jsonschema
    from jsonschema import validators, exceptions, cli
    assert jsonschema.__file__.startswith(root)
    return jsonschema, validators, exceptions, cli


IDS = {3: "http://json-schema.org/draft-03/schema", 4: "http://json-schema.org/draft-04/schema",
       6: "http://json-schema.org/draft-06/schema", 7: "http://json-schema.org/draft-07/schema"}
# instances / schemas on which the drafts disagree
PROBES = [({"exclusiveMinimum": True, "minimum": 1}, 1), ({"exclusiveMinimum": 1}, 1), ({"type": "integer"}, 1.0), ({"const": 1}, 2),
          ({"contains": {"type": "string"}}, [1]), ({"if": {"type": "integer"}, "then": {"minimum": 5}}, 1), ({"properties": {"a": False}}, {"a": 1}),
          ({"required": ["a"]}, {}), ({"divisibleBy": 2}, 3), ({"extends": {"type": "string"}}, 1), ({"disallow": "integer"}, 1),
          ({"propertyNames": {"maxLength": 1}}, {"ab": 1}), ({"items": True}, [1])]


def behave(cls, schema, inst, exceptions):
    try:
        cls.check_schema(schema)
    except exceptions.SchemaError:
        return "schema-error"
    except Exception as e:      # noqa
        return "EXC " + type(e).__name__
    try:
        return sorted(str(e.validator) for e in cls(schema).iter_errors(inst))
    except Exception as e:      # noqa
        return "EXC " + type(e).__name__


def via_validate(jsonschema, schema, inst, exceptions, **kw):
    with warnings.catch_warnings(record=True) as w:
        warnings.simplefilter("always")
        try:
            jsonschema.validate(inst, schema, **kw)
            r = "valid"
        except exceptions.SchemaError:
            r = "schema-error"
        except exceptions.ValidationError:
            r = "invalid"
        except Exception as e:      # noqa
            r = "EXC " + type(e).__name__
    return r, [str(x.category.__name__) for x in w]


def via_cli(cli, schema, inst, extra=()):
    d = tempfile.mkdtemp(prefix="pyvc_cli_", dir=os.environ.get("PYVC_SCRATCH") or None)
    try:
        sp, ip = os.path.join(d, "s.json"), os.path.join(d, "i.json")
        json.dump(schema, open(sp, "w"))
        json.dump(inst, open(ip, "w"))
        out, err = io.StringIO(), io.StringIO()
        with warnings.catch_warnings():
            warnings.simplefilter("ignore")
            try:
                code = cli.run(cli.parse_args(list(extra) + ["-i", ip, sp]), stdout=out, stderr=err)
            except Exception as e:      # noqa
                return "EXC " + type(e).__name__
        return code
    finally:
        for f in os.listdir(d):
            os.unlink(os.path.join(d, f))
        os.rmdir(d)


def search(job):
    jsonschema, validators, exceptions, cli = load(job["root"])
    classes = {3: validators.Draft3Validator, 4: validators.Draft4Validator, 6: validators.Draft6Validator, 7: validators.Draft7Validator}
    out, tried = [], 0

    def fail(**kw):
        out.append(dict(kind="R", **kw))
    for d, base in IDS.items():
        for spelling in (base, base + "#"):
            tried += 1
            with warnings.catch_warnings(record=True) as w:
                warnings.simplefilter("always")
                got = validators.validator_for({"$schema": spelling})
            if got is not classes[d] or w:
                fail(what="validator_for", schema={"$schema": spelling}, problem="selected %s (warnings %d), expected draft %d silently" % (getattr(got, "__name__", got), len(w), d))
            for schema, inst in PROBES:
                tried += 1
                s2 = dict(schema)
                s2["$schema"] = spelling
                want = behave(classes[d], s2, inst, exceptions)
                exp = "schema-error" if want == "schema-error" else ("valid" if want == [] else ("invalid" if isinstance(want, list) else want))
                r, ws = via_validate(jsonschema, s2, inst, exceptions)
                if r != exp or ws:
                    fail(what="validate", schema=s2, instance=inst, problem="validate() -> %s %s, the selected class gives %s" % (r, ws, exp))
                if job.get("cli", True) and tried % 3 == 0:
                    code = via_cli(cli, s2, inst)
                    if (code == 0) != (exp == "valid"):
                        fail(what="cli", schema=s2, instance=inst, problem="CLI exit %r, the selected class gives %s" % (code, exp))
                # an explicitly given class always wins
                other = classes[7 if d != 7 else 4]
                r2, _ = via_validate(jsonschema, s2, inst, exceptions, cls=other)
                want2 = behave(other, s2, inst, exceptions)
                exp2 = "schema-error" if want2 == "schema-error" else ("valid" if want2 == [] else ("invalid" if isinstance(want2, list) else want2))
                if r2 != exp2:
                    fail(what="validate-explicit", schema=s2, instance=inst, problem="explicit cls gives %s, expected %s" % (r2, exp2))
            if len(out) >= 3:
                return {"failures": out[:3], "tried": tried}
    # missing $schema, boolean schema, unknown URI, fragments, caller default
    latest = classes[7]
    for schema, default, want_cls, want_warn in [({}, None, latest, 0), (True, None, latest, 0), ({"type": "integer"}, classes[4], classes[4], 0),
                                                 ({"$schema": "urn:unknown"}, None, latest, 1), ({"$schema": "urn:unknown"}, classes[3], latest, 1),
                                                 ({"$schema": IDS[4] + "#/definitions/positiveInteger"}, None, latest, 1),
                                                 ({"$schema": IDS[4] + "#foo"}, None, latest, 1), ({"$schema": "not a uri"}, None, latest, 1)]:
        tried += 1
        with warnings.catch_warnings(record=True) as w:
            warnings.simplefilter("always")
            got = validators.validator_for(schema) if default is None else validators.validator_for(schema, default=default)
        nw = sum(1 for x in w if issubclass(x.category, DeprecationWarning))
        if got is not want_cls or nw != want_warn:
            fail(what="validator_for", schema=schema, default=getattr(default, "__name__", None),
                 problem="selected %s with %d DeprecationWarning(s), expected %s with %d" % (getattr(got, "__name__", got), nw, want_cls.__name__, want_warn))
    # later registrations: selectable by their own id, existing registrations undisturbed
    before = {k: v for k, v in validators.meta_schemas.items()}
    vbefore = dict(validators.validators)
    try:
        # the registry is consulted at every call: an id looked up before its class is registered is found afterwards
        tried += 1
        with warnings.catch_warnings():
            warnings.simplefilter("ignore")
            early = validators.validator_for({"$schema": "urn:acme:draft4-plus"})
        if early is not latest:
            fail(what="registration", problem="an unregistered id selected %s" % getattr(early, "__name__", early))
        probe = {"$schema": "urn:acme:draft4-plus", "const": 1}      # draft 7 enforces const, a draft-4 dialect ignores it
        with warnings.catch_warnings():
            warnings.simplefilter("ignore")
            r_early, _ = via_validate(jsonschema, probe, 2, exceptions)
        meta = dict(classes[4].META_SCHEMA)
        meta["id"] = "urn:acme:draft4-plus"
        New = validators.create(meta_schema=meta, validators=classes[4].VALIDATORS, version="draft4", id_of=classes[4].ID_OF)
        tried += 1
        if validators.validator_for({"$schema": "urn:acme:draft4-plus"}) is not New:
            fail(what="registration", problem="a class registered through create(version=...) is not selectable by its own metaschema id")
        tried += 1
        r_late, _ = via_validate(jsonschema, probe, 2, exceptions)
        if r_early != "invalid" or r_late != "valid":
            fail(what="registration", schema=probe, instance=2, problem="validate() before / after registering the dialect: %s / %s, expected invalid (latest draft) / valid (the dialect ignores const)" % (r_early, r_late))
        for d, base in IDS.items():
            for sp in (base, base + "#"):
                tried += 1
                with warnings.catch_warnings(record=True) as w:
                    warnings.simplefilter("always")
                    got = validators.validator_for({"$schema": sp})
                if got is not classes[d] or w:
                    fail(what="registration", schema={"$schema": sp}, problem="existing registration of draft %d disturbed by a later registration (now %s)" % (d, getattr(got, "__name__", got)))
        Ext = validators.extend(classes[6], version="my-draft6")
        if validators.validator_for({"$schema": IDS[6] + "#"}) is not Ext and validators.validator_for({"$schema": IDS[6] + "#"}) is not classes[6]:
            fail(what="registration", problem="draft 6 id maps to an unrelated class")
        # after a re-registration under an id that was already dispatched on (in both spellings, above), every spelling
        # selects the class registered for that id NOW - the same one for the id with and without the empty fragment
        tried += 1
        now = [validators.validator_for({"$schema": sp}) for sp in (IDS[6], IDS[6] + "#")]
        reg = validators.meta_schemas.get(IDS[6])
        if now[0] is not now[1] or now[0] is not reg:
            fail(what="registration", schema={"$schema": IDS[6]}, problem="after re-registering draft 6's id (extend with a version), the id without / with '#' selects %s / %s while the registry holds %s"
                 % (getattr(now[0], "__name__", now[0]), getattr(now[1], "__name__", now[1]), getattr(reg, "__name__", reg)))
    finally:
        validators.meta_schemas.store.clear()
        validators.meta_schemas.store.update({k: v for k, v in before.items()})
        validators.validators.clear()
        validators.validators.update(vbefore)
    return {"failures": out[:3], "tried": tried}


def derive(job):
    """C16: a script of derivation operations; after each one every object created so far is probed
    again and must behave as when it was created."""
    jsonschema, validators, exceptions, cli = load(job["root"])
    from jsonschema import _types, _format
    import itertools
    out, tried = [], 0
    classes = {3: validators.Draft3Validator, 4: validators.Draft4Validator, 6: validators.Draft6Validator, 7: validators.Draft7Validator}
    objects = []      # (name, probe function)
    recorded = {}
    before_ms = {k: v for k, v in validators.meta_schemas.items()}
    before_v = dict(validators.validators)
    before_cls_checkers = dict(_format.FormatChecker.checkers)

    def probe_class(cls):
        def p():
            r = []
            for schema, inst in PROBES + [({"type": "any"}, 1), ({"type": "frob"}, 1), ({"id": "http://x/", "$id": "http://y/", "properties": {"a": {"$ref": "#/definitions/d"}}, "definitions": {"d": {"type": "integer"}}}, {"a": "s"}),
                                          ({"enum": ("a", "b")}, "a"), ({"type": 12}, 1), ({"format": "even"}, 3)]:
                r.append(repr(behave(cls, schema, inst, exceptions)))
            return r
        return p

    def probe_checker(tc):
        def p():
            r = []
            for t in ("any", "array", "integer", "number", "frob", "string"):
                for x in (1, 1.0, True, "s", [], None):
                    try:
                        r.append(tc.is_type(x, t))
                    except Exception as e:      # noqa
                        r.append(type(e).__name__)
            return r
        return p

    def probe_format(fc):
        def p():
            r = []
            for f in ("ipv4", "even", "date", "nothing"):
                for x in ("1.2.3.4", "x", 2, 3):
                    try:
                        r.append(fc.conforms(x, f))
                    except Exception as e:      # noqa
                        r.append(type(e).__name__)
            return r + [sorted(fc.checkers)]
        return p

    def add(name, probe):
        objects.append((name, probe))
        recorded[name] = probe()

    def recheck(after):
        nonlocal tried
        for name, probe in objects:
            tried += 1
            now = probe()
            if now != recorded[name]:
                out.append({"kind": "D", "object": name, "after": after, "problem": "object %s behaves differently after %s" % (name, after)})
                recorded[name] = now
    try:
        # absolute expectations on the shipped objects, asked in the order that exposes state shared
        # between a checker and the checkers derived from it (derived first)
        from jsonschema.exceptions import UndefinedTypeCheck
        for tc_name, tname, want in (("draft4_type_checker", "any", "raise"), ("draft3_type_checker", "any", True),
                                     ("draft6_type_checker", "integer", True), ("draft4_type_checker", "integer", False),
                                     ("draft3_type_checker", "integer", False), ("draft7_type_checker", "any", "raise")):
            tried += 1
            try:
                got = getattr(_types, tc_name).is_type(1.0 if tname == "integer" else 1, tname)
            except UndefinedTypeCheck:
                got = "raise"
            if got != want:
                out.append({"kind": "D", "object": tc_name, "after": "asking a derived checker first", "problem": "%s.is_type(.., %r) -> %r, expected %r" % (tc_name, tname, got, want)})
        for d, c in classes.items():
            add("Draft%d" % d, probe_class(c))
        for nm in ("draft3_type_checker", "draft4_type_checker", "draft6_type_checker"):
            add(nm, probe_checker(getattr(_types, nm)))
        fc0 = jsonschema.FormatChecker()
        add("FormatChecker()#0", probe_format(fc0))
        fc_plain = jsonschema.FormatChecker()         # never registered on: must still own a copy of the registry
        add("FormatChecker()#plain", probe_format(fc_plain))
        add("draft7_format_checker", probe_format(_format.draft7_format_checker))
        v_inst = classes[7]({"type": "integer"})
        add("validator-instance", lambda: [v_inst.is_valid(1), v_inst.is_valid(1.5), v_inst.is_type(1, "integer")])
        steps = []
        # the order of probes of derived objects matters for memo-style aliasing: ask the derived object first
        steps.append(("draft4_type_checker asked about 'any'", lambda: probe_checker(_types.draft4_type_checker)()))
        steps.append(("TypeChecker.redefine", lambda: add("redefined", probe_checker(_types.draft4_type_checker.redefine("integer", lambda c, x: isinstance(x, str))))))
        steps.append(("TypeChecker.redefine_many", lambda: add("redefined-many", probe_checker(_types.draft3_type_checker.redefine_many({"frob": lambda c, x: True, "any": lambda c, x: False})))))
        steps.append(("TypeChecker.remove", lambda: add("removed", probe_checker(_types.draft6_type_checker.remove("integer", "array")))))
        for d in (3, 4, 6, 7):
            steps.append(("extend(Draft%d) unchanged" % d, lambda d=d: add("ext%d" % d, probe_class(validators.extend(classes[d])))))
            steps.append(("extend(Draft%d, override type, version)" % d, lambda d=d: add("ext%dv" % d, probe_class(
                validators.extend(classes[d], validators={"type": lambda v, t, i, s: iter(())}, version="my%d" % d)))))
            steps.append(("extend(Draft%d, type_checker)" % d, lambda d=d: add("ext%dt" % d, probe_class(
                validators.extend(classes[d], type_checker=classes[d].TYPE_CHECKER.redefine("integer", lambda c, x: True))))))
        steps.append(("create without version", lambda: add("created", probe_class(validators.create(meta_schema={"$id": "urn:mine"}, validators={"type": classes[7].VALIDATORS["type"]})))))

        def with_types():
            with warnings.catch_warnings():
                warnings.simplefilter("ignore")
                v = classes[4]({"type": "integer"}, types={"integer": (int, str)})
            add("Validator(types=...)", lambda: [v.is_valid("s"), v.is_valid(1.5)])
        steps.append(("Validator(types=...)", with_types))
        steps.append(("checker.checks on an instance", lambda: fc0.checks("even")(lambda x: x % 2 == 0) and None))
        steps.append(("FormatChecker.cls_checks", lambda: _format.FormatChecker.cls_checks("even")(lambda x: x % 2 == 1) and None))
        steps.append(("FormatChecker() after cls_checks", lambda: add("FormatChecker()#1", probe_format(jsonschema.FormatChecker()))))
        steps.append(("FormatChecker(formats=...)", lambda: add("FormatChecker(formats)", probe_format(jsonschema.FormatChecker(formats=("ipv4",))))))
        for name, step in steps:
            own = None
            if name == "checker.checks on an instance":
                own = "FormatChecker()#0"
            step()
            if own:
                recorded[own] = dict(objects)[own]()      # the object the operation is *meant* to change
            recheck(name)
            if len(out) >= 3:
                break
        # an unchanged extension behaves as its parent
        for d in (3, 4, 6, 7):
            if "ext%d" % d in recorded and recorded["ext%d" % d] != recorded["Draft%d" % d]:
                out.append({"kind": "D", "object": "extend(Draft%d)" % d, "after": "extend", "problem": "a class extended without changes behaves differently from its parent"})
        # class-wide registration affects only checkers created afterwards
        if "FormatChecker()#1" in recorded and "even" not in recorded["FormatChecker()#1"][-1]:
            out.append({"kind": "D", "object": "FormatChecker()#1", "after": "cls_checks", "problem": "class-wide registration not visible in a checker created afterwards"})
    finally:
        validators.meta_schemas.store.clear()
        validators.meta_schemas.store.update(before_ms)
        validators.validators.clear()
        validators.validators.update(before_v)
        _format.FormatChecker.checkers.clear()
        _format.FormatChecker.checkers.update(before_cls_checkers)
    return {"failures": out[:3], "tried": tried}


def replay(job):
    if job.get("failure", {}).get("kind") == "D":
        r = derive(job)
        return {"status": "fails", "failure": r["failures"][0]} if r["failures"] else {"status": "agrees"}
    r = search(dict(job, cli=True))
    if r["failures"]:
        return {"status": "fails", "failure": r["failures"][0]}
    return {"status": "agrees"}


if __name__ == "__main__":
    job = json.load(sys.stdin)
    json.dump({"search": search, "replay": replay, "derive": derive}[job["cmd"]](job), sys.stdout, default=str)
