"""Run-time helper executed under the repository's interpreter (/venv/bin/python), stdlib + the real
jsonschema from the tree under test + the executable spec (spec/pyops.py, spec/drafts.py).

  echo '{"cmd": "replay", ...}' | PYTHONPATH=/verif:<tree> /venv/bin/python -m pyvc.rt_kw

cmd = "replay": run one (draft, schema, instance) on the real code and compare with the executable spec.
cmd = "search": directed small-scope search for a failing input of one keyword (bounded; a stand-in
                and a counterexample finder, never a proof).
"""
import itertools
import json
import re
import sys
from fractions import Fraction


def _load(root):
    sys.path.insert(0, root)
    import jsonschema
    from jsonschema import validators
    assert jsonschema.__file__.startswith(root), (jsonschema.__file__, root)
    return jsonschema, validators


def classes(validators):
    return {3: validators.Draft3Validator, 4: validators.Draft4Validator, 6: validators.Draft6Validator,
            7: validators.Draft7Validator}


def decode(x):
    """JSON transport of big ints / floats: {"__int__": "123"}"""
    if isinstance(x, dict):
        if set(x) == {"__int__"}:
            return int(x["__int__"])
        if set(x) == {"__float__"}:
            return float(x["__float__"])
        return {k: decode(v) for k, v in x.items()}
    if isinstance(x, list):
        return [decode(v) for v in x]
    return x


def encode(x):
    if isinstance(x, bool) or x is None or isinstance(x, str):
        return x
    if isinstance(x, int):
        return x if abs(x) < 2 ** 53 else {"__int__": str(x)}
    if isinstance(x, float):
        return x if abs(x) < 1e300 and x == x else {"__float__": repr(x)}
    if isinstance(x, dict):
        return {k: encode(v) for k, v in x.items()}
    if isinstance(x, (list, tuple)):
        return [encode(v) for v in x]
    return repr(x)


# pools used by the "errors" mode need arrays/objects with several violations


def observe(cls, schema, instance, validators, fmt=False):
    try:
        kw = {}
        if fmt:
            import jsonschema
            kw["format_checker"] = jsonschema.FormatChecker()
        errs = list(cls(schema, **kw).iter_errors(instance))
        return {"valid": not errs, "n": len(errs), "keywords": sorted(set(str(e.validator) for e in errs))}
    except RecursionError:
        return {"exception": "RecursionError"}
    except Exception as e:        # noqa
        return {"exception": type(e).__name__, "msg": str(e)[:200]}


def has_ref(s):
    if isinstance(s, dict):
        return "$ref" in s or any(has_ref(v) for v in s.values())
    if isinstance(s, list):
        return any(has_ref(v) for v in s)
    return False


def patterns_ok(s):
    """C03's granted restriction: every regular expression in the schema compiles (and C01's: it is
    in the subset where re.search and ECMA 262 agree; the pools only contain such patterns)."""
    if isinstance(s, dict):
        for k, v in s.items():
            if k == "pattern" and isinstance(v, str):
                try:
                    re.compile(v)
                except re.error:
                    return False
            if k == "patternProperties" and isinstance(v, dict):
                for p in v:
                    try:
                        re.compile(p)
                    except re.error:
                        return False
            if not patterns_ok(v):
                return False
    elif isinstance(s, list):
        return all(patterns_ok(v) for v in s)
    return True


def exact_multiple_domain(schema, instance):
    """C09's exact sub-domain for multipleOf/divisibleBy with a float operand (top-level keyword only)."""
    for k in ("multipleOf", "divisibleBy"):
        if isinstance(schema, dict) and k in schema:
            v, x = schema[k], instance
            if isinstance(x, bool) or not isinstance(x, (int, float)):
                continue
            if isinstance(v, int) and isinstance(x, int):
                continue
            for n in (v, x):
                if isinstance(n, int) and abs(n) > 2 ** 53:
                    return False
            if isinstance(v, float):
                m = Fraction(v)
                pow2 = m.numerator in (1, -1) or (m.denominator == 1 and (m.numerator & (m.numerator - 1)) == 0)
                if not pow2:
                    return False
                q = Fraction(x) / m
                if q != 0 and abs(q) < Fraction(1, 2 ** 1000):
                    return False
            # int divisor, float instance: exact remainder
    return True


def judge(d, cls, schema, instance, validators, drafts, PyOps, meta):
    """-> None when the real code agrees with the spec, else a failure record"""
    o = PyOps(d, meta_root=meta)
    exp = bool(drafts.V_concrete_schema(o, schema, instance))
    obs = observe(cls, schema, instance, validators)
    allowed = {"UnknownType"} if d == 3 else set()
    if "exception" in obs:
        if obs["exception"] in allowed:
            return None
        return {"kind": "S", "draft": d, "schema": encode(schema), "instance": encode(instance),
                "expected": {"valid": exp}, "observed": obs}
    if obs["valid"] != exp:
        if not exact_multiple_domain(schema, instance):
            return None
        return {"kind": "F", "draft": d, "schema": encode(schema), "instance": encode(instance),
                "expected": {"valid": exp}, "observed": obs}
    return None


def loc_problems(d, root_schema, root_instance, errs):
    """Executable Loc (C06) on real error objects: paths lead where the error says."""
    probs = []
    idk = "id" if d <= 4 else "$id"

    def nav_instance(path):
        cur = root_instance
        for p in path:
            cur = cur[p]
        return cur

    def nav_schema(path):
        cur = root_schema
        for p in path:
            if isinstance(cur, dict) and "$ref" in cur and isinstance(cur["$ref"], str):
                return ("ref-hop",)      # ref-free schemas only here
            cur = cur[p]
        return cur

    def strict_eq(a, b):
        from spec.pyops import py_jeq
        return py_jeq(a, b)

    def walk(e, depth=0):
        ap, asp = list(e.absolute_path), list(e.absolute_schema_path)
        if e.parent is not None:
            if ap != list(e.parent.absolute_path) + list(e.relative_path):
                probs.append("absolute_path != parent's absolute path + relative path")
            if asp != list(e.parent.absolute_schema_path) + list(e.relative_schema_path):
                probs.append("absolute_schema_path != parent's + relative")
        jp = "$" + "".join("[%d]" % x if isinstance(x, int) else "." + x for x in ap)
        try:
            if e.json_path != jp:
                probs.append("json_path %r != rendering %r" % (e.json_path, jp))
        except Exception as ex:     # noqa
            probs.append("json_path raised %s" % type(ex).__name__)
        d3_required = d == 3 and e.validator == "required" and len(asp) >= 2 and asp[-1] == "required"
        under_property_names = "propertyNames" in asp
        false_schema = e.validator is None
        try:
            if not d3_required and not under_property_names:
                if not strict_eq(nav_instance(ap), e.instance):
                    probs.append("instance path %r does not reach error.instance" % (ap,))
            if not false_schema and not d3_required:
                if not asp or asp[-1] != e.validator:
                    probs.append("schema path %r does not end with keyword %r" % (asp, e.validator))
                if not (isinstance(e.schema, dict) and e.validator in e.schema and strict_eq(e.schema[e.validator], e.validator_value)):
                    probs.append("error.schema[%r] != validator_value" % (e.validator,))
                tgt = nav_schema(asp)
                if tgt != ("ref-hop",) and not strict_eq(tgt, e.validator_value):
                    probs.append("schema path %r does not reach validator_value" % (asp,))
        except (KeyError, IndexError, TypeError) as ex:
            probs.append("path navigation failed: %s %s (path %r / %r)" % (type(ex).__name__, ex, ap, asp))
        for c in e.context:
            if c.parent is not e:
                probs.append("context error's parent is not the containing error")
            walk(c, depth + 1)
    for e in errs:
        walk(e)
    return probs


def judge_errors(d, cls, schema, instance, validators, drafts, PyOps, meta):
    """C05/C06: the multiset of (keyword, path, schema path, context) equals the reference; Loc holds."""
    from spec import errors_ref
    o = PyOps(d, meta_root=meta)
    try:
        real = list(cls(schema).iter_errors(instance))
    except Exception as e:      # noqa
        return None      # exceptions are C03's business
    try:
        exp = errors_ref.normalise(errors_ref.errors(d, schema, instance, o))
    except Exception as e:      # noqa
        return None
    obs = errors_ref.normalise(errors_ref.observed(real))
    if not exact_multiple_domain(schema, instance):
        return None
    if obs != exp:
        return {"kind": "F", "mode": "errors", "draft": d, "schema": encode(schema), "instance": encode(instance),
                "expected": {"errors": encode(exp)}, "observed": {"errors": encode(obs)}}
    probs = loc_problems(d, schema, instance, real)
    if probs:
        return {"kind": "F", "mode": "errors", "draft": d, "schema": encode(schema), "instance": encode(instance),
                "expected": {"loc": "every error locates itself"}, "observed": {"problems": probs[:5]}}
    return None


BIG = 10 ** 400

VALUE_POOL = [
    None, True, False, 0, 1, 2, -1, 3, 1.0, 0.5, 2.5, 2.0, BIG, 1e308, "", "a", "b", "^a", "a|b", "b$",
    "integer", "string", "number", "object", "array", "boolean", "null", "any",
    [], [1], ["a"], ["a", "b"], [{}], [{"type": "integer"}], [{"type": "integer"}, {"type": "string"}],
    [{"type": "integer"}, {"minimum": 2}], [True], [False], [False, True], [[0]], [0], [1, True], ["integer", "string"],
    ["integer", {"type": "string"}], [{"minimum": 1}, {"maximum": 1}], [{"a": 0}], [[False]], [1.0],
    {}, {"type": "integer"}, {"type": "string"}, {"minimum": 1}, {"a": {"type": "integer"}},
    {"a": {"type": "integer"}, "b": {}}, {"a": ["b"]}, {"a": "b"}, {"a": {"required": True}}, {"a": {"required": ["b"]}},
    {"^a": {"type": "integer"}}, {"": {}}, {"a": {}}, {"b$": {}, "^a": {"type": "string"}}, {"a": True}, {"a": False},
    {"maxLength": 1}, {"a": 0}, {"a": False}, {"enum": [1]}, {"not": {}},
    9007199254740992.0, 9007199254740993, 2.0 ** -30, 2.0 ** -64, {"a": {"default": 1}}, {"a": {"default": 1}, "b": {"title": "t"}},
    ["a", "b", "c"], {"a": ["b", "c"]}, {"a": {"type": "integer"}, "b": {"type": "integer"}},
    [{"type": "integer"}, {"type": "integer"}, {"type": "integer"}], {"type": "integer", "minimum": 5},
    [{}, {"type": "integer"}], [True, {"type": "integer"}], ["string", {"type": "integer", "minimum": 5}],
    {"^a": {}, "(?i)^B": {}}, {"(?P<p>a)x": {}, "(?P<p>b)y": {}},
    [{"type": "string"}, "integer"], [{"minimum": 1}, "string", {"type": "null"}], [{"properties": {"a": {"minimum": 5}}}, "string", {"type": "array"}],
]

INSTANCE_POOL = [
    None, True, False, 0, 1, 2, 3, -1, 1.0, 1.5, 0.5, 4.0, BIG, -BIG, 1e308, 2 ** 53 + 1, "", "a", "ab", "b", "abc",
    [], [1], [1, 2], [1, "a"], ["a"], [1, 1], [1, 2, 3], [[0], [False]], [True, 1], [0, False], [{"a": 0}, {"a": False}],
    [1, 1.0], [0], [False], [[0]], [[False]],
    {}, {"a": 1}, {"a": "x"}, {"a": 1, "b": 2}, {"b": 1}, {"ab": 1}, {"": 1}, {"a": 1.5}, {"abc": "x", "b": 1},
    {"a": 0}, {"a": False}, ["x", "y", "z"], ["x", 1, "y"], {"a": "x", "b": "y"}, {"c": 1}, [1, True], [1, "x", "x"],
    -1e308, -1.5e308, -(2 ** 53 + 1), -0.5, [1.0, 1.5], [1.5, 1.0], [0.5, 2.0, "a"], [{"a": 1, "b": 2}, {"a": 2}, {"b": 2, "a": 1}], [[1], [1, 0], [1.0]], [{"a": 1}, {"a": 1, "b": 0}, {"a": 1.0}],
]


def wf(d, schema, drafts, PyOps, meta):
    try:
        return bool(drafts.V_concrete_schema(PyOps(d, meta_root=meta), meta, schema))
    except Exception:      # noqa
        return False


def search(job):
    root = job["root"]
    jsonschema, validators = _load(root)
    from spec import drafts
    from spec.pyops import PyOps
    d, k = job["draft"], job["keyword"]
    cls = classes(validators)[d]
    if k in ("enum", "const") and job.get("mode") != "errors":
        # the keyword's value is looked at afresh at every validation: a list edited in place, or a new list that
        # happens to live where an old one did, is compared as what it now contains
        pre = []
        for first, second, x in (([1], [True], 1), ([True], [1], True), ([0.0], [False], 0), (["a"], [["a"]], "a")):
            lst = list(first)
            v = cls({"enum": lst})
            r1 = v.is_valid(x)
            lst[:] = second
            r2 = v.is_valid(x)
            r3 = cls({"enum": list(second)}).is_valid(x)
            if not r1 or r2 or r3:
                pre.append({"kind": "F", "mode": "verdict", "draft": d, "schema": {"enum": encode(second)}, "instance": encode(x),
                            "expected": {"valid": False}, "observed": {"valid": bool(r2 or r3), "note": "after validating against enum %r with the same validator / list object" % (first,)}})
        if pre:
            return {"failures": pre[:job.get("limit", 3)], "tried": 4, "schemas": 4, "exhausted": False}
    meta = json.load(open(root + "/jsonschema/schemas/draft%d.json" % d))
    sibs = list(drafts.siblings(d, k)) + [e for e in job.get("extra_siblings", []) if e not in drafts.siblings(d, k) and e != k]
    limit = job.get("limit", 3)
    out, tried, schemas = [], 0, 0
    seen_kinds = set()
    sib_pool = [()] + [((s, w),) for s in sibs for w in VALUE_POOL]
    if len(sibs) == 2:
        sib_pool += [((sibs[0], a), (sibs[1], b)) for a in VALUE_POOL[:50:3] for b in VALUE_POOL[:50:3]]
    for v in VALUE_POOL:
        for extra in sib_pool:
            schema = {k: v}
            schema.update(dict(extra))
            if has_ref(schema) or not patterns_ok(schema) or not wf(d, schema, drafts, PyOps, meta):
                continue
            schemas += 1
            for x in INSTANCE_POOL:
                tried += 1
                if job.get("mode") == "errors":
                    f = judge_errors(d, cls, schema, x, validators, drafts, PyOps, meta)
                else:
                    f = judge(d, cls, schema, x, validators, drafts, PyOps, meta)
                if f is not None:
                    key = (f["kind"], f["observed"].get("exception"), json.dumps(f["schema"], sort_keys=True, default=str)[:60])
                    if key in seen_kinds:
                        continue
                    seen_kinds.add(key)
                    out.append(f)
                    if len(out) >= limit:
                        return {"failures": out, "tried": tried, "schemas": schemas, "exhausted": False}
    return {"failures": out, "tried": tried, "schemas": schemas, "exhausted": True}


PAIR_VALUES = {
    "type": ["integer", "string", ["integer", "string"]], "minimum": [2], "maximum": [0], "enum": [[1, "a"]], "required": [["a", "b"]],
    "properties": [{"a": {"type": "integer"}, "b": {"type": "string"}}], "patternProperties": [{"^a": {"type": "integer"}}],
    "additionalProperties": [False, {"type": "integer"}], "items": [{"type": "integer"}, [{"type": "integer"}, {"type": "string"}]],
    "additionalItems": [False], "allOf": [[{"type": "integer"}, {"minimum": 2}]], "anyOf": [[{"type": "integer"}, {"type": "string"}]],
    "oneOf": [[{"type": "integer"}, {"minimum": 2}]], "not": [{"type": "integer"}], "minItems": [2], "maxItems": [1], "minLength": [2],
    "uniqueItems": [True], "dependencies": [{"a": ["b"]}], "extends": [[{"type": "integer"}, {"minimum": 2}]], "disallow": [["integer"]],
    "const": [1], "contains": [{"type": "integer"}], "propertyNames": [{"maxLength": 1}], "if": [{"type": "integer"}],
    "title": ["t"], "default": [1], "definitions": [{"x": {"type": "integer"}}], "minContains": [0, 2], "$comment": ["c"],
    "then": [{"minimum": 5}], "else": [{"type": "null"}], "exclusiveMinimum": [True, 1], "divisibleBy": [2], "multipleOf": [2],
}
PAIR_INSTANCES = [None, True, 0, 1, 2, 1.5, "a", "abc", [], [1], [1, "a"], ["a", "b", 1], [1, 1], {}, {"a": 1}, {"a": "x", "b": 1}, {"ab": 1, "c": "x"}]


def search_pairs(job):
    """schemas with two keywords (incl. annotations and other-draft keywords): the dispatch level"""
    root = job["root"]
    jsonschema, validators = _load(root)
    from spec import drafts
    from spec.pyops import PyOps
    out, tried = [], 0
    mode = job.get("mode", "errors")
    for d in job.get("drafts", (3, 4, 6, 7)):
        cls = classes(validators)[d]
        meta = json.load(open(root + "/jsonschema/schemas/draft%d.json" % d))
        items = [(k, v) for k, vs in PAIR_VALUES.items() for v in vs]
        for a in range(len(items)):
            for b in range(a + 1, len(items)):
                (k1, v1), (k2, v2) = items[a], items[b]
                if k1 == k2:
                    continue
                for schema in ({k1: v1, k2: v2}, {k2: v2, k1: v1}):
                    if not wf(d, schema, drafts, PyOps, meta):
                        continue
                    for x in PAIR_INSTANCES:
                        tried += 1
                        f = (judge_errors if mode == "errors" else judge)(d, cls, schema, x, validators, drafts, PyOps, meta)
                        if f is not None:
                            out.append(f)
                            if len(out) >= job.get("limit", 3):
                                return {"failures": out, "tried": tried}
    return {"failures": out, "tried": tried}


NESTED_INNER = [
    ({"anyOf": [{"type": "string"}, {"minimum": 3}]}, 1),
    ({"oneOf": [{"type": "integer"}, {"minimum": 0}]}, 1),
    ({"anyOf": [{"type": "string"}, {"properties": {"k": {"anyOf": [{"type": "null"}, {"items": [{}, {"type": "string"}]}]}}}]}, {"k": [0, 1]}),
    ({"allOf": [{"anyOf": [{"type": "string"}, {"type": "null"}]}]}, 1),
    ({"type": "string"}, 1),
]


def search_nested(job):
    """deeply nested applicators with pairwise distinct path elements (C06: absolute paths are the
    parents' paths in order, json_path renders them)"""
    root = job["root"]
    jsonschema, validators = _load(root)
    from spec import drafts
    from spec.pyops import PyOps
    out, tried = [], 0
    for d in job.get("drafts", (3, 4, 6, 7)):
        cls = classes(validators)[d]
        meta = json.load(open(root + "/jsonschema/schemas/draft%d.json" % d))
        for inner, x in NESTED_INNER:
            wraps = [
                ({"properties": {"a": {"items": inner}}}, {"a": [x]}),
                ({"properties": {"a": {"items": [{}, {"properties": {"b": inner}}]}}}, {"a": [0, {"b": x}]}),
                ({"items": [{}, {}, {"properties": {"p": {"items": [{}, inner]}}}]}, [0, 0, {"p": [0, x]}]),
                ({"patternProperties": {"^q": {"additionalProperties": {"items": [{}, {}, {}, inner]}}}}, {"qq": {"r": [0, 0, 0, x]}}),
                ({"anyOf": [{"type": "null"}, {"properties": {"a": {"items": [{}, inner]}}}]}, {"a": [0, x]}),
            ]
            if d != 3:
                wraps.append(({"allOf": [{"properties": {"a": {"anyOf": [{"type": "null"}, {"items": [{}, {}, inner]}]}}}]}, {"a": [0, 0, x]}))
            for schema, inst in wraps:
                if not wf(d, schema, drafts, PyOps, meta):
                    continue
                tried += 1
                f = judge_errors(d, cls, schema, inst, validators, drafts, PyOps, meta)
                if f is not None:
                    out.append(f)
                    if len(out) >= job.get("limit", 3):
                        return {"failures": out, "tried": tried}
    return {"failures": out, "tried": tried}


EXTRA_VALUES = [None, True, 0, 1, "x", [], ["a"], {}, {"type": "string"}, {"a": 1}, [{"type": "string"}], "integer", 5.5]


def search_extras(job):
    """C10: inserting keywords the draft does not define - annotations, keywords of other drafts, made-up names - anywhere
    in a schema (top level, inside a subschema, next to a $ref, identifier-looking objects inside annotations) leaves the
    reported (keyword, path, schema path) triples unchanged"""
    root = job["root"]
    jsonschema, validators = _load(root)
    from jsonschema import exceptions
    from spec import drafts
    out, tried = [], 0
    limit = job.get("limit", 3)

    def errs(cls, schema, inst):
        try:
            return sorted((str(e.validator), [str(x) for x in e.absolute_path], [str(x) for x in e.absolute_schema_path]) for e in cls(schema).iter_errors(inst))
        except exceptions.RefResolutionError:
            return "RefResolutionError"
        except RecursionError:
            return "RecursionError"
        except Exception as e:      # noqa
            return "EXC " + type(e).__name__

    def report(d, base, decorated, inst, a, b):
        out.append({"kind": "F", "mode": "extras", "draft": d, "schema": encode(decorated), "base": encode(base), "instance": encode(inst),
                    "expected": {"errors": a}, "observed": {"errors": b}})
    all_kw = set().union(*[set(drafts.VOCAB[d]) for d in (3, 4, 6, 7)])
    for d in job.get("drafts", (3, 4, 6, 7)):
        cls = classes(validators)[d]
        idk = drafts.ID_KEY[d]
        other_id = "$id" if idk == "id" else "id"
        consulted = set(drafts.VOCAB[d])
        for k0 in drafts.VOCAB[d]:
            consulted |= set(drafts.siblings(d, k0))       # e.g. draft 3's `required` inside a property subschema
        if d == 3:
            consulted.add("required")      # read by properties from the property's subschema
        foreign = sorted((all_kw - consulted) - {"$ref", "id", "$id", "$schema", "format"})
        later = ["$anchor", "$defs", "dependentRequired", "dependentSchemas", "unevaluatedProperties", "unevaluatedItems", "minContains", "maxContains",
                 "prefixItems", "$recursiveRef", "$recursiveAnchor", "$dynamicRef", "$dynamicAnchor", "deprecated", "writeOnly", "contentSchema"]
        extras = ["title", "description", "default", "examples", "$comment", "definitions", "x-made-up", "frobnicate", other_id] + foreign + \
            [k for k in later if k not in consulted]
        bases = [({"type": "integer"}, [1, "a"]), ({"properties": {"a": {"type": "integer"}}}, [{"a": 1}, {"a": "x"}]),
                 ({"items": {"type": "integer"}}, [[1], ["x", 1]]), ({"type": "object", "additionalProperties": False, "properties": {"a": {}}}, [{"a": 1}, {"b": 1}])]
        if d != 3:
            bases += [({"anyOf": [{"type": "integer"}, {"type": "string"}]}, [1, None]), ({"not": {"type": "integer"}}, [1, "a"])]
        for base, insts in bases:
            for k in extras:
                if k in base:
                    continue
                for v in EXTRA_VALUES:
                    if k == "definitions" and not isinstance(v, dict):
                        continue
                    if k == other_id and not isinstance(v, str):
                        continue
                    # at top level and inside the first subschema
                    variants = [dict(base, **{k: v})]
                    for bk, bv in base.items():
                        if isinstance(bv, dict) and bk in ("items", "not"):
                            variants.append(dict(base, **{bk: dict(bv, **{k: v})}))
                        elif isinstance(bv, dict) and bk == "properties":
                            variants.append(dict(base, properties={pk: dict(pv, **{k: v}) for pk, pv in bv.items()}))
                    for dec in variants:
                        for inst in insts:
                            tried += 1
                            a, b = errs(cls, base, inst), errs(cls, dec, inst)
                            if a != b:
                                report(d, base, dec, inst, a, b)
                                if len(out) >= limit:
                                    return {"failures": out, "tried": tried}
        # next to a $ref every other keyword is ignored, whatever the reference looks like
        def tree(ref, extra):
            child = {"$ref": ref}
            child.update(extra)
            return {"type": "object", "properties": {"value": {"type": "integer"}, "child": child}, "definitions": {"t": {"type": "object", "properties": {"value": {"type": "integer"}}}}}
        sib = [{"type": "string"}, {"enum": [1, 2]}, {"frobnicate": True, "additionalProperties": False}, {"description": "x", "minLength": 9}] + ([{"required": ["zz"]}] if d != 3 else [])      # draft 3's `required` belongs to the enclosing `properties`, which does read it
        if d != 3:
            sib.append({"maxProperties": 0})
        tinst = [{"value": 1, "child": {"value": 2, "child": {"value": 3}}}, {"value": 1, "child": {"value": "bad"}}, {"child": {"child": {"child": 12}}}]
        for ref in ("", "#", "#/definitions/t"):
            for extra in sib:
                for inst in tinst:
                    tried += 1
                    a, b = errs(cls, tree(ref, {}), inst), errs(cls, tree(ref, extra), inst)
                    if a != b:
                        report(d, tree(ref, {}), tree(ref, extra), inst, a, b)
                        if len(out) >= limit:
                            return {"failures": out, "tried": tried}
        # the OTHER draft's identifier spelling establishes no base URI: neither at the root (a relative reference that would
        # reach a document of the store if the spelling counted) nor on a subschema above a same-document reference
        meta_id = cls.META_SCHEMA.get(idk, "")
        mdir = meta_id.rsplit("/", 1)[0] + "/" if meta_id else ""
        if mdir:
            base = {"properties": {"a": {"$ref": "schema#/properties/title"}}}
            dec = dict(base, **{other_id: mdir})
            for inst in ({"a": 1}, {"a": "t"}):
                tried += 1
                a, b = errs(cls, base, inst), errs(cls, dec, inst)
                if a != b:
                    report(d, base, dec, inst, a, b)
        base = {"definitions": {"t": {"type": "integer"}}, "properties": {"a": {"properties": {"b": {"$ref": "#/definitions/t"}}}}}
        dec = {"definitions": {"t": {"type": "integer"}}, "properties": {"a": {other_id: "demo://elsewhere.invalid/x/", "properties": {"b": {"$ref": "#/definitions/t"}}}}}
        for inst in ({"a": {"b": 1}}, {"a": {"b": "s"}}):
            tried += 1
            a, b = errs(cls, base, inst), errs(cls, dec, inst)
            if a != b:
                report(d, base, dec, inst, a, b)
        if len(out) >= limit:
            return {"failures": out, "tried": tried}
        # names of later specifications that look like identifiers do not become reference targets
        for akey, aval in (("$anchor", "foo"), ("$dynamicAnchor", "foo"), (idk, "#foo")):
            base = {"properties": {"a": {"$ref": "#foo"}}, "definitions": {"x": {"type": "integer"}}}
            dec = {"properties": {"a": {"$ref": "#foo"}}, "definitions": {"x": {"type": "integer", akey: aval}}}
            if akey == idk:
                continue      # an id of the draft's own spelling is not an inserted unknown keyword
            for inst in ({"a": 1}, {"a": "s"}):
                tried += 1
                a, b = errs(cls, base, inst), errs(cls, dec, inst)
                if a != b:
                    report(d, base, dec, inst, a, b)
        # identifier-looking objects inside annotations / unknown keywords do not become reference targets
        url = "demo://nowhere.invalid/thing.json"
        for k in ("default", "examples", "x-made-up", "definitions-not", "enum"):
            for ik in ("id", "$id"):
                emb = {ik: url, "type": "string"}
                base = {"properties": {"a": {"$ref": url}}}
                dec = dict(base, **{k: ([emb] if k in ("examples", "enum") else emb)})
                if k == "enum":
                    base = dict(base, enum=[{"a": 1}, emb])
                    dec = base
                for inst in ({"a": 1}, {"a": "s"}):
                    tried += 1
                    b = errs(cls, dec, inst)
                    if b != "RefResolutionError" and not (k == "enum"):
                        report(d, base, dec, inst, "RefResolutionError", b)
                    elif k == "enum" and b not in ("RefResolutionError",) and not (isinstance(b, list) and any(e[0] == "enum" for e in b) and len(b) == 1 and False):
                        report(d, base, dec, inst, "RefResolutionError", b)
                    if len(out) >= limit:
                        return {"failures": out, "tried": tried}
    return {"failures": out, "tried": tried}


def search_meta(job):
    """C11: check_schema(candidate) returns normally exactly when the executable spec accepts the
    candidate under the bundled metaschema; otherwise SchemaError and nothing else."""
    root = job["root"]
    jsonschema, validators = _load(root)
    from jsonschema import exceptions
    from spec import drafts
    from spec.pyops import PyOps
    out, tried = [], 0
    scalars = [None, True, False, 0, 1, -1, 1.5, "", "a", [], [1], ["a"], ["a", "a"], {}, {"a": 1}, [{}], {"a": {}}, {"a": []}, {"a": "b"}, [[]], "integer", ["integer"], ["integer", "integer"],
               {"type": "integer"}, {"type": 12}, [{"type": 12}], {"a": {"type": 12}}, -0.5, 2 ** 70, "(", {"a": ["b", 1]}, {"a": ["b", "b"]},
               [{"title": "x", "type": "string"}, {"title": "y"}, {"type": "string", "title": "x"}], [[1], [1, 0], [1.0]], ["a", "b", "a"], [1, 2, 1.0]]
    for d in job.get("drafts", (3, 4, 6, 7)):
        cls = classes(validators)[d]
        meta = json.load(open(root + "/jsonschema/schemas/draft%d.json" % d))
        names = sorted(set(meta.get("properties", {})) | {"unknownKeyword", "$ref"})
        cands = list(scalars)
        for k in names:
            for v in scalars:
                cands.append({k: v})
        cands += [{"properties": {"a": {"items": [{"minimum": "x"}]}}}, {"allOf": [{"anyOf": [{"not": {"type": 5}}]}]},
                  {"dependencies": {"a": {"required": "b"}}}, {"extends": [{"type": {"x": 1}}]}, meta]
        for c in cands:
            tried += 1
            exp = wf(d, c, drafts, PyOps, meta)
            try:
                cls.check_schema(c)
                obs = True
            except exceptions.SchemaError:
                obs = False
            except Exception as e:      # noqa
                obs = "exception %s" % type(e).__name__
            if obs != exp:
                out.append({"kind": "F", "mode": "meta", "draft": d, "schema": encode(c), "instance": None, "expected": {"accepted": exp}, "observed": {"accepted": obs}})
                if len(out) >= job.get("limit", 3):
                    return {"failures": out, "tried": tried}
    return {"failures": out, "tried": tried}


def suite_sanity(job):
    """the executable spec against the official JSON-Schema-Test-Suite shipped under <root>/json
    (reference-free, format-free cases): a check of OUR transcription of the drafts, not of the code"""
    import glob
    import os
    root = job["root"]
    sys.path.insert(0, root)
    from spec import drafts
    from spec.pyops import PyOps
    out, tried, skipped = [], 0, 0
    for d in (3, 4, 6, 7):
        meta = json.load(open(root + "/jsonschema/schemas/draft%d.json" % d))
        for f in sorted(glob.glob(os.path.join(root, "json", "tests", "draft%d" % d, "*.json"))):
            name = os.path.basename(f)
            for case in json.load(open(f)):
                sch = case["schema"]
                if has_ref(sch) or name == "format.json":
                    skipped += len(case["tests"])
                    continue
                o = PyOps(d, meta_root=meta)
                for t in case["tests"]:
                    tried += 1
                    got = bool(drafts.V_concrete_schema(o, sch, t["data"]))
                    if got != t["valid"]:
                        if not exact_multiple_domain(sch, t["data"]):
                            continue      # inexact float multipleOf: outside C09's sub-domain
                        out.append({"kind": "SPEC", "draft": d, "file": name, "case": case["description"], "test": t["description"],
                                    "spec_says": got, "suite_says": t["valid"]})
    return {"failures": out[:5], "tried": tried, "skipped": skipped}


def replay_meta(job):
    root = job["root"]
    jsonschema, validators = _load(root)
    from jsonschema import exceptions
    from spec import drafts
    from spec.pyops import PyOps
    d = job["draft"]
    cls = classes(validators)[d]
    meta = json.load(open(root + "/jsonschema/schemas/draft%d.json" % d))
    c = decode(job["schema"])
    exp = wf(d, c, drafts, PyOps, meta)
    try:
        cls.check_schema(c)
        obs = True
    except exceptions.SchemaError:
        obs = False
    except Exception as e:      # noqa
        obs = "exception %s" % type(e).__name__
    if obs == exp:
        return {"status": "agrees"}
    return {"status": "fails", "failure": {"kind": "F", "mode": "meta", "draft": d, "schema": encode(c), "instance": None, "expected": {"accepted": exp}, "observed": {"accepted": obs}}}


def replay(job):
    if job.get("mode") == "meta":
        return replay_meta(job)
    if job.get("mode") == "extras":
        # the search is small: re-run it and report the first disagreement, if any
        r = search_extras({"root": job["root"], "limit": 1, "drafts": [job["draft"]]})
        return {"status": "fails", "failure": r["failures"][0]} if r["failures"] else {"status": "agrees"}
    root = job["root"]
    jsonschema, validators = _load(root)
    from spec import drafts
    from spec.pyops import PyOps
    d = job["draft"]
    cls = classes(validators)[d]
    meta = json.load(open(root + "/jsonschema/schemas/draft%d.json" % d))
    schema, instance = decode(job["schema"]), decode(job["instance"])
    if not wf(d, schema, drafts, PyOps, meta):
        return {"status": "precondition-false", "why": "schema not accepted by the bundled metaschema (executable spec)"}
    if not patterns_ok(schema):
        return {"status": "precondition-false", "why": "a regular expression does not compile"}
    if job.get("mode") == "errors":
        f = judge_errors(d, cls, schema, instance, validators, drafts, PyOps, meta)
    else:
        f = judge(d, cls, schema, instance, validators, drafts, PyOps, meta)
    if f is None:
        return {"status": "agrees"}
    return {"status": "fails", "failure": f}


def main():
    job = json.load(sys.stdin)
    res = {"search": search, "replay": replay, "search_pairs": search_pairs, "search_nested": search_nested, "search_extras": search_extras, "search_meta": search_meta, "suite_sanity": suite_sanity}[job["cmd"]](job)
    json.dump(res, sys.stdout)


if __name__ == "__main__":
    main()
