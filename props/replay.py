"""bin/replay: re-run a recorded counterexample on the real code of the current tree."""
import json
import sys

from pyvc import driver


def main():
    fn = sys.argv[1]
    root = sys.argv[2] if len(sys.argv) > 2 else None
    with open(fn) as f:
        rp = json.load(f)
    root = root or rp.get("root", "/repo")
    f = rp.get("failure")
    if not f:
        print("no concrete input recorded (obligation %s; solver said %s)" % (rp.get("obligation"), rp.get("solver")))
        sys.exit(2)
    kind = rp.get("kind", "kw")
    if kind == "kw":
        r = driver.rt_call("pyvc.rt_kw", {"cmd": "replay", "root": root, "draft": f["draft"], "schema": f["schema"], "instance": f["instance"],
                                          "mode": f.get("mode", rp.get("mode", "verdict"))}, root)
    elif kind == "hist" and f.get("kind") == "I":
        r = driver.rt_call("pyvc.rt_hist", {"cmd": "interleave", "root": root}, root)
        r = {"status": "fails" if r.get("failures") else "agrees", "failures": r.get("failures")}
    else:
        r = driver.rt_call("pyvc.rt_" + kind, {"cmd": "replay", "root": root, "failure": f}, root)
    print(json.dumps(r, indent=1))
    sys.exit(1 if r.get("status") == "fails" else 0)


if __name__ == "__main__":
    main()
