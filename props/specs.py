"""The property checks: which tasks, which obligations, which assumptions (DESIGN.md section 8)."""
from props.common import Spec
from spec import drafts
from contracts import tasks_keywords, tasks_core

T_Q = 10000      # per-obligation solver budget (ms): quick
T_T = 60000      # thorough


def _tmo(tier):
    return T_T if tier == "thorough" else T_Q


def vocab_table_obligations(repo, tabs, extras_only=False):
    recs = []
    for d in drafts.DRAFTS:
        t = tabs[d]
        if not extras_only:
            for k in drafts.VOCAB[d]:
                ok = k in t.keywords
                recs.append({"name": "validators:Draft%dValidator/T/binds:%s" % (d, k), "kind": "T",
                             "status": "discharged" if ok else "failed", "solver": "tables",
                             "note": "draft %d table binds keyword %s to %s (whose contract is K_%s)" % (d, k, t.keywords.get(k), k),
                             "search": {"draft": d, "keyword": k}})
            ok = set(t.type_checks) == set(drafts.TYPE_NAMES[d])
            recs.append({"name": "validators:Draft%dValidator/T/type-names" % d, "kind": "T",
                         "status": "discharged" if ok else "failed", "solver": "tables",
                         "note": "type checker of draft %d defines exactly %s" % (d, sorted(drafts.TYPE_NAMES[d])),
                         "search": {"draft": d, "keyword": "type"}})
        for k in t.keywords:
            ok = k in drafts.VOCAB[d]
            recs.append({"name": "validators:Draft%dValidator/T/vocabulary-only:%s" % (d, k), "kind": "T",
                         "status": "discharged" if ok else "failed", "solver": "tables",
                         "note": "table entry %s belongs to the vocabulary of draft %d" % (k, d),
                         "search": {"draft": d, "keyword": k}})
    return recs


class C01(Spec):
    pid = "C01"
    level = "proof"
    design_ref = "DESIGN.md section 8 C01"
    trusted = [
        "spec/drafts.py: the keyword semantics K_k transcribed from the four drafts (sanity-checked against the official suite under /repo/json in the thorough tier)",
        "regular expressions: one shared uninterpreted re_search for code and spec (the property restricts patterns to where Python re and ECMA 262 agree)",
        "meta-lemma (paper): keyword contracts + dispatch contract + definition of V by structural recursion give the verdict for all ref-free schemas by induction on size(schema)",
        "for two integers, x/v is an integer iff x mod v == 0 (spec-side reformulation of divisibility)",
    ]
    assumptions = [
        "sub-validations do not raise (ref-free schemas, known type names): verdict obligations are stated for the non-exceptional behaviour; exceptions are C03",
        "multipleOf/divisibleBy with a float operand: verdict claimed on C09's exact sub-domain only",
        "format: no format checker (C12 covers the checker case)",
        "instances and schemas are JSON values (isjson): finite floats, string keys",
    ]
    explanation = "Deductive: every keyword function of every draft table is proved against K_k(d,.) for all inputs, the dispatch loop of iter_errors against the definition of V, is_type/_types against the type predicates; tables are read from the AST."

    def tasks(self, root, tier):
        return (tasks_keywords.keyword_tasks(root, _tmo(tier)) +
                tasks_core.core_tasks(root, 2 * _tmo(tier), which=("iter_errors", "is_valid", "descend", "is_type")))

    def select(self, ob, r):
        return ob["kind"] in ("F", "P", "T")

    def failure_kinds(self):
        return ("F", "S")

    def table_obligations(self, repo, tabs):
        return vocab_table_obligations(repo, tabs)


class C03(Spec):
    pid = "C03"
    level = "proof"
    design_ref = "DESIGN.md section 8 C03"
    trusted = [
        "wf_d(schema) is the bundled metaschema partially evaluated by the spec's V on the symbolic schema (spec/drafts.py), restricted to the keys a keyword function reads",
        "exceptions raised inside sub-validations propagate (no keyword function catches them); they are accounted to the callee's own S obligations",
    ]
    assumptions = [
        "C03's granted input restrictions: every $ref value is a string, every regular expression compiles",
        "termination: proved only as 'every recursive sub-validation is on a strict sub-term of the schema' (ref-free); cyclic $ref and interpreter recursion depth are outside the model (not applicable to this family, see DESIGN.md C03)",
        "RecursionError/MemoryError are outside the model",
    ]
    explanation = "Deductive: every primitive that can raise in a function reachable from iter_errors is shown unreachable under wf_d(schema) and isjson(instance); allowed exits: sub-validation exceptions, UnknownType (draft 3)."

    def tasks(self, root, tier):
        return (tasks_keywords.keyword_tasks(root, _tmo(tier)) +
                tasks_core.core_tasks(root, 2 * _tmo(tier), which=("iter_errors", "is_valid", "descend", "validate", "is_type")))

    def select(self, ob, r):
        return ob["kind"] in ("S", "P")

    def failure_kinds(self):
        return ("S",)


def read_frame_obligations(repo, tabs):
    """R: each keyword function reads of its `schema` argument only the sibling keys the draft lets
    the keyword consult (C05, C10)."""
    from pyvc import frames
    recs = []
    for d in drafts.DRAFTS:
        for k, f in tabs[d].keywords.items():
            unit = repo.units[f]
            params = frames.param_names(unit.node)
            if len(params) < 4:
                recs.append({"name": "%s@draft%d[%s]/R/signature" % (f, d, k), "kind": "R", "status": "failed", "solver": "frames",
                             "note": "keyword function does not take (validator, value, instance, schema)"})
                continue
            keys, problems, callees = frames.schema_reads(repo, f, params[3])
            allowed = set(drafts.siblings(d, k))
            ok = keys <= allowed and not problems
            recs.append({"name": "%s@draft%d[%s]/R/schema-reads" % (f, d, k), "kind": "R",
                         "status": "discharged" if ok else "failed", "solver": "frames",
                         "note": "reads of `schema`: %s (allowed siblings %s)%s" % (sorted(keys), sorted(allowed), "; " + "; ".join(problems) if problems else ""),
                         "search": {"draft": d, "keyword": k, "mode": "siblings", "extra_keys": sorted(keys - allowed)}})
            # other parameters must not be used as the schema: value/instance are data
    return recs


class C09(Spec):
    pid = "C09"
    level = "proof"
    design_ref = "DESIGN.md section 8 C09"
    KW = ("minimum", "maximum", "exclusiveMinimum", "exclusiveMaximum", "multipleOf", "divisibleBy")
    trusted = [
        "floats are the reals they denote, constrained by an uninterpreted isdouble; a/b is axiomatised: exact when the exact quotient is a double, overflow to inf when beyond the double range (z3's FP theory did not decide the needed lemma, DESIGN.md section 12)",
        "int -> float conversion raises OverflowError exactly for |n| >= 2**1024 - 2**970; float % is the exact remainder with the sign of the divisor",
        "fractions.Fraction is exact rational arithmetic",
        "that a power-of-two divisor without underflow lands in the exact sub-domain is an IEEE-754 fact, assumed",
    ]
    assumptions = ["comparisons: exact mathematical order on mixed int/float (CPython compares int and float exactly)",
                   "multipleOf verdict only on the exact sub-domain of the property; absence of exceptions for all finite operands"]
    explanation = "Deductive: the six numeric keyword functions are proved against the mathematical order / divisibility over unbounded integers and axiomatised doubles, with every exception edge (OverflowError, ZeroDivisionError, TypeError) shown unreachable."

    def tasks(self, root, tier):
        return [t for t in tasks_keywords.keyword_tasks(root, _tmo(tier)) if t.k in self.KW]

    def select(self, ob, r):
        return ob["kind"] in ("F", "S", "P")


class C10(Spec):
    pid = "C10"
    level = "proof"
    design_ref = "DESIGN.md section 8 C10"
    trusted = ["meta-lemma (mechanised in the dispatch obligation, stated on paper for nesting): a key outside dom(VALIDATORS) contributes nothing to the structural equation of iter_errors, and no keyword function reads a non-sibling key (R frames), hence inserting such a pair anywhere leaves the errors unchanged",
               "frame analysis is syntactic and conservative (pyvc/frames.py): any use of `schema` it cannot classify is reported"]
    assumptions = ["message texts of oneOf/not mention the sub-schema's repr and therefore do change with added keywords; the property is about the errors' keyword, paths and verdict (DESIGN.md C10)"]
    explanation = "Tables (AST) contain exactly each draft's vocabulary; iter_errors skips keys without a table entry and looks at nothing but $ref when it is present (dispatch proof); keyword functions read only declared sibling keys (read frames); id_of reads `id` in drafts 3/4 and `$id` in drafts 6/7."

    def tasks(self, root, tier):
        return (tasks_core.core_tasks(root, 2 * _tmo(tier), which=("iter_errors",)) +
                [tasks_core.IdOfTask(root, d) for d in drafts.DRAFTS])

    def select(self, ob, r):
        return ob["kind"] in ("F", "R", "S") and (r["task"].startswith("id_of") or ob["kind"] == "F")

    def table_obligations(self, repo, tabs):
        return vocab_table_obligations(repo, tabs, extras_only=True) + read_frame_obligations(repo, tabs)


class C08(Spec):
    pid = "C08"
    level = "proof"
    design_ref = "DESIGN.md section 8 C08"
    KW = ("enum", "const", "uniqueItems")
    trusted = [
        "spec: jeq (JSON equality) axiomatised structurally in pyvc/smt.py and executable in spec/pyops.py (py_jeq)",
        "ASSUMED contract of the built-in set: with hashable elements, len(set(xs)) == len(xs) iff no two elements are ==-equal; adding an unhashable element (list, dict) raises TypeError",
        "equal's recursion terminates: each recursive call is on strictly smaller operands (measure size(one)+size(two), obligation `equal.decreases`)",
    ]
    assumptions = ["operands are JSON values (finite floats, no NaN)",
                   "the triple agreement const c / enum [c] / uniqueItems [c, x] is the corollary of the three keyword contracts being stated over the one relation jeq"]
    explanation = "equal is proved equivalent to JSON equality by structural induction (its recursive calls use its own contract); uniq is proved on both of its paths (hash path modulo the assumed set contract, pairwise path with the loop invariant seen == container[:k] and pairwise-distinct prefix); enum, const, uniqueItems are proved against K_enum/K_const/K_uniqueItems stated over jeq."

    def tasks(self, root, tier):
        from contracts import tasks_utils
        return ([t for t in tasks_keywords.keyword_tasks(root, _tmo(tier)) if t.k in self.KW] +
                tasks_utils.util_tasks(root, _tmo(tier)))

    def select(self, ob, r):
        return ob["kind"] in ("F", "S", "P", "L")

    def standins(self, root, tier):
        from pyvc import driver
        out = []
        for which, maxlen in (("equal", 2), ("uniq", 4 if tier == "thorough" else 3)):
            r = driver.rt_call("pyvc.rt_eq", {"cmd": "search", "root": root, "which": which, "maxlen": maxlen}, root, timeout=3000)
            out.append({"name": "_utils.%s" % which, "scope": "all %s over a %d-value alphabet%s" % ("pairs" if which == "equal" else "arrays of length <= %d" % maxlen, r["alphabet"], ""),
                        "cases": r["tried"], "failures": r["failures"], "replay_kind": "eq", "label": "bounded (cross-check of the proof on the real code; not counted as proof)"})
        return out


SPECS = {"C01": C01, "C03": C03, "C08": C08, "C09": C09, "C10": C10}
