"""The property checks: which tasks, which obligations, which assumptions (DESIGN.md section 8)."""
from props.common import Spec
from spec import drafts
from contracts import tasks_keywords, tasks_core

T_Q = 10000      # per-obligation solver budget (ms): quick
T_T = 60000      # thorough


def _tmo(tier):
    return T_T if tier == "thorough" else T_Q


def vocab_table_obligations(repo, tabs, extras_only=False):
    recs = []
    for d in drafts.DRAFTS:
        t = tabs[d]
        if not extras_only:
            for k in drafts.VOCAB[d]:
                ok = k in t.keywords
                recs.append({"name": "validators:Draft%dValidator/T/binds:%s" % (d, k), "kind": "T",
                             "status": "discharged" if ok else "failed", "solver": "tables",
                             "note": "draft %d table binds keyword %s to %s (whose contract is K_%s)" % (d, k, t.keywords.get(k), k),
                             "search": {"draft": d, "keyword": k}})
            ok = set(t.type_checks) == set(drafts.TYPE_NAMES[d])
            recs.append({"name": "validators:Draft%dValidator/T/type-names" % d, "kind": "T",
                         "status": "discharged" if ok else "failed", "solver": "tables",
                         "note": "type checker of draft %d defines exactly %s" % (d, sorted(drafts.TYPE_NAMES[d])),
                         "search": {"draft": d, "keyword": "type"}})
        for k in t.keywords:
            ok = k in drafts.VOCAB[d]
            recs.append({"name": "validators:Draft%dValidator/T/vocabulary-only:%s" % (d, k), "kind": "T",
                         "status": "discharged" if ok else "failed", "solver": "tables",
                         "note": "table entry %s belongs to the vocabulary of draft %d" % (k, d),
                         "search": {"draft": d, "keyword": k}})
    return recs


class C01(Spec):
    pid = "C01"
    level = "proof"
    design_ref = "DESIGN.md section 8 C01"
    trusted = [
        "spec/drafts.py: the keyword semantics K_k transcribed from the four drafts (sanity-checked against the official suite under /repo/json in the thorough tier)",
        "regular expressions: one shared uninterpreted re_search for code and spec (the property restricts patterns to where Python re and ECMA 262 agree)",
        "meta-lemma (paper): keyword contracts + dispatch contract + definition of V by structural recursion give the verdict for all ref-free schemas by induction on size(schema)",
        "for two integers, x/v is an integer iff x mod v == 0 (spec-side reformulation of divisibility)",
    ]
    assumptions = [
        "sub-validations do not raise (ref-free schemas, known type names): verdict obligations are stated for the non-exceptional behaviour; exceptions are C03",
        "multipleOf/divisibleBy with a float operand: verdict claimed on C09's exact sub-domain only",
        "format: no format checker (C12 covers the checker case)",
        "instances and schemas are JSON values (isjson): finite floats, string keys",
    ]
    explanation = "Deductive: every keyword function of every draft table is proved against K_k(d,.) for all inputs, the dispatch loop of iter_errors against the definition of V, is_type/_types against the type predicates; tables are read from the AST."

    def tasks(self, root, tier):
        return (tasks_keywords.keyword_tasks(root, _tmo(tier)) +
                tasks_core.core_tasks(root, 2 * _tmo(tier), which=("iter_errors", "is_valid", "descend", "is_type")))

    def select(self, ob, r):
        return ob["kind"] in ("F", "P", "T")

    def failure_kinds(self):
        return ("F", "S")

    def table_obligations(self, repo, tabs):
        return vocab_table_obligations(repo, tabs)


class C03(Spec):
    pid = "C03"
    level = "proof"
    design_ref = "DESIGN.md section 8 C03"
    trusted = [
        "wf_d(schema) is the bundled metaschema partially evaluated by the spec's V on the symbolic schema (spec/drafts.py), restricted to the keys a keyword function reads",
        "exceptions raised inside sub-validations propagate (no keyword function catches them); they are accounted to the callee's own S obligations",
    ]
    assumptions = [
        "C03's granted input restrictions: every $ref value is a string, every regular expression compiles",
        "termination: proved only as 'every recursive sub-validation is on a strict sub-term of the schema' (ref-free); cyclic $ref and interpreter recursion depth are outside the model (not applicable to this family, see DESIGN.md C03)",
        "RecursionError/MemoryError are outside the model",
    ]
    explanation = "Deductive: every primitive that can raise in a function reachable from iter_errors is shown unreachable under wf_d(schema) and isjson(instance); allowed exits: sub-validation exceptions, UnknownType (draft 3)."

    def tasks(self, root, tier):
        return (tasks_keywords.keyword_tasks(root, _tmo(tier)) +
                tasks_core.core_tasks(root, 2 * _tmo(tier), which=("iter_errors", "is_valid", "descend", "validate", "is_type")))

    def select(self, ob, r):
        return ob["kind"] in ("S", "P")

    def failure_kinds(self):
        return ("S",)


SPECS = {"C01": C01, "C03": C03}
