"""The property checks: which tasks, which obligations, which assumptions (DESIGN.md section 8)."""
from props.common import Spec
from spec import drafts
from contracts import tasks_keywords, tasks_core, tasks_errors

T_Q = 10000      # per-obligation solver budget (ms): quick
T_T = 60000      # thorough


def _tmo(tier):
    return T_T if tier == "thorough" else T_Q


def _carriers():
    from contracts import tasks_utils, tasks_resolver, tasks_registry, tasks_entry, tasks_format
    return {
        "err_set": lambda root, tier: [tasks_core.CoreTask(root, 7, "err_set", _tmo(tier))],
        "scopes": lambda root, tier: tasks_resolver.resolver_tasks(root, 2 * _tmo(tier), which=("scopes",)),
        "utils": lambda root, tier: tasks_utils.util_tasks(root, _tmo(tier)),
        "is_type": lambda root, tier: tasks_core.core_tasks(root, _tmo(tier), which=("is_type",)),
        "is_valid": lambda root, tier: tasks_core.core_tasks(root, _tmo(tier), which=("is_valid",)),
        "descend": lambda root, tier: tasks_core.core_tasks(root, 2 * _tmo(tier), which=("descend",)),
        "validator_for": lambda root, tier: [t for t in tasks_registry.registry_tasks(root, _tmo(tier)) if t.which == "validator_for"],
        "best_match": lambda root, tier: [t for t in tasks_entry.entry_tasks(root, _tmo(tier)) if t.which == "best_match"],
        "resolve_remote": lambda root, tier: tasks_resolver.resolver_tasks(root, 2 * _tmo(tier), which=("resolve_remote",)),
        "resolve_fragment": lambda root, tier: tasks_resolver.resolver_tasks(root, 2 * _tmo(tier), which=("resolve_fragment",)),
        "resolve": lambda root, tier: tasks_resolver.resolver_tasks(root, 2 * _tmo(tier), which=("resolve",)),
        "format_keyword": lambda root, tier: [t for t in tasks_format.format_tasks(root, _tmo(tier)) if t.which == "keyword"],
        "xpaths": lambda root, tier: tasks_core.core_tasks(root, _tmo(tier), which=("iter_errors_x", "ref_x")) + [tasks_core.CoreTask(root, 7, "scope_cm_x", _tmo(tier))],
    }


class _Lazy(dict):
    def __missing__(self, k):
        self.update(_carriers())
        return dict.__getitem__(self, k)


CARRIERS = _Lazy()


def vocab_table_obligations(repo, tabs, extras_only=False):
    recs = []
    for d in drafts.DRAFTS:
        t = tabs[d]
        if not extras_only:
            for k in drafts.VOCAB[d]:
                ok = k in t.keywords
                recs.append({"name": "validators:Draft%dValidator/T/binds:%s" % (d, k), "kind": "T",
                             "status": "discharged" if ok else "failed", "solver": "tables",
                             "note": "draft %d table binds keyword %s to %s (whose contract is K_%s)" % (d, k, t.keywords.get(k), k),
                             "search": {"draft": d, "keyword": k}})
            ok = set(t.type_checks) == set(drafts.TYPE_NAMES[d])
            recs.append({"name": "validators:Draft%dValidator/T/type-names" % d, "kind": "T",
                         "status": "discharged" if ok else "failed", "solver": "tables",
                         "note": "type checker of draft %d defines exactly %s" % (d, sorted(drafts.TYPE_NAMES[d])),
                         "search": {"draft": d, "keyword": "type"}})
        for k in t.keywords:
            ok = k in drafts.VOCAB[d]
            recs.append({"name": "validators:Draft%dValidator/T/vocabulary-only:%s" % (d, k), "kind": "T",
                         "status": "discharged" if ok else "failed", "solver": "tables",
                         "note": "table entry %s belongs to the vocabulary of draft %d" % (k, d),
                         "search": {"draft": d, "keyword": k}})
    return recs


class C01(Spec):
    pid = "C01"
    carry = ('err_set', 'scopes', 'utils', 'format_keyword')
    level = "proof"
    design_ref = "DESIGN.md section 8 C01"
    trusted = [
        "spec/drafts.py: the keyword semantics K_k transcribed from the four drafts (sanity-checked against the official suite under /repo/json in the thorough tier)",
        "regular expressions: one shared uninterpreted re_search for code and spec (the property restricts patterns to where Python re and ECMA 262 agree)",
        "meta-lemma (paper): keyword contracts + dispatch contract + definition of V by structural recursion give the verdict for all ref-free schemas by induction on size(schema)",
        "for two integers, x/v is an integer iff x mod v == 0 (spec-side reformulation of divisibility)",
    ]
    assumptions = [
        "sub-validations do not raise (ref-free schemas, known type names): verdict obligations are stated for the non-exceptional behaviour; exceptions are C03",
        "multipleOf/divisibleBy with a float operand: verdict claimed on C09's exact sub-domain only",
        "format: no format checker (C12 covers the checker case)",
        "instances and schemas are JSON values (isjson): finite floats, string keys",
    ]
    explanation = "Deductive: every keyword function of every draft table is proved against K_k(d,.) for all inputs, the dispatch loop of iter_errors against the definition of V, is_type/_types against the type predicates; tables are read from the AST."

    def tasks(self, root, tier):
        return (tasks_keywords.keyword_tasks(root, _tmo(tier)) +
                tasks_core.core_tasks(root, 2 * _tmo(tier), which=("iter_errors", "is_valid", "descend", "is_type")))

    def select(self, ob, r):
        return ob["kind"] in ("F", "P", "T") and "/F/structure" not in ob["name"]      # structure is C05 / C06

    def failure_kinds(self):
        return ("F", "S")

    def table_obligations(self, repo, tabs):
        return vocab_table_obligations(repo, tabs)

    def standins(self, root, tier):
        from pyvc import driver
        r = driver.rt_call("pyvc.rt_kw", {"cmd": "suite_sanity", "root": root}, root, timeout=3000)
        return [{"name": "spec-vs-official-suite", "scope": "the executable spec (spec/drafts.py, PyOps) on every reference-free, format-free case of the JSON-Schema-Test-Suite under /repo/json for drafts 3, 4, 6, 7 (%d skipped: $ref / format); checks OUR transcription of the drafts" % r["skipped"],
                 "cases": r["tried"], "failures": r["failures"], "replay_kind": "kw", "label": "sanity of the specification layer (not about the code; not counted as proof)"}]


class C03(Spec):
    pid = "C03"
    carry = ('err_set', 'scopes', 'resolve_remote', 'validator_for')
    level = "proof"
    design_ref = "DESIGN.md section 8 C03"
    trusted = [
        "wf_d(schema) is the bundled metaschema partially evaluated by the spec's V on the symbolic schema (spec/drafts.py), restricted to the keys a keyword function reads",
        "exceptions raised inside sub-validations propagate (no keyword function catches them); they are accounted to the callee's own S obligations",
    ]
    assumptions = [
        "C03's granted input restrictions: every $ref value is a string, every regular expression compiles",
        "termination: proved only as 'every recursive sub-validation is on a strict sub-term of the schema' (ref-free); cyclic $ref and interpreter recursion depth are outside the model (not applicable to this family, see DESIGN.md C03)",
        "RecursionError/MemoryError are outside the model",
    ]
    explanation = "Deductive: every primitive that can raise in a function reachable from iter_errors is shown unreachable under wf_d(schema) and isjson(instance); allowed exits: sub-validation exceptions, UnknownType (draft 3)."

    def tasks(self, root, tier):
        from contracts import tasks_resolver
        return (tasks_keywords.keyword_tasks(root, _tmo(tier)) +
                tasks_core.core_tasks(root, 2 * _tmo(tier), which=("iter_errors", "is_valid", "descend", "validate", "is_type")) +
                tasks_resolver.resolver_tasks(root, 2 * _tmo(tier), which=("resolve_fragment", "resolve_from_url", "resolve", "ref_keyword")) +
                __import__("contracts.tasks_utils", fromlist=["x"]).util_tasks(root, _tmo(tier)) +      # equal / uniq behind enum, const, uniqueItems
                tasks_core.core_tasks(root, _tmo(tier), which=("iter_errors_x", "ref_x")) + [tasks_core.CoreTask(root, 7, "scope_cm_x", _tmo(tier))] +      # an unbalanced scope stack raises (IndexError / a bogus RefResolutionError) in a later call
                [t for t in __import__("contracts.tasks_entry", fromlist=["x"]).entry_tasks(root, _tmo(tier)) if t.which in ("relevance", "best_match", "module_validate")])

    def select(self, ob, r):
        if r["task"].startswith("validators:RefResolver.") and "/F/error" in ob["name"]:
            return True       # "only RefResolutionError escapes"
        if r["task"].startswith("entry:relevance"):
            return True
        return ob["kind"] in ("S", "P", "X")

    def failure_kinds(self):
        return ("S", "H", "X")

    def standins(self, root, tier):
        from pyvc import driver
        r = driver.rt_call("pyvc.rt_entry", {"cmd": "search", "root": root, "crashes": True}, root, timeout=3000)
        return [{"name": "entry-point-crash-sweep", "scope": "is_valid / iter_errors / validate / jsonschema.validate, with and without format checker, over 12 keywords x half of the value pool x a third of the instance pool x 4 drafts plus nested anyOf/oneOf/false-schema cases: any exception other than ValidationError, SchemaError, RefResolutionError, UnknownType",
                 "cases": r["tried"], "failures": r["failures"], "replay_kind": "entry", "label": "bounded (not counted as proof)"}]


def read_frame_obligations(repo, tabs):
    """R: each keyword function reads of its `schema` argument only the sibling keys the draft lets
    the keyword consult (C05, C10)."""
    from pyvc import frames
    recs = []
    for d in drafts.DRAFTS:
        for k, f in tabs[d].keywords.items():
            unit = repo.units[f]
            params = frames.param_names(unit.node)
            if len(params) < 4:
                recs.append({"name": "%s@draft%d[%s]/R/signature" % (f, d, k), "kind": "R", "status": "failed", "solver": "frames",
                             "note": "keyword function does not take (validator, value, instance, schema)"})
                continue
            keys, problems, callees = frames.schema_reads(repo, f, params[3])
            allowed = set(drafts.siblings(d, k))
            ok = keys <= allowed and not problems
            recs.append({"name": "%s@draft%d[%s]/R/schema-reads" % (f, d, k), "kind": "R",
                         "status": "discharged" if ok else "failed", "solver": "frames",
                         "note": "reads of `schema`: %s (allowed siblings %s)%s" % (sorted(keys), sorted(allowed), "; " + "; ".join(problems) if problems else ""),
                         "search": {"draft": d, "keyword": k, "extra_siblings": sorted(keys - allowed)}})
            # other parameters must not be used as the schema: value/instance are data
    return recs


class C09(Spec):
    pid = "C09"
    level = "proof"
    design_ref = "DESIGN.md section 8 C09"
    KW = ("minimum", "maximum", "exclusiveMinimum", "exclusiveMaximum", "multipleOf", "divisibleBy")
    trusted = [
        "floats are the reals they denote, constrained by an uninterpreted isdouble; a/b is axiomatised: exact when the exact quotient is a double, overflow to inf when beyond the double range (z3's FP theory did not decide the needed lemma, DESIGN.md section 12)",
        "int -> float conversion raises OverflowError exactly for |n| >= 2**1024 - 2**970; float % is the exact remainder with the sign of the divisor",
        "fractions.Fraction is exact rational arithmetic",
        "that a power-of-two divisor without underflow lands in the exact sub-domain is an IEEE-754 fact, assumed",
    ]
    assumptions = ["comparisons: exact mathematical order on mixed int/float (CPython compares int and float exactly)",
                   "multipleOf verdict only on the exact sub-domain of the property; absence of exceptions for all finite operands"]
    explanation = "Deductive: the six numeric keyword functions are proved against the mathematical order / divisibility over unbounded integers and axiomatised doubles, with every exception edge (OverflowError, ZeroDivisionError, TypeError) shown unreachable."

    def tasks(self, root, tier):
        # every numeric keyword first asks is_type(instance, "number"): its contract (proved through the real _types functions) is part of the chain
        return [t for t in tasks_keywords.keyword_tasks(root, _tmo(tier)) if t.k in self.KW] + tasks_core.core_tasks(root, _tmo(tier), which=("is_type",))

    def select(self, ob, r):
        return ob["kind"] in ("F", "S", "P")


class C10(Spec):
    pid = "C10"
    carry = ('err_set', 'scopes', 'resolve_fragment', 'resolve_remote')
    level = "proof"
    design_ref = "DESIGN.md section 8 C10"
    trusted = ["meta-lemma (mechanised in the dispatch obligation, stated on paper for nesting): a key outside dom(VALIDATORS) contributes nothing to the structural equation of iter_errors, and no keyword function reads a non-sibling key (R frames), hence inserting such a pair anywhere leaves the errors unchanged",
               "frame analysis is syntactic and conservative (pyvc/frames.py): any use of `schema` it cannot classify is reported"]
    assumptions = ["message texts of oneOf/not mention the sub-schema's repr and therefore do change with added keywords; the property is about the errors' keyword, paths and verdict (DESIGN.md C10)"]
    explanation = "Tables (AST) contain exactly each draft's vocabulary; iter_errors skips keys without a table entry and looks at nothing but $ref when it is present (dispatch proof); keyword functions read only declared sibling keys (read frames); id_of reads `id` in drafts 3/4 and `$id` in drafts 6/7."

    def tasks(self, root, tier):
        from contracts import tasks_resolver
        return (tasks_core.core_tasks(root, 2 * _tmo(tier), which=("iter_errors",)) +
                [tasks_core.IdOfTask(root, d) for d in drafts.DRAFTS] +
                tasks_resolver.resolver_tasks(root, 2 * _tmo(tier), which=("resolve_from_url",)))

    def select(self, ob, r):
        if r["task"].startswith("validators:RefResolver."):
            return True      # a reference target is found by document URL in the store or retrieved: no search for embedded `id` / `$id`
        return ob["kind"] in ("F", "R", "S") and (r["task"].startswith("id_of") or ob["kind"] == "F")

    def table_obligations(self, repo, tabs):
        # the base URI of a document is what the class's own id_of says (RefResolver.from_schema; Validator.__init__ hands it the class's id_of: C16)
        base = [r for r in resolver_table_obligations(repo) if "from_schema" in r["name"]]
        for r in base:
            r["rt_search"] = [("pyvc.rt_kw", {"cmd": "search_extras"}, "kw")]
        return vocab_table_obligations(repo, tabs, extras_only=True) + read_frame_obligations(repo, tabs) + base

    def failure_kinds(self):
        return ("F", "S", "X")

    def standins(self, root, tier):
        from pyvc import driver
        r = driver.rt_call("pyvc.rt_kw", {"cmd": "search_extras", "root": root}, root, timeout=3000)
        return [{"name": "inserted-keywords", "scope": "6 base schemas x (annotations, made-up names, the other draft's id spelling, every keyword only other drafts define) x 13 values, inserted at top level and inside the first subschema, 2 instances each; 4-5 sibling sets next to $ref '' / '#' / '#/definitions/t' on 3 recursive instances; identifier-looking objects inside default / examples / unknown keywords / enum next to an unretrievable $ref; x 4 drafts; (keyword, path, schema path) triples compared",
                 "cases": r["tried"], "failures": r["failures"], "replay_kind": "kw", "label": "bounded (not counted as proof)"}]


def write_frame_obligations(repo, tabs, roots, allowed, label):
    """W: every mutation site in the functions reachable from `roots` has a receiver that is fresh in
    the function, or is one of the explicitly allowed (unit, receiver) pairs."""
    from pyvc import frames
    kwfuncs = sorted({f for d in drafts.DRAFTS for f in tabs[d].keywords.values()} | {tabs[d].id_of for d in drafts.DRAFTS})
    edges = {"validators:create.Validator.iter_errors": kwfuncs,
             # established by RefResolver.__init__: _remote_cache wraps resolve_from_url, _urljoin_cache wraps urljoin
             "validators:RefResolver.resolve": ["validators:RefResolver.resolve_from_url"]}
    reach = frames.reachable(repo, roots, edges)
    recs = []
    for key in sorted(reach):
        for w in frames.writes_of(repo, key):
            bare_local = w.receiver.isidentifier() and w.receiver != "self"
            ok = w.cls == "fresh" or any(key == u and (w.receiver == r or r == "*" or (r == "<local>" and bare_local)) for u, r in allowed)
            if key.endswith(".__init__") and w.cls == "self":
                ok = True       # the object under construction is fresh for its constructor
            recs.append({"name": "%s/W/%s:%s@%d" % (key, w.what, w.receiver, w.line), "kind": "W",
                         "status": "discharged" if ok else "failed", "solver": "frames",
                         "note": "%s: write to %s receiver %s (%s)" % (label, w.cls, w.receiver, w.what)})
            if not ok and label == "validation":
                # state kept across sub-validations or calls: look for an input on the real code (references, histories)
                recs[-1]["rt_search"] = [("pyvc.rt_ref", {"cmd": "search"}, "ref"),
                                         ("pyvc.rt_hist", {"cmd": "search", "maxlen": 2, "configs": [[True, "default"], [False, "default"]]}, "hist")]
    recs.append({"name": "frames/W/reachable", "kind": "W", "status": "discharged" if len(reach) >= 40 else "failed", "solver": "frames",
                 "note": "%d functions reachable from %s analysed" % (len(reach), roots)})
    return recs, reach


VALIDATION_ROOTS = ["validators:create.Validator.iter_errors", "validators:create.Validator.is_valid",
                    "validators:create.Validator.validate", "validators:create.Validator.descend",
                    "validators:create.Validator.is_type"]
# receivers that validation may mutate: errors it owns, the resolver's scope stack and (under
# cache_remote) store; `_set` assigns fields of the error it is called on
VALIDATION_WRITES = [
    ("validators:create.Validator.iter_errors", "error.schema_path"), ("validators:create.Validator.descend", "error.path"),
    ("validators:create.Validator.descend", "error.schema_path"), ("exceptions:_Error._set", "self"),
    ("validators:RefResolver.push_scope", "self._scopes_stack"), ("validators:RefResolver.pop_scope", "self._scopes_stack"),
    ("validators:RefResolver.resolve_remote", "self.store.[]"), ("_utils:URIDict.__setitem__", "self.store.[]"),
    # pyrsistent.pmap.update / .remove are persistent operations returning a new map (assumed contract, DESIGN.md section 5)
    ("_types:TypeChecker.redefine_many", "self._type_checkers"), ("_types:TypeChecker.remove", "<local>"),      # a local holding a persistent map (proved functional in contracts/tasks_types.py)
]


class C05(Spec):
    pid = "C05"
    carry = ('err_set', 'scopes', 'utils', 'is_type', 'is_valid', 'descend', 'resolve')
    oos_structure = True
    level = "proof"
    design_ref = "DESIGN.md section 8 C05"
    trusted = [
        "contracts/structure.py: the expected result structure of each keyword function (one error per violation; comprehension over descend) taken from the property and Appendix A",
        "meta-lemma (paper): structural equation of iter_errors + read frames + write frames => the errors of a schema object are the union over its keywords of the errors of the keyword alone with its siblings",
        "iteration over a set (additionalProperties) has unspecified order: results compared as multisets there",
    ]
    assumptions = ["messages are compared only up to the formatter being a function of its arguments (text dropped by the extraction)",
                   "sub-validations do not raise (exceptions are C03)"]
    explanation = "Each keyword function's result sequence is proved equal to its expected comprehension (yield sites, loop ranges, guards, arguments of descend), the dispatch loop to the concatenation over the schema's members; read frames show no keyword consults a non-sibling key, write frames that no keyword function writes anything but the errors and lists it created."

    def tasks(self, root, tier):
        # not / if / contains / oneOf / disallow consult sub-validations through is_valid(), which abandons the generator at
        # the first error: the exit-path obligations keep the resolver state of the sibling keywords intact
        return (tasks_keywords.keyword_tasks(root, _tmo(tier)) +
                tasks_core.core_tasks(root, 2 * _tmo(tier), which=("iter_errors",)) + tasks_core.core_tasks(root, _tmo(tier), which=("iter_errors_x", "ref_x")) + [tasks_core.CoreTask(root, 7, "scope_cm_x", _tmo(tier))])

    def select(self, ob, r):
        return "/F/structure" in ob["name"] or ob["kind"] in ("P", "X")

    def failure_kinds(self):
        return ("F", "X", "H")

    def table_obligations(self, repo, tabs):
        w, _ = write_frame_obligations(repo, tabs, VALIDATION_ROOTS, VALIDATION_WRITES, "validation")
        return read_frame_obligations(repo, tabs) + w


class C06(Spec):
    pid = "C06"
    carry = ('scopes', 'utils', 'is_type', 'is_valid')
    oos_structure = True
    level = "proof"
    design_ref = "DESIGN.md section 8 C06"
    trusted = [
        "contracts/structure.py: expected path / schema_path element for every descend call of every applicator (taken from the property: the index or key of the element descended into)",
        "meta-lemma (paper): Loc(e, I, S) for all errors by induction over the schema from: keyword structure (path elements), descend (prepends exactly what it is given), iter_errors (_set fills unset fields only, prepends the keyword except for `if`/`$ref`), _Error.__init__ (parent links)",
        "collections.deque: appendleft/extend/extendleft(reversed(q)) == q ++ self (assumed contract)",
    ]
    assumptions = ["absolute_path / absolute_schema_path are proved to be parent's absolute path ++ own relative path, json_path to be the rendering of the absolute path (integers as [i], names as .name) under the precondition that path elements are ints or strs; that `parent` is the error whose context holds the error is checked by the bounded stand-in only",
                   "documented exceptions of the property (draft-3 required, propertyNames, false schema) are written into the expected structures"]
    explanation = "Every applicator's descend call is proved to carry the instance index/key and schema index/key of the element it descends into; descend prepends exactly those; iter_errors fills keyword/value/instance/schema only where unset and prepends the keyword; _set is proved to assign unset fields only."

    def tasks(self, root, tier):
        return (tasks_keywords.keyword_tasks(root, _tmo(tier)) +
                tasks_core.core_tasks(root, 2 * _tmo(tier), which=("iter_errors", "descend")) +
                [tasks_core.CoreTask(root, 7, "err_set", _tmo(tier))] + tasks_errors.error_path_tasks(root, _tmo(tier)))

    def select(self, ob, r):
        return "/F/structure" in ob["name"] or "err_set" in r["task"] or r["task"].startswith("errors:") or (ob["kind"] == "P" and "descend" in ob["name"])

    def failure_kinds(self):
        return ("F",)

    def standins(self, root, tier):
        from pyvc import driver
        out = []
        kws = ["items", "properties", "anyOf", "additionalItems", "dependencies", "patternProperties", "oneOf", "allOf", "if", "propertyNames", "type"]
        fails, tried = [], 0
        for d in drafts.DRAFTS:
            for k in kws:
                if k not in drafts.VOCAB[d]:
                    continue
                r = driver.rt_call("pyvc.rt_kw", {"cmd": "search", "mode": "errors", "root": root, "draft": d, "keyword": k, "limit": 1}, root, timeout=3000)
                tried += r["tried"]
                fails += r["failures"]
        r = driver.rt_call("pyvc.rt_kw", {"cmd": "search_nested", "root": root, "limit": 1}, root, timeout=600)
        out.append({"name": "Loc-on-nested-errors", "scope": "5 inner schemas x 5-6 wrappers of depth 3-5 with pairwise distinct path elements x 4 drafts: error multiset, absolute paths, parent links, json_path",
                    "cases": r["tried"], "failures": r["failures"], "replay_kind": "kw", "label": "bounded (not counted as proof)"})
        out.append({"name": "Loc-on-real-errors", "scope": "directed pools (about %d value x sibling x instance cases per keyword) x %d keywords x 4 drafts; every error incl. context: absolute paths, parent links, json_path, navigation" % (60 * 50, len(kws)),
                    "cases": tried, "failures": fails, "replay_kind": "kw", "label": "bounded (not counted as proof)"})
        return out


def generator_discipline_obligations(repo, tabs, reach):
    from pyvc import frames
    gens = [k for k in reach if repo.units[k].is_generator] + [k for k in repo.units if k.startswith("validators:create.Validator.") and repo.units[k].is_generator]
    gens = sorted(set(gens) | {"validators:create.Validator.iter_errors", "validators:create.Validator.descend"})
    recs = []
    for key in sorted(set(reach) | {"validators:validate", "validators:create.Validator.check_schema"}):
        if key not in repo.units:
            continue
        probs = frames.generator_discipline(repo, key, gens)
        recs.append({"name": "%s/G/generator-discipline" % key, "kind": "W", "status": "discharged" if not probs else "failed", "solver": "frames",
                     "note": "generators are consumed where they are created; none is held in a local across a raise" + ("; ".join([""] + probs))})
    return recs


OWNED = {"validators:RefResolver.__init__": {"_scopes_stack": "fresh", "store": "fresh", "handlers": "fresh",
                                              "_urljoin_cache": "local:urljoin_cache", "_remote_cache": "local:remote_cache",
                                              "referrer": "param:referrer", "cache_remote": "param:cache_remote"}}


def ownership_obligations(repo):
    """C18 / C07: the state a resolver mutates during validation is allocated by its own constructor"""
    from pyvc import frames
    import ast as _ast
    recs = []
    for key, want in OWNED.items():
        got = {a: (c, ln) for a, v, c, ln in frames.init_assignments(repo, key)}
        for attr, cls in want.items():
            have = got.get(attr, ("missing", 0))[0]
            ok = have == cls or (cls.startswith("local:") and have in (cls, "param:" + cls.split(":")[1]))
            recs.append({"name": "%s/O/%s" % (key, attr), "kind": "W", "status": "discharged" if ok else "failed", "solver": "frames",
                         "note": "self.%s is assigned from %s (expected %s)" % (attr, have, cls)})
        for attr, (c, ln) in got.items():
            if attr not in want:
                ok = c == "fresh" or c.startswith("param:")
                recs.append({"name": "%s/O/%s" % (key, attr), "kind": "W", "status": "discharged" if ok else "failed", "solver": "frames",
                             "note": "self.%s (not in the side-car list) is assigned from %s" % (attr, c)})
        # caller-supplied caches default to fresh per-instance wrappers
        fn = repo.units[key].node
        for cache in ("urljoin_cache", "remote_cache"):
            ok = False
            for n in _ast.walk(fn):
                if isinstance(n, _ast.If) and isinstance(n.test, _ast.Compare) and isinstance(n.test.left, _ast.Name) and n.test.left.id == cache \
                        and isinstance(n.test.ops[0], _ast.Is) and len(n.body) == 1 and isinstance(n.body[0], _ast.Assign) \
                        and frames._is_wrapping_call(n.body[0].value):
                    ok = True
            recs.append({"name": "%s/O/default-%s" % (key, cache), "kind": "W", "status": "discharged" if ok else "failed", "solver": "frames",
                         "note": "%s defaults to a new lru_cache wrapper created in the constructor" % cache})
    # Validator.__init__: without an explicit resolver a new one is constructed
    vk = "validators:create.Validator.__init__"
    fn = repo.units[vk].node
    ok = False
    for n in _ast.walk(fn):
        if isinstance(n, _ast.If) and isinstance(n.test, _ast.Compare) and isinstance(n.test.left, _ast.Name) and n.test.left.id == "resolver" \
                and isinstance(n.test.ops[0], _ast.Is):
            for b in n.body:
                if isinstance(b, _ast.Assign) and isinstance(b.value, _ast.Call) and isinstance(b.value.func, _ast.Attribute) \
                        and b.value.func.attr == "from_schema" and isinstance(b.value.func.value, _ast.Name) and b.value.func.value.id == "RefResolver":
                    ok = True
    recs.append({"name": "%s/O/own-resolver" % vk, "kind": "W", "status": "discharged" if ok else "failed", "solver": "frames",
                 "note": "a validator constructed without a resolver gets RefResolver.from_schema(...): a new object"})
    fk = "validators:RefResolver.from_schema"
    fn = repo.units[fk].node
    ok = any(isinstance(n, _ast.Return) and isinstance(n.value, _ast.Call) and isinstance(n.value.func, _ast.Name) and n.value.func.id == "cls"
             for n in _ast.walk(fn))
    recs.append({"name": "%s/O/constructs" % fk, "kind": "W", "status": "discharged" if ok else "failed", "solver": "frames",
                 "note": "from_schema returns cls(...): a newly constructed resolver"})
    return recs


HIST_QUICK = {"maxlen": 3, "sample": 60, "limit": 3, "configs": [[True, "default"]]}
HIST_THOROUGH = {"maxlen": 3, "sample": 600, "limit": 3, "configs": [[True, "default"], [False, "default"], [True, "passthrough"]]}


def history_standin(root, tier, seed=None, configs=None):
    from pyvc import driver
    import os
    if seed is None:
        seed = int(os.environ.get("VERIF_SEED", "0") or 0)      # the sampled histories of length 3
    job = dict(HIST_THOROUGH if tier == "thorough" else HIST_QUICK, cmd="search", root=root, seed=seed)
    if configs:
        job["configs"] = configs
    r = driver.rt_call("pyvc.rt_hist", job, root, timeout=3000)
    return {"name": "histories-vs-fresh-validator", "scope": "operation histories of length <= 2 exhaustively and %d sampled of length 3 over 9 operations x 3 template schemas (nested ids, remote refs through a handler, abandoned generators under ids) x 4 drafts x configs %s" % (job["sample"], job["configs"]),
            "cases": r["tried"], "failures": r["failures"], "replay_kind": "hist", "label": "bounded (not counted as proof)"}


class C07(Spec):
    pid = "C07"
    carry = ('err_set', 'descend', 'resolve_fragment')
    level = "proof"
    design_ref = "DESIGN.md section 8 C07"
    trusted = [
        "meta-lemma (paper): generators that are locally balanced on every exit (normal, exception, GeneratorExit) and are finalised promptly (CPython reference counting; generator-discipline obligation) leave the scope stack as it was whenever no iterator of the validator is suspended; pops are anonymous, so finalisation order does not matter",
        "functools.lru_cache: a call that raises stores nothing (assumed contract)",
        "frame analysis is syntactic and conservative (pyvc/frames.py)",
    ]
    assumptions = ["re-entering a validator while one of its own iterators is suspended is not claimed (property text)",
                   "coherence of the resolver's caches with its store across histories: from the contracts of resolve_remote / resolve_from_url / resolve (C15) by the paper invariant argument (the store only grows, a failed retrieval stores nothing and is not remembered by lru_cache)"]
    explanation = "Exit-path obligations: on every exit of iter_errors, of the $ref keyword function and of the resolver's context managers - exhaustion, an exception from any callee, an exception from urljoin before the push, GeneratorExit at the yield - pushes equal pops and no prefix pops more than it pushed. Write frames: validation code writes only to errors/lists it created, the resolver's scope stack and (resolve_remote) store. Generator discipline keeps finalisation prompt."

    def tasks(self, root, tier):
        from contracts import tasks_resolver
        from contracts import tasks_derive
        return (tasks_core.core_tasks(root, _tmo(tier), which=("iter_errors_x", "ref_x", "is_valid", "validate")) +
                [tasks_core.CoreTask(root, 7, "scope_cm_x", _tmo(tier))] + tasks_derive.uridict_tasks(root, _tmo(tier)) +      # the store's keys
                tasks_resolver.resolver_tasks(root, 2 * _tmo(tier), which=("resolve_remote", "resolve_from_url", "resolve", "scopes")))

    def select(self, ob, r):
        if r["task"].startswith(("validators:RefResolver.", "uridict:")):
            return True
        return ob["kind"] in ("X", "P", "S")

    def failure_kinds(self):
        return ("H",)

    def table_obligations(self, repo, tabs):
        w, reach = write_frame_obligations(repo, tabs, VALIDATION_ROOTS, VALIDATION_WRITES, "validation")
        return w + generator_discipline_obligations(repo, tabs, reach) + ownership_obligations(repo)

    def standins(self, root, tier):
        return [history_standin(root, tier)]


# assumed contracts of the dependencies behind the built-in format functions (DESIGN.md section 5):
# function -> (the only external callables it may consult, exceptions those may raise on a str argument)
FORMAT_DEPS = {
    "is_email": (set(), set()),
    "is_ipv4": ({"ipaddress.IPv4Address"}, {"AddressValueError"}),
    "is_ipv6": ({"ipaddress.IPv6Address", "getattr"}, {"AddressValueError"}),
    "is_idn_host_name": ({"idna.encode"}, {"IDNAError", "UnicodeError"}),
    "is_regex": ({"re.compile"}, {"error", "OverflowError"}),
    "is_date": ({"_RE_DATE.fullmatch", "_is_date", "bool"}, {"ValueError"}),
    "is_draft3_time": ({"datetime.datetime.strptime"}, {"ValueError"}),
}


def format_dependency_obligations(repo, registry):
    """T: each registered built-in function consults only the dependency its assumed contract is
    written for, and lists every exception that dependency may raise (so check raises only FormatError)."""
    import ast as _ast
    from pyvc import frames
    recs = []
    funcs = {}
    for cname, chk in registry["checkers"].items():
        for fmt, e in chk.items():
            funcs.setdefault(e["func"], set()).update(e["raises"])
            funcs.setdefault(("reg", e["func"]), set()).add((cname, fmt))
    for fname in sorted(k for k in funcs if isinstance(k, str)):
        key = "_format:%s" % fname
        if fname not in FORMAT_DEPS or key not in repo.units:
            recs.append({"name": "_format:%s/T/dependency-contract" % fname, "kind": "T", "status": "failed", "solver": "tables",
                         "note": "no assumed dependency contract for registered function %s" % fname, "fmt_search": True})
            continue
        allowed, may_raise = FORMAT_DEPS[fname]
        calls = set()
        for n in frames.own_nodes(repo.units[key].node):
            if isinstance(n, _ast.Call):
                calls.add(_ast.unparse(n.func))
        calls -= {"isinstance"}
        ok_calls = calls <= allowed
        listed = funcs[fname]
        listed_norm = {x.split(".")[-1] for x in listed}
        ok_raises = may_raise <= listed_norm or (may_raise <= {"error", "OverflowError"} and {"error", "OverflowError"} <= listed_norm)
        recs.append({"name": "_format:%s/T/dependency-contract" % fname, "kind": "T", "status": "discharged" if ok_calls else "failed", "solver": "tables",
                     "note": "%s consults only %s (found %s)" % (fname, sorted(allowed), sorted(calls)), "fmt_search": True})
        recs.append({"name": "_format:%s/S/raises-listed" % fname, "kind": "S", "status": "discharged" if ok_raises else "failed", "solver": "tables",
                     "note": "every exception the dependency may raise on a string (%s) is listed in raises=%s" % (sorted(may_raise), sorted(listed)), "fmt_search": True})
    # the module-level aliases (_is_date, _RE_DATE) are resolved semantically by the wrapper task (contracts/tasks_format.py: format:wrappers)
    return recs


def metaschema_ground_obligations(repo):
    """T: closed facts about the four bundled metaschema files, decided by evaluation"""
    from spec.pyops import PyOps
    from spec.pointer import ptr_eval_py, PointerError
    recs = []
    for d in drafts.DRAFTS:
        meta = repo.schemas[d]
        try:
            ok = bool(drafts.V_concrete_schema(PyOps(d, meta_root=meta), meta, meta))
        except Exception as e:      # noqa
            ok = False
        recs.append({"name": "schemas/draft%d.json/T/self-acceptance" % d, "kind": "T", "status": "discharged" if ok else "failed", "solver": "tables",
                     "note": "the bundled draft-%d metaschema satisfies itself (executable spec)" % d, "search": {"draft": d, "keyword": "type"}})
        refs = []

        def walk(x):
            if isinstance(x, dict):
                if isinstance(x.get("$ref"), str):
                    refs.append(x["$ref"])
                for v in x.values():
                    walk(v)
            elif isinstance(x, list):
                for v in x:
                    walk(v)
        walk(meta)
        for r in sorted(set(refs)):
            ok = r.startswith("#")
            if ok:
                try:
                    tgt = ptr_eval_py(meta, r[1:])
                    ok = isinstance(tgt, dict) or (d >= 6 and isinstance(tgt, bool))
                except PointerError:
                    ok = False
            recs.append({"name": "schemas/draft%d.json/T/ref:%s" % (d, r), "kind": "T", "status": "discharged" if ok else "failed", "solver": "tables",
                         "note": "$ref %r of the metaschema designates a schema inside the same document (no retrieval)" % r})
        idk = drafts.ID_KEY[d]
        recs.append({"name": "schemas/draft%d.json/T/id" % d, "kind": "T", "status": "discharged" if isinstance(meta.get(idk), str) and meta.get(idk) else "failed",
                     "solver": "tables", "note": "the metaschema carries its id under %r: %r (pre-registered, so references to it are served locally)" % (idk, meta.get(idk))})
    return recs


class C11(Spec):
    pid = "C11"
    carry = ('err_set', 'scopes', 'is_valid')
    level = "proof"
    design_ref = "DESIGN.md section 8 C11"
    trusted = ["the verdict contracts of iter_errors, descend, is_type, of every keyword function whose keyword occurs in META_d and of equal / uniq are part of this check (the same obligations as C01 / C08), instantiated on paper with the concrete, well-formed META_d as schema and an arbitrary JSON value as instance",
               "the `$ref: \"#\"` / `#/definitions/...` references inside the metaschemas are resolved by the resolver functions: their transparency is C02's claim; until it is discharged the step from Vp(META_d, candidate) to the specification's V is covered by the bounded candidate sweep",
               "the independent evaluator the property asks for is the executable spec (spec/drafts.py with spec/pyops.py), itself checked against the official suite in the thorough tier"]
    assumptions = ["termination of metaschema validation: every $ref of the four files sits under an applicator that descends into the candidate (read off the files)"]
    explanation = "check_schema is proved to return normally exactly when cls(META_SCHEMA).iter_errors(candidate) is empty and otherwise to raise SchemaError.create_from(first error) and nothing else; the closed facts about the four files (self-acceptance, every $ref designates a schema in the same document, ids present) are decided by evaluation."

    def tasks(self, root, tier):
        from contracts import tasks_entry, tasks_utils
        from pyvc import extract
        own = [t for t in tasks_entry.entry_tasks(root, _tmo(tier)) if t.which in ("check_schema", "create_from")]
        # the chain that carries the property: check_schema == V(META_d, candidate) needs the verdict contract of
        # every keyword META_d uses (and of equal / uniq behind enum / uniqueItems) and of the dispatch loop
        repo = extract.Repo(root)

        def keys(x, acc):
            if isinstance(x, dict):
                acc.update(x)
                for v in x.values():
                    keys(v, acc)
            elif isinstance(x, list):
                for v in x:
                    keys(v, acc)
            return acc
        used = {d: keys(repo.schemas[d], set()) for d in drafts.DRAFTS}
        kw = [t for t in tasks_keywords.keyword_tasks(root, _tmo(tier)) if t.k in used[t.d]]
        from contracts import tasks_derive
        return own + kw + tasks_utils.util_tasks(root, _tmo(tier)) + tasks_derive.uridict_tasks(root, _tmo(tier)) + \
            tasks_core.core_tasks(root, 2 * _tmo(tier), which=("iter_errors", "descend", "is_type"))

    def select(self, ob, r):
        if r["task"].startswith(("entry:", "uridict:")):
            return True
        if r["task"].startswith("_utils:"):
            return True       # incl. S: nothing but SchemaError may come out of check_schema
        # S too: "anything check_schema accepts can then be used to validate any instance without crashing" - the exception
        # edges of the keyword functions are refuted under wf_d, which is generated from the BUNDLED metaschema file
        return ob["kind"] in ("F", "P", "L", "S") and "/F/structure" not in ob["name"]

    def failure_kinds(self):
        return ("F", "S")

    def table_obligations(self, repo, tabs):
        # "metaschema ids pre-registered so `$ref` to them needs no retrieval": the resolver's store seeding
        return metaschema_ground_obligations(repo) + resolver_table_obligations(repo)

    def standins(self, root, tier):
        from pyvc import driver
        r = driver.rt_call("pyvc.rt_kw", {"cmd": "search_meta", "root": root}, root, timeout=3000)
        return [{"name": "candidate-sweep", "scope": "every JSON kind and 33 shaped values as the value of every keyword the metaschema names (plus an unknown keyword and $ref), bare values, nested malformed schemas and the metaschema itself, x 4 drafts; check_schema against the executable spec's verdict on the bundled metaschema",
                 "cases": r["tried"], "failures": r["failures"], "replay_kind": "kw", "label": "bounded (not counted as proof)"}]


class C12(Spec):
    pid = "C12"
    level = "proof"
    design_ref = "DESIGN.md section 8 C12"
    trusted = ["a custom checker function is an abstract callable with three outcomes: returns a value, raises an instance of the registered `raises`, raises anything else",
               "the registry (which function under which name in which checker object) is read by reflection from the imported module (pyvc/rt_fmt.py)"]
    assumptions = ["`except raises` catches exactly the instances of the registered exception type(s) (Python semantics)"]
    explanation = "The format keyword function is proved to yield nothing without a checker and, with one, exactly one error carrying the FormatError's cause iff check raises FormatError; FormatChecker.check is proved against its four-case contract (unknown name, truthy, falsy, listed exception, unlisted exception propagates), conforms against check; every registered built-in function is proved to return True for any non-string instance before consulting anything."

    def tasks(self, root, tier):
        from contracts import tasks_format, tasks_derive
        # "listed in a checker's raises" means: in the entry the LAST registration under that name stored - the registration
        # contract (checks / cls_checks store exactly (func, raises) in the receiver's own registry) is part of this check
        return tasks_format.format_tasks(root, _tmo(tier)) + [t for t in tasks_derive.derive_tasks(root, _tmo(tier)) if t.which in ("fc_checks", "fc_init")]

    def select(self, ob, r):
        return True

    def failure_kinds(self):
        return ("F", "S", "D")

    def standins(self, root, tier):
        from pyvc import driver
        r = driver.rt_call("pyvc.rt_fmt", {"cmd": "custom", "root": root}, root, timeout=3000)
        return [{"name": "custom-checkers", "scope": "14 checker behaviours (12 return values, listed and unlisted exception) x 11 instances of every JSON type x 4 drafts, through conforms and validation with/without checker and an unknown format name; sequences of two registrations under one name (a new name and every stock name with listed exceptions; second registration without raises / raises=() / another class) x the function raising the formerly listed, the newly listed or ValueError, through conforms, check and validation",
                 "cases": r["tried"], "failures": r["failures"], "replay_kind": "fmt", "label": "bounded (not counted as proof)"}]


class C13(Spec):
    pid = "C13"
    level = "other"
    design_ref = "DESIGN.md section 8 C13"
    trusted = ["ASSUMED contracts of the dependencies (ipaddress.IPv4Address / IPv6Address raise only AddressValueError on a str; date.fromisoformat only ValueError; re.compile only re.error or OverflowError - RecursionError is outside the model; idna.encode only IDNAError / UnicodeError; strptime only ValueError)",
               "the grammars themselves (what the dependencies accept) are NOT proved: they are compared with independently written grammars by the bounded near-miss search, labelled bounded"]
    assumptions = ["date: year 0000 is not a calendar year of the library (outside the claim)", "idn-hostname and draft-3 time: never-raises half only",
                   "formats whose optional libraries are absent are not registered and out of scope"]
    explanation = "The repository's part is a thin wrapper, proved by symbolic execution for every string: email is truthy iff the string contains '@'; ipv4 / regex / draft-3 time are truthy iff their dependency accepts; ipv6 iff the dependency accepts and the parsed address has no scope id; date iff the string has the RFC 3339 full-date shape (the repository's pre-check regular expression is translated to an SMT regular expression and compared with the specification's as languages, so a harmless rewrite of the pattern still verifies) and fromisoformat accepts it; each lets escape only the exceptions registered for it. Also (with C12's check contract) each registered function consults only the dependency its assumed contract covers, lists every exception that dependency may raise, and guards non-strings; hence check raises nothing but FormatError. That the dependencies accept exactly the stated grammars is checked by a bounded near-miss conformance search against independent grammars (all single-character edits of valid and invalid seeds over each format's critical alphabet) - a bounded stand-in, not a proof."

    def tasks(self, root, tier):
        from contracts import tasks_format
        return [t for t in tasks_format.format_tasks(root, _tmo(tier)) if t.which in ("check", "conforms", "guards")] + tasks_format.wrapper_tasks(root, _tmo(tier))

    def select(self, ob, r):
        return True

    def failure_kinds(self):
        return ("F", "S")

    def table_obligations(self, repo, tabs):
        from pyvc import driver
        reg = driver.rt_call("pyvc.rt_fmt", {"cmd": "registry", "root": repo.root}, repo.root)
        return format_dependency_obligations(repo, reg)

    def standins(self, root, tier):
        from pyvc import driver
        r = driver.rt_call("pyvc.rt_fmt", {"cmd": "search", "root": root, "quick": tier != "thorough"}, root, timeout=3000)
        return [{"name": "grammar-near-misses", "scope": "every single-character insertion, deletion and substitution (over each format's critical alphabet) of 15-23 valid and invalid seeds per format, plus NUL / surrogate / non-ASCII-digit / very long strings, for every registered format of the class-level checker%s; ipv4, ipv6, date, regex, email against independent grammars, all formats for never-raises" % (" and the four draft checkers" if tier == "thorough" else " (draft checkers: seeds only)"),
                 "cases": r["tried"], "failures": r["failures"], "replay_kind": "fmt", "label": "bounded (about the dependencies; not counted as proof)"}]


class C14(Spec):
    pid = "C14"
    carry = ('resolve_remote',)
    level = "proof"
    design_ref = "DESIGN.md section 8 C14"
    trusted = [
        "spec: RFC 6901 evaluation as SMT functions ptr_walk / ptr_walk_ok (contracts/tasks_resolver.py), mirrored executably in spec/pointer.py",
        "assumed str contracts: unquote is RFC 3986 percent-decoding (uninterpreted, shared by code and spec), s.split(sep) and s.replace(a, b) are functions of their arguments (uninterpreted, shared: decode order ~1 then ~0 is pinned by term structure), isdigit() and isascii() hold together exactly on [0-9]+, int(s) on [0-9]+ is its decimal value",
        "the string lemma relating the code's index test to the RFC's index language 0|[1-9][0-9]* is discharged by cvc5's string solver as its own obligation",
    ]
    assumptions = ["the fragment, once percent-decoded, is a JSON pointer (empty or starting with '/'): plain-name fragments are outside RFC 6901 and outside the property",
                   "documents are JSON values"]
    explanation = "resolve_fragment is proved, with the loop invariant `document == ptr_walk(doc, tokens, k) and no step failed`, to return exactly the RFC 6901 value, to raise RefResolutionError exactly when the RFC evaluation fails, and to raise nothing else (TypeError, KeyError, IndexError, ValueError edges refuted)."

    def tasks(self, root, tier):
        from contracts import tasks_resolver
        # the fragment reaches resolve_fragment through resolve -> resolve_from_url (urldefrag): those hand it over unchanged
        return tasks_resolver.resolver_tasks(root, 2 * _tmo(tier), which=("resolve_fragment", "resolve_from_url", "resolve"))

    def select(self, ob, r):
        return True

    def failure_kinds(self):
        return ("F", "S")

    def standins(self, root, tier):
        from pyvc import driver
        r = driver.rt_call("pyvc.rt_ptr", {"cmd": "search", "root": root, "maxlen": 5 if tier == "thorough" else 4}, root, timeout=3000)
        return [{"name": "pointer-fragments", "scope": "every location of 4 documents with hostile keys (plain and percent-encoded) + all pointer-shaped fragments of length <= %d over a 14-character alphabet x 3 documents" % (5 if tier == "thorough" else 4),
                 "cases": r["tried"], "failures": r["failures"], "replay_kind": "ptr", "label": "bounded (not counted as proof)"}]


class C19(Spec):
    pid = "C19"
    carry = ('validator_for', 'xpaths')      # the CLI reuses ONE validator for all instances: the exit-path obligations carry "each instance yields exactly the library's errors"
    level = "proof"
    design_ref = "DESIGN.md section 8 C19"
    trusted = ["the file system is an environment function FS(path) in {missing, not JSON, json(v)}; the built-ins are assumed: open() raises OSError(errno=ENOENT) exactly for a missing file, json.load returns v or raises JSONDecodeError, `with file` closes it; _Outputter.load / validation_error / validation_success / parsing_error / filenotfound_error are PROVED against the contract cli.run uses (task cli:outputter)",
               "argparse, the formatters' texts (incl. traceback formatting) and process start-up are not modelled: covered by the bounded stand-in",
               "library calls (validator_for, check_schema, the validator constructor, iter_errors) are used through their contracts (C20, C04)"]
    assumptions = ["the instance list is an arbitrary finite sequence of paths; with no -i option one instance is read from standard input"]
    explanation = "cli.run is proved, with the loop invariant `exit_code == 1 iff some instance among the first k was unreadable or invalid`, to return 0 exactly when the schema file loads, passes check_schema of the selected / given class and every instance loads and is valid; to return non-zero before constructing the validator for a missing, unparsable or invalid schema; to process every listed instance (the loop has no break/return and catches _CannotLoadFile inside); --base-uri builds the resolver from that URI and the schema. _validate_instance is proved to report every library error and to write the success message iff there was none."

    def tasks(self, root, tier):
        from contracts import tasks_cli
        return tasks_cli.cli_tasks(root, _tmo(tier))

    def select(self, ob, r):
        return True

    def failure_kinds(self):
        return ("C", "H")

    def standins(self, root, tier):
        from pyvc import driver
        r = driver.rt_call("pyvc.rt_cli", {"cmd": "search", "root": root, "maxn": 3 if tier == "thorough" else 2}, root, timeout=3000)
        return [history_standin(root, tier, configs=[[True, "default"]]), {"name": "cli-scenarios", "scope": "schema file {valid, invalid, missing, not JSON} x every list of <= %d instance files over {valid, invalid with 1 and 2 errors, missing, not JSON} (or one instance on stdin) x {plain with --error-format, pretty, default}; --validator with three draft classes; --base-uri with a local fragment reference; real files, real cli.parse_args + cli.run" % (3 if tier == "thorough" else 2),
                 "cases": r["tried"], "failures": r["failures"], "replay_kind": "cli", "label": "bounded (not counted as proof)"}]


class C20(Spec):
    pid = "C20"
    carry = ('best_match',)
    level = "proof"
    design_ref = "DESIGN.md section 8 C20"
    trusted = ["URIDict.normalize = urlsplit(uri).geturl() is an uninterpreted function shared by registration and lookup; that it maps `u` and `u#` to the same key is an ASSUMED property of urllib.parse, checked on the four bundled ids by the bounded run",
               "the registry is an abstract map (presence and value per normalised key)"]
    assumptions = ["`$schema`, when present, is a string", "that validate() and the CLI then behave as the selected class is C04's module-validate contract (cls taken from validator_for) and C19"]
    explanation = "validator_for is proved, for an arbitrary registry state, to return the caller's default for a boolean / non-mapping / $schema-less schema without warning, the registered class for a registered (normalised) id without warning, and the latest draft with exactly one DeprecationWarning otherwise; validates(version)(cls) to write validators[version] and meta_schemas[cls's own metaschema id] and nothing else and to return cls; _LATEST_VERSION is the draft-7 class and create(version=...) registers through validates (AST)."

    def tasks(self, root, tier):
        from contracts import tasks_registry, tasks_entry, tasks_derive
        return tasks_registry.registry_tasks(root, _tmo(tier)) + [t for t in tasks_entry.entry_tasks(root, _tmo(tier)) if t.which == "module_validate"] + \
            tasks_derive.uridict_tasks(root, _tmo(tier))      # the registry is a URIDict: "with or without an empty fragment" is its normalisation

    def select(self, ob, r):
        return r["task"].startswith(("registry:", "uridict:")) or "cls-from-$schema" in ob["name"] or ob["kind"] == "P"

    def failure_kinds(self):
        return ("R",)

    def table_obligations(self, repo, tabs):
        import ast as _ast
        recs = [{"name": "validators:_LATEST_VERSION/T/is-draft7", "kind": "T", "status": "discharged" if tabs.get("latest") == "Draft7Validator" else "failed",
                 "solver": "tables", "note": "_LATEST_VERSION is %s" % tabs.get("latest")}]
        for d in drafts.DRAFTS:
            recs.append({"name": "validators:Draft%dValidator/T/version" % d, "kind": "T", "status": "discharged" if tabs[d].version == "draft%d" % d else "failed",
                         "solver": "tables", "note": "created with version=%r, hence registered under its metaschema id" % tabs[d].version})
        cr = repo.units["validators:create"].node
        ok = any(isinstance(n, _ast.If) and _ast.unparse(n.test) == "version is not None" and
                 any(isinstance(b, _ast.Assign) and _ast.unparse(b.value) == "validates(version)(Validator)" for b in n.body) for n in _ast.walk(cr))
        recs.append({"name": "validators:create/T/registers-through-validates", "kind": "T", "status": "discharged" if ok else "failed", "solver": "tables",
                     "note": "create(version=...) registers the new class by validates(version)(Validator) and only then"})
        w, _ = write_frame_obligations(repo, tabs, ["validators:validator_for", "validators:validates", "validators:validates._validates"],
                                       [("validators:validates._validates", "validators.[]"), ("validators:validates._validates", "meta_schemas.[]"),
                                        ("_utils:URIDict.__setitem__", "self.store.[]")], "registration")
        return recs + [r for r in w if not r["name"].startswith("frames/")]

    def standins(self, root, tier):
        from pyvc import driver
        r = driver.rt_call("pyvc.rt_reg", {"cmd": "search", "root": root}, root, timeout=3000)
        return [{"name": "draft-selection", "scope": "4 registered ids x {with, without '#'} x 13 probe schemas on which the drafts disagree, through validator_for, validate() (implicit and explicit class) and the CLI; missing/boolean/unknown/fragment-bearing $schema; a later create(version=...) and extend(version=...) registration, after which both spellings of the re-registered id must select the class the registry holds now",
                 "cases": r["tried"], "failures": r["failures"], "replay_kind": "reg", "label": "bounded (not counted as proof)"}]


def derivation_obligations(repo):
    """C16: what derivation operations hand on, and that they copy rather than share (AST obligations)"""
    import ast as _ast
    recs = []

    def rec(name, ok, note):
        recs.append({"name": name, "kind": "W", "status": "discharged" if ok else "failed", "solver": "frames", "note": note})
    # create(): class attributes are copies / the given behaviour parameters
    cr = repo.units["validators:create"].node
    cls = [n for n in _ast.walk(cr) if isinstance(n, _ast.ClassDef) and n.name == "Validator"]
    body = {t.id: _ast.unparse(st.value) for c in cls for st in c.body if isinstance(st, _ast.Assign) for t in st.targets if isinstance(t, _ast.Name)}
    want = {"VALIDATORS": "dict(validators)", "META_SCHEMA": "dict(meta_schema)", "TYPE_CHECKER": "type_checker", "ID_OF": "staticmethod(id_of)",
            "_DEFAULT_TYPES": "dict(default_types)"}
    for k, v in want.items():
        rec("validators:create/O/class-attr:%s" % k, body.get(k) == v, "class attribute %s = %s (expected %s)" % (k, body.get(k), v))
    # extend(): proved by symbolic execution (contracts/tasks_derive.py: derive:extend)
    # the class's methods look ids up through the closure variable id_of
    # Validator.__init__: proved by symbolic execution (contracts/tasks_derive.py: derive:validator_init)
    it = _ast.unparse(repo.units["validators:create.Validator.iter_errors"].node)
    rec("validators:create.Validator.iter_errors/F/id_of", "scope = id_of(_schema)" in it, "iter_errors takes the scope of a subschema from the class's id_of")
    cs = _ast.unparse(repo.units["validators:create.Validator.check_schema"].node)
    rec("validators:create.Validator.check_schema/F/own-class", "cls(cls.META_SCHEMA).iter_errors(schema)" in cs, "check_schema validates with the class itself against its own META_SCHEMA")
    # TypeChecker derivations: proved by symbolic execution (contracts/tasks_types.py)
    tc = [n for n in _ast.walk(repo.trees["_types"]) if isinstance(n, _ast.ClassDef) and n.name == "TypeChecker"]
    fields = [t.id for c in tc for st in c.body if isinstance(st, _ast.Assign) for t in st.targets if isinstance(t, _ast.Name)]
    frozen = any("frozen=True" in _ast.unparse(d) for c in tc for d in c.decorator_list)
    rec("_types:TypeChecker/O/fields", fields == ["_type_checkers"] and frozen, "TypeChecker is frozen and its only state is the persistent map (fields %s)" % fields)
    # FormatChecker.__init__ / checks: proved by symbolic execution (contracts/tasks_derive.py: derive:fc_init, derive:fc_checks)
    dc = _ast.unparse(repo.trees["_format"])
    rec("_format:draft-checkers/O/separate", all(("draft%d_format_checker = FormatChecker()" % d) in dc for d in (3, 4, 6, 7)), "the four draft checkers are separate instances")
    return recs


class C16(Spec):
    pid = "C16"
    level = "proof"
    design_ref = "DESIGN.md section 8 C16"
    trusted = ["built-in dict: dict(d) / d.copy() allocate a new dict with the same content, d.update(e) overlays e on d, d[k] = v changes exactly d (assumed; contracts/tasks_derive.py)", "attr.evolve returns a new object holding the given map and leaves its argument unchanged; pyrsistent pmap values are persistent: update(d) is the overlay of d, remove(k) raises KeyError for an absent key and otherwise drops exactly k (assumed contracts of the dependencies, contracts/tasks_types.py)",
               "class creation inside create() is modelled by its four behaviour parameters (keyword table copy, type checker, id_of closure and ID_OF, metaschema copy); the deprecation metaclass / DEFAULT_TYPES property is not modelled",
               "meta-lemma (paper): iter_errors' contract is parametric in exactly those four parameters, so equal parameters give equal behaviour and an override changes only the dispatch case of the overridden keyword"]
    assumptions = ["frame / ownership obligations are syntactic (pyvc/frames.py) and conservative"]
    explanation = "TypeChecker: is_type(x, t) is UndefinedTypeCheck iff t is not in the checker's map and otherwise what the mapped function says; redefine / redefine_many return a new checker whose map is the receiver's overlaid with the definitions; remove returns a new checker without exactly the listed names (loop invariant, closed form by an induction lemma) and raises UndefinedTypeCheck iff a name is absent when its turn comes. Write frames: no derivation operation mutates a pre-existing checker, class or validator (only fresh objects, the object under construction, the two registries in validates, the receiver's own registry in checks). extend (symbolic execution over a dict-object model): create is called once with the parent's metaschema and ID_OF, the given version, the given or else the parent's type checker and a NEW table == parent's table overlaid with the overrides, the parent's table object unchanged. FormatChecker.__init__: the instance owns a new dict equal to the class registry / its restriction to the listed names, class registry unchanged; checks / cls_checks: exactly the receiver's own registry gains format -> (func, raises), all other registries unchanged. Ownership (AST): create stores copies, the draft checkers are separate instances, TypeChecker is frozen over a persistent map; the class's methods use the closure id_of; check_schema uses the class itself."

    def tasks(self, root, tier):
        from contracts import tasks_registry
        from contracts import tasks_types, tasks_derive
        return [t for t in tasks_registry.registry_tasks(root, _tmo(tier)) if t.which == "validates"] + \
            tasks_core.core_tasks(root, _tmo(tier), drafts_=(7,), which=("is_type",)) + tasks_types.type_checker_tasks(root, _tmo(tier)) + \
            tasks_derive.derive_tasks(root, _tmo(tier))

    def select(self, ob, r):
        return True

    def failure_kinds(self):
        return ("D",)

    def table_obligations(self, repo, tabs):
        roots = ["_types:TypeChecker.redefine", "_types:TypeChecker.redefine_many", "_types:TypeChecker.remove", "_types:TypeChecker.is_type",
                 "validators:create", "validators:extend", "validators:validates", "validators:validates._validates",
                 "validators:_generate_legacy_type_checks", "validators:create.Validator.__init__", "_format:FormatChecker.__init__",
                 "_format:FormatChecker.checks", "_format:FormatChecker.checks._checks", "_format:FormatChecker.check", "_format:FormatChecker.conforms"]
        allowed = VALIDATION_WRITES + [("validators:validates._validates", "validators.[]"), ("validators:validates._validates", "meta_schemas.[]"),
                                       ("_format:FormatChecker.checks._checks", "self.checkers.[]"), ("validators:create", "Validator.__name__"),
                                       ("_utils:URIDict.__setitem__", "self.store.[]")]
        w, _ = write_frame_obligations(repo, tabs, roots, allowed, "derivation")
        return [r for r in w if not r["name"].startswith("frames/")] + derivation_obligations(repo)

    def standins(self, root, tier):
        from pyvc import driver
        r = driver.rt_call("pyvc.rt_reg", {"cmd": "derive", "root": root}, root, timeout=3000)
        return [{"name": "derivation-script", "scope": "a script of 24 derivation operations (redefine, redefine_many, remove, extend x 3 per draft, create, Validator(types=), checks, cls_checks, FormatChecker(), FormatChecker(formats=)); after each, every object created so far (4 draft classes, 3 type checkers, checkers, derived classes) is probed again on 19 schema/instance pairs, 36 is_type queries, 16 conforms queries",
                 "cases": r["tried"], "failures": r["failures"], "replay_kind": "reg", "label": "bounded (not counted as proof)"}]


class C17(Spec):
    pid = "C17"
    level = "other"
    design_ref = "DESIGN.md section 8 C17"
    trusted = ["tree nodes are an abstract model: a node is a term, its children (defaultdict, created on demand), error map and recorded instance are uninterpreted functions of it; dict / defaultdict behave as maps that raise TypeError only for unhashable keys (assumed)",
               "'same node' means 'same path' under the assumed defaultdict contract (a fresh child per (node, key): the child function is injective and acyclic)",
               "that total_errors' defining equation gives the number of distinct (path, keyword) pairs, and that membership / iteration report exactly the continued paths, needs the representation invariant of the child maps, which is covered only by the bounded stand-in"]
    assumptions = ["path elements are str or int, the keyword is a str or None (what validation produces)",
                   "membership / iteration / counts on the finished tree are checked by the bounded stand-in over every arrival order - labelled bounded, not proof"]
    explanation = "Proved: the constructor raises nothing for any sequence of errors in any order (inner-loop invariant: `container` is the node reached after k path elements; with the pre-fix code the same obligation fails because __getitem__ indexes the recorded instance) and files every error where its path says (outer-loop invariant over a ghost map of the nodes' errors dicts: the node an error's path leads to maps its keyword to an error filed at that node under that keyword); __contains__, __getitem__ (returns the child; raises only what instance[index] raises and only for an absent index with a recorded instance), __setitem__, __iter__ (all children), __len__ == total_errors; total_errors == len(errors) + sum of len(child) over every child, recursive calls by contract."

    def tasks(self, root, tier):
        from contracts import tasks_tree
        return tasks_tree.tree_tasks(root, _tmo(tier))

    def select(self, ob, r):
        return True

    def failure_kinds(self):
        return ("T",)

    def table_obligations(self, repo, tabs):
        import ast as _ast
        w, _ = write_frame_obligations(repo, tabs, ["exceptions:ErrorTree.__contains__", "exceptions:ErrorTree.__iter__", "exceptions:ErrorTree.__len__",
                                                    "exceptions:ErrorTree.total_errors"], [], "ErrorTree queries")
        recs = [r for r in w if not r["name"].startswith("frames/")]
        # the node model says "a node that never received an error has no recorded instance": the class-level default of
        # `_instance` must be the very sentinel that __getitem__ compares with (`is _unset`), a single module-level object
        cls = [n for n in _ast.walk(repo.trees["exceptions"]) if isinstance(n, _ast.ClassDef) and n.name == "ErrorTree"]
        dflt = [_ast.unparse(st.value) for c in cls for st in c.body if isinstance(st, _ast.Assign) and any(isinstance(t, _ast.Name) and t.id == "_instance" for t in st.targets)]
        sent = [_ast.unparse(st.value) for st in repo.trees["exceptions"].body if isinstance(st, _ast.Assign) and any(isinstance(t, _ast.Name) and t.id == "_unset" for t in st.targets)]
        uses = [_ast.unparse(c) for f in ("exceptions:ErrorTree.__getitem__",) for c in _ast.walk(repo.units[f].node) if isinstance(c, _ast.Compare) and "_instance" in _ast.unparse(c)]
        ok = dflt == ["_unset"] and len(sent) == 1 and all("_unset" in u and ("is not" in u or " is " in u) for u in uses) and bool(uses)
        recs.append({"name": "exceptions:ErrorTree/T/instance-sentinel", "kind": "T", "status": "discharged" if ok else "failed", "solver": "tables",
                     "note": "ErrorTree._instance defaults to the module's single `_unset` object, the one __getitem__ tests identity against (default %s, sentinel %s, tests %s)" % (dflt, sent, uses),
                     "rt_search": [("pyvc.rt_tree", {"cmd": "search"}, "tree")]})
        return recs

    def standins(self, root, tier):
        from pyvc import driver
        r = driver.rt_call("pyvc.rt_tree", {"cmd": "search", "root": root}, root, timeout=3000)
        return [{"name": "trees-in-every-arrival-order", "scope": "12 validation scenarios (draft-3 required next to additionalProperties, propertyNames, dotted and bracketed property names beside nested locations, arrays of objects, several keywords per location) + 2 hand-made error sets with repeated (path, keyword); every permutation of the errors (<= 5) or both directions; path walk, membership, iteration, total_errors/len at every node, empty tree for error-free elements",
                 "cases": r["tried"], "failures": r["failures"], "replay_kind": "tree", "label": "bounded (not counted as proof)"}]


class C18(Spec):
    pid = "C18"
    level = "other"
    design_ref = "DESIGN.md section 8 C18"
    trusted = [
        "meta-lemma (paper, standard non-interference): computations whose write footprints are pairwise disjoint and which read nothing another writes commute step by step; hence every interleaving of next() steps gives each validator what it gives alone",
        "for thread schedules additionally: CPython's shared read-only structures and the dependencies' own transparent caches (re, urllib.parse) are schedule-safe (assumed)",
        "frame analysis is syntactic and conservative (pyvc/frames.py)",
    ]
    assumptions = ["thread schedules as such are not explored: not applicable to contract-based deductive verification (Kani/Verus-style frameworks have no model of Python threads either); the frame condition is sufficient, not necessary"]
    explanation = "Sufficient frame condition, proved syntactically on the current tree: every mutation site reachable from validation and from the constructors has a receiver that is fresh in its function, an error owned by the iteration, or a field of the validator's own resolver; the resolver's mutable state (scope stack, store, handler copy, both caches) is allocated in its constructor; a validator without explicit resolver constructs its own; no reachable function writes a module global, class attribute or closure variable. The step to 'any interleaving' is the paper non-interference lemma; the bounded interleaving run on the real code is a cross-check."

    def tasks(self, root, tier):
        # a validator's format checker is part of what it does not share: every FormatChecker instance owns its registry
        from contracts import tasks_derive
        return [t for t in tasks_derive.derive_tasks(root, _tmo(tier)) if t.which in ("fc_init", "fc_checks", "validator_init")]

    def table_obligations(self, repo, tabs):
        roots = VALIDATION_ROOTS + ["validators:create.Validator.__init__", "validators:RefResolver.__init__", "validators:RefResolver.from_schema",
                                    "validators:RefResolver.resolve", "validators:RefResolver.resolve_from_url", "validators:RefResolver.resolve_remote",
                                    "validators:RefResolver.resolve_fragment", "_format:FormatChecker.check", "_format:FormatChecker.conforms"]
        allowed = VALIDATION_WRITES + [("validators:RefResolver.__init__", "self.store"), ("validators:RefResolver.__init__", "self.store.[]"),
                                       ("_utils:URIDict.__init__", "self.store"), ("validators:create.Validator.__init__", "self")]
        w, reach = write_frame_obligations(repo, tabs, roots, allowed, "validation+construction")
        return w + ownership_obligations(repo)

    def standins(self, root, tier):
        from pyvc import driver
        import os
        r = driver.rt_call("pyvc.rt_hist", {"cmd": "interleave", "root": root, "schedules": 200 if tier == "thorough" else 40,
                                            "seed": int(os.environ.get("VERIF_SEED", "0") or 0)}, root, timeout=3000)
        return [{"name": "interleavings", "scope": "two validators with own resolvers, same base URI, same $ref strings designating different definitions, same instance object; %d random next()-schedules per case, drafts 4 and 7" % (200 if tier == "thorough" else 40),
                 "cases": r["tried"], "failures": r["failures"], "replay_kind": "hist", "label": "bounded (not counted as proof)"}]


RESOLVER_ALL = ("resolve_fragment", "resolve_remote", "resolve_from_url", "resolve", "scopes", "ref_keyword")


def resolver_table_obligations(repo):
    from contracts import tasks_resolver
    return tasks_resolver.init_obligations(repo)


def no_handler_obligations(repo):
    """T: the validator's entry points catch nothing: whatever the error iteration raises (RefResolutionError for an
    unretrievable document, UnknownType) reaches the caller (the verdict tasks treat callee exceptions as propagating)"""
    import ast as _ast
    recs = []
    for meth in ("is_valid", "validate", "descend", "iter_errors"):
        u = repo.units.get("validators:create.Validator.%s" % meth)
        handlers = [h for n in _ast.walk(u.node) if isinstance(n, _ast.Try) for h in n.handlers] if u else None
        ok = handlers == []
        recs.append({"name": "validators:create.Validator.%s/T/no-handler" % meth, "kind": "T", "status": "discharged" if ok else "failed", "solver": "tables",
                     "note": "%s has no `except` clause: exceptions of the error iteration propagate unchanged" % meth,
                     "rt_search": [("pyvc.rt_hist", {"cmd": "search", "maxlen": 2, "configs": [[True, "default"]]}, "hist")]})
    return recs


class C02(Spec):
    pid = "C02"
    carry = ('err_set', 'descend')
    level = "proof"
    design_ref = "DESIGN.md section 8 C02"
    trusted = [
        "urllib.parse.urljoin IS RFC 3986 section 5.2 reference resolution, urldefrag splits off the fragment, URIDict.normalize (urlsplit().geturl()) identifies `u` and `u#`: uninterpreted functions shared by code and spec (assumed contracts of the dependency); an absolute URL joins to itself (assumed)",
        "precondition: every designated value is itself a schema of the draft (a reference to a non-schema such as `#/examples` is outside the claim: DESIGN.md F13)",
        "correctness is partial: V is defined by substitution only where the evaluation terminates; cyclic references that consume nothing are outside the model (DESIGN.md F11)",
        "targets are looked up in the store by document URL; schemas identified only by an embedded id are excluded by the property text (upstream issue 371)",
        "the caches satisfy the cache contract (return what the wrapped function returns): true of functools.lru_cache and of any pass-through",
    ]
    assumptions = ["retrieval is a deterministic function of the URL (the environment does not change a document between two fetches)"]
    explanation = "The chain from the property to the code: iter_errors is proved to look at nothing but `$ref` when present and to yield exactly the errors of the `$ref` keyword function (dispatch proof); that function is proved to yield exactly descend(instance, designated(url)) evaluated with the scope set to url = urljoin(current scope, ref), adding nothing to any path, and to restore the scope; resolve is proved to return (url, designated(url)) through any cache; resolve_from_url to take the document from the store by normalised defragmented URL or retrieve it once, then evaluate the fragment; resolve_fragment against RFC 6901 (C14); push_scope / pop_scope / resolution_scope over the stack; the constructor's store seeding and URIDict's key normalisation from the AST."

    def tasks(self, root, tier):
        from contracts import tasks_resolver
        from contracts import tasks_derive
        return (tasks_resolver.resolver_tasks(root, 2 * _tmo(tier), which=RESOLVER_ALL) + tasks_derive.uridict_tasks(root, _tmo(tier)) +
                [tasks_core.IdOfTask(root, d) for d in drafts.DRAFTS] +      # which member establishes the base URI in each draft
                tasks_core.core_tasks(root, 2 * _tmo(tier), which=("iter_errors",)) + tasks_core.core_tasks(root, _tmo(tier), which=("iter_errors_x", "ref_x")) + [tasks_core.CoreTask(root, 7, "scope_cm_x", _tmo(tier))])

    def select(self, ob, r):
        if r["task"].startswith(("validators:RefResolver.", "uridict:", "id_of")):
            return True
        return "/F/structure" in ob["name"] or "/F/verdict" in ob["name"] or ob["kind"] == "X"

    def failure_kinds(self):
        return ("X", "F", "H")

    def table_obligations(self, repo, tabs):
        return resolver_table_obligations(repo)

    def standins(self, root, tier):
        from pyvc import driver
        r = driver.rt_call("pyvc.rt_ref", {"cmd": "search", "root": root}, root, timeout=3000)
        return [{"name": "ref-vs-inlined", "scope": "20 definition names (empty, numeric-looking, with / ~ % # ? quotes, non-ASCII, ~01, a%2Fb) x 4 target schemas x 7 reference positions (incl. keywords next to $ref) x 5 instances x 4 drafts; 8 base-URI arrangements (root id, nested id on the path, relative / absolute references, store documents, recursion through # and through a definition)",
                 "cases": r["tried"], "failures": r["failures"], "replay_kind": "ref", "label": "bounded (not counted as proof)"}]


class C15(Spec):
    pid = "C15"
    carry = ('resolve_fragment', 'is_valid')      # a retrieval failure surfaces as RefResolutionError through every entry point
    level = "proof"
    design_ref = "DESIGN.md section 8 C15"
    trusted = [
        "functools.lru_cache(n)(f): returns f(x), possibly remembered from an earlier normal return; a call that raises stores nothing; entries may be evicted at any time (assumed contract); resolve is verified against any cache satisfying this contract, which pass-through and evicting caches also do",
        "history quantifier by invariant (paper): the store only grows and existing documents are never replaced by validation (write frames, C07), so a remembered result equals what a new call would return when retrieval is deterministic; with cache_remote every successfully retrieved URL is in the store afterwards (resolve_remote's contract), hence is never retrieved again",
        "URIDict.normalize identifies `u` and `u#` (assumed property of urllib.parse), so a metaschema id with or without the trailing '#' hits the pre-seeded entry",
    ]
    assumptions = ["retrieval is a deterministic function of the URL; handlers are arbitrary callables that return a document or raise"]
    explanation = "resolve_remote is proved to perform exactly one retrieval chosen by scheme (handler, requests for http(s) when importable, urlopen), to add uri -> document to the store exactly when cache_remote, and to store nothing when the retrieval fails; resolve_from_url to retrieve nothing when the normalised defragmented URL is in the store and exactly once otherwise, to turn every retrieval failure into RefResolutionError, and to evaluate the fragment in the stored / retrieved document; resolve to be transparent in its caches; the constructor to seed the store with every registered metaschema, then the caller's documents (normalising their keys), then the referrer."

    def tasks(self, root, tier):
        from contracts import tasks_resolver
        from contracts import tasks_derive
        return tasks_resolver.resolver_tasks(root, 2 * _tmo(tier), which=("resolve_remote", "resolve_from_url", "resolve")) + tasks_derive.uridict_tasks(root, _tmo(tier))

    def select(self, ob, r):
        return True

    def failure_kinds(self):
        return ("H",)

    def table_obligations(self, repo, tabs):
        w, _ = write_frame_obligations(repo, tabs, ["validators:RefResolver.resolve", "validators:RefResolver.resolve_from_url", "validators:RefResolver.resolve_remote",
                                                    "validators:RefResolver.resolve_fragment"], VALIDATION_WRITES, "retrieval")
        return resolver_table_obligations(repo) + [r for r in w if not r["name"].startswith("frames/")] + ownership_obligations(repo) + no_handler_obligations(repo)

    def standins(self, root, tier):
        return [history_standin(root, tier, configs=[[True, "default"], [False, "default"], [True, "passthrough"]])]


class C04(Spec):
    pid = "C04"
    carry = ('err_set', 'scopes', 'resolve', 'descend', 'validator_for')
    level = "proof"
    design_ref = "DESIGN.md section 8 C04"
    trusted = [
        "max(iterable, key=) / min(iterable, key=) return an element of their non-empty argument (assumed contract of the built-ins); itertools.chain concatenates",
        "error objects in best_match are an abstract model (membership in the context closure, context emptiness, context-tree height); the real ValidationError fields are handled in create_from/_contents",
        "repeatability: the entry points are functions of (schema, instance) in the encoding; the scope stack is restored on every exit (X obligations, included here); that nothing else observable is modified is C07's write frame",
    ]
    assumptions = ["module validate is verified with cls given explicitly and with cls taken from validator_for (whose contract is C20's)",
                   "check_schema's callee contract is exactly check_schema(schema)"]
    explanation = "is_valid is proved equal to emptiness of iter_errors, validate() to raise exactly its first error, module validate() to call check_schema first (SchemaError before the validator exists), then raise best_match(iter_errors) iff non-empty; best_match is proved to return None iff empty and otherwise a context-free member of the context closure (while-loop invariant, decreasing context height); SchemaError.create_from is proved to copy every field."

    def tasks(self, root, tier):
        from contracts import tasks_entry
        # the agreement is claimed for one validator object across calls: is_valid / validate() stop at the
        # first error, so the exit-path obligations (scope stack restored on every exit, incl. GeneratorExit)
        # carry the property between calls and are part of this check
        return (tasks_core.core_tasks(root, _tmo(tier), which=("is_valid", "validate", "iter_errors_x", "ref_x")) +
                [tasks_core.CoreTask(root, 7, "scope_cm_x", _tmo(tier))] + tasks_entry.entry_tasks(root, _tmo(tier)))

    def select(self, ob, r):
        return ob["kind"] in ("F", "P", "L", "S", "X")

    def failure_kinds(self):
        return ("E", "H")

    def table_obligations(self, repo, tabs):
        w, _ = write_frame_obligations(repo, tabs, ["exceptions:best_match", "exceptions:by_relevance.relevance", "validators:validate",
                                                    "validators:create.Validator.check_schema", "exceptions:_Error.create_from", "exceptions:_Error._contents"],
                                       VALIDATION_WRITES + [("exceptions:_Error.__init__", "*")], "entry points")
        return [r for r in w if not r["name"].startswith("frames/")]

    def standins(self, root, tier):
        from pyvc import driver
        r = driver.rt_call("pyvc.rt_entry", {"cmd": "search", "root": root}, root, timeout=3000)
        return [history_standin(root, tier), {"name": "entry-point-agreement", "scope": "12 keywords x half of the 80-value pool x a third of the instance pool x 4 drafts, plus nested anyOf/oneOf/false-schema cases and invalid schemas, with and without format checker; all four entry points, repeated calls",
                 "cases": r["tried"], "failures": r["failures"], "replay_kind": "entry", "label": "bounded (not counted as proof)"}]


class C08(Spec):
    pid = "C08"
    carry = ('is_type',)
    level = "proof"
    design_ref = "DESIGN.md section 8 C08"
    KW = ("enum", "const", "uniqueItems")
    trusted = [
        "spec: jeq (JSON equality) axiomatised structurally in pyvc/smt.py and executable in spec/pyops.py (py_jeq)",
        "ASSUMED contract of the built-in set: with hashable elements, len(set(xs)) == len(xs) iff no two elements are ==-equal; adding an unhashable element (list, dict) raises TypeError",
        "equal's recursion terminates: each recursive call is on strictly smaller operands (measure size(one)+size(two), obligation `equal.decreases`)",
    ]
    assumptions = ["operands are JSON values (finite floats, no NaN)",
                   "the triple agreement const c / enum [c] / uniqueItems [c, x] is the corollary of the three keyword contracts being stated over the one relation jeq"]
    explanation = "equal is proved equivalent to JSON equality by structural induction (its recursive calls use its own contract); uniq is proved on both of its paths (hash path modulo the assumed set contract, pairwise path with the loop invariant seen == container[:k] and pairwise-distinct prefix); enum, const, uniqueItems are proved against K_enum/K_const/K_uniqueItems stated over jeq."

    def tasks(self, root, tier):
        from contracts import tasks_utils
        return ([t for t in tasks_keywords.keyword_tasks(root, _tmo(tier)) if t.k in self.KW] +
                tasks_utils.util_tasks(root, _tmo(tier)))

    def select(self, ob, r):
        return ob["kind"] in ("F", "S", "P", "L")

    def standins(self, root, tier):
        from pyvc import driver
        out = []
        for which, maxlen in (("equal", 2), ("uniq", 4 if tier == "thorough" else 3)):
            r = driver.rt_call("pyvc.rt_eq", {"cmd": "search", "root": root, "which": which, "maxlen": maxlen}, root, timeout=3000)
            out.append({"name": "_utils.%s" % which, "scope": "all %s over a %d-value alphabet%s" % ("pairs" if which == "equal" else "arrays of length <= %d" % maxlen, r["alphabet"], ""),
                        "cases": r["tried"], "failures": r["failures"], "replay_kind": "eq", "label": "bounded (cross-check of the proof on the real code; not counted as proof)"})
        return out


SPECS = {"C01": C01, "C02": C02, "C15": C15, "C03": C03, "C04": C04, "C05": C05, "C11": C11, "C12": C12, "C13": C13, "C14": C14, "C16": C16, "C17": C17, "C19": C19, "C20": C20, "C07": C07, "C18": C18, "C06": C06, "C08": C08, "C09": C09, "C10": C10}
