"""Common machinery of the per-property checks: run the verification tasks, decide each
obligation (discharged / violation with replay / known finding / undecided), write the evidence.

Exit codes: 0 held, 1 VIOLATION, 2 undecided, 3 checker crash (DESIGN.md section 7)."""
import json
import os
import re
import sys
import time

from pyvc import driver, extract, tables as tables_mod

VERIF = driver.VERIF
# trial runs against scratch copies write their evidence elsewhere (tools/try_scratch.sh); registered commands never set this
EVIDENCE_DIR = os.environ.get("VERIF_EVIDENCE_DIR") or os.path.join(VERIF, "evidence")

TRUSTED_COMMON = [
    "engine: pyvc symbolic executor over the AST of /repo's working tree (flat-map loop summarisation rule, exception edges, contract substitution at calls) - not itself verified; cross-checked against CPython by replaying counter-models and by the directed search",
    "Python semantics as stated in DESIGN.md section 4 (value model over an uninterpreted sort; bool is an int; exact int/float comparison; insertion-ordered dicts); integers are mathematical (true for Python)",
    "SMT solvers z3 5.1 (Python API) and cvc5 1.0.3 (binary, only for z3's unknowns) are trusted for `unsat`",
    "message texts (%-formatting, repr, join) are dropped by the extraction and assumed not to raise on JSON values",
]


class Spec:
    """What a property check consists of."""
    pid = None
    oos_structure = False      # properties about error structure use the errors-mode search for out-of-subset tasks
    level = "proof"
    design_ref = ""
    trusted = []
    assumptions = []
    explanation = ""
    carry = ()      # names of cheap prover groups (props/specs.py: CARRIERS) whose tasks are added to this check so that
    #                 the callee contracts its own tasks apply are proved inside the same check

    def tasks(self, root, tier):
        return []

    def select(self, ob, task_result):
        """does this obligation record belong to the property?"""
        return True

    def failure_kinds(self):
        """kinds of directed-search failures that count as violations of this property"""
        return ("F", "S")

    def table_obligations(self, repo, tabs):
        return []

    def standins(self, root, tier):
        """bounded stand-ins: list of dicts {name, scope, cases, failures:[...]}; never counted as proof"""
        return []

    def extra(self, root, tier, report):
        """hook for additional property-specific obligations; may append to report['records']"""


def load_known_findings():
    fn = os.path.join(VERIF, "known_findings.json")
    if not os.path.exists(fn):
        return {"findings": [], "fixed": []}
    with open(fn) as f:
        return json.load(f)


BASELINE_DIR = os.path.join(VERIF, "baseline")


def load_baseline(pid):
    """obligations discharged on the baseline tree (the pinned commit plus the fix: commits), per task, with the identity
    of the sources each task read; written by `VERIF_WRITE_BASELINE=1 bin/check <id>` on that tree and committed"""
    fn = os.path.join(BASELINE_DIR, "%s.json" % pid)
    if not os.path.exists(fn):
        return {"tasks": {}}
    with open(fn) as f:
        return json.load(f)


def changed_since_baseline(baseline, r, ob_name):
    """-> reason string if this obligation was discharged on the baseline tree and the sources its task reads differ now"""
    b = baseline.get("tasks", {}).get(r.get("task"))
    if not b or not r.get("dep") or b.get("dep") == r.get("dep"):
        return None
    if ob_name is None:
        return "the task verified completely on the baseline tree (%s obligations)" % len(b.get("discharged", [])) if b.get("status") == "ok" else None
    return "discharged on the baseline tree" if ob_name in set(b.get("discharged", [])) else None


def contract_provers(key):
    """the task-name prefixes / fragments whose obligations prove the callee contract `key` (caller side: contracts/*.py)"""
    V = "validators:create.Validator."
    table = {
        V + "iter_errors": [V + "iter_errors@"], V + "descend": [V + "descend@"], V + "is_valid": [V + "is_valid@"], V + "is_type": [V + "is_type@"],
        "exceptions:_Error._set": [V + "err_set@"], "_utils:equal": ["_utils:equal"], "_utils:uniq": ["_utils:uniq"],
        "_format:FormatChecker.check": ["format:check"], "validators:RefResolver.resolve": ["validators:RefResolver.resolve"],
        "validators:RefResolver.resolve_from_url": ["validators:RefResolver.resolve_from_url"], "validators:RefResolver.resolve_remote": ["validators:RefResolver.resolve_remote"],
        "validators:RefResolver.resolve_fragment": ["validators:RefResolver.resolve_fragment"], "validators:RefResolver.push_scope": ["validators:RefResolver.scopes"],
        "validators:RefResolver.pop_scope": ["validators:RefResolver.scopes"], "exceptions:best_match": ["entry:best_match@"],
        "validators:validator_for": ["registry:validator_for"], "exceptions:_Error.create_from": ["entry:create_from@"],
        "exceptions:ErrorTree.total_errors": ["tree:total_errors"], "exceptions:ErrorTree.__len__": ["tree:total_errors", "tree:methods"],
        "cli:run": ["cli:run"], "cli:parse_args": ["cli:parse_args"], "exceptions:_Error.absolute_path": ["errors:absolute"],
    }
    if key.startswith("keyword:"):
        return ["[%s]" % key.split(":", 1)[1]]
    return table.get(key)


def slug(s):
    return re.sub(r"[^A-Za-z0-9_.-]+", "_", s)[:120]


def write_replay(pid, ob_name, payload):
    d = os.path.join(EVIDENCE_DIR, "replay")
    os.makedirs(d, exist_ok=True)
    fn = os.path.join(d, "%s-%s.json" % (pid, slug(ob_name)))
    with open(fn, "w") as f:
        json.dump(payload, f, indent=1, default=str)
    return os.path.relpath(fn, VERIF)


def finding_matches(finding, failure):
    w = finding.get("witness", {})
    for k in ("draft", "schema", "instance"):
        if k in w and json.dumps(w[k], sort_keys=True) != json.dumps(failure.get(k), sort_keys=True):
            return False
    return True


def run_check(spec, tier="quick", root="/repo", seed=0):
    t0 = time.time()
    pid = spec.pid
    known = load_known_findings()
    report = {"records": [], "violations": [], "undecided": [], "known": [], "crashes": []}
    repo = None
    try:
        repo = extract.Repo(root)
        tabs = tables_mod.draft_tables(repo)
        trecs = spec.table_obligations(repo, tabs)
    except Exception as e:     # noqa
        trecs = []
        report["undecided"].append({"name": "extraction", "reason": "tables/extraction: %s" % e})
    report["records"].extend(trecs)
    tasks = spec.tasks(root, tier)
    carried = set()
    if spec.carry:
        from props import specs as _specs
        have = {getattr(t, "name", None) for t in tasks}
        for grp in spec.carry:
            for t in _specs.CARRIERS[grp](root, tier):
                if t.name not in have:
                    have.add(t.name)
                    carried.add(t.name)
                    tasks.append(t)
    results = driver.run_tasks(tasks, root) if tasks else []
    functions = {}
    solver_time = 0.0
    by_backend = {}
    for r in results:
        functions[r.get("function", r["task"])] = r.get("source_hash", "")
        if r["status"] == "crash":
            b = load_baseline(pid).get("tasks", {}).get(r["task"])
            if b and b.get("status") == "ok" and r.get("dep") and b.get("dep") != r.get("dep"):
                # the engine tripped over code it has not seen (the task verified on the baseline tree and its sources
                # differ now): that is "outside the verified subset", not a defect of the check on the unchanged tree
                r = dict(r, status="out-of-subset", detail="engine error on changed sources: " + (r.get("detail", "").strip().splitlines() or ["?"])[-1][:300])
            else:
                report["crashes"].append({"task": r["task"], "detail": r.get("detail", "")[-1500:]})
                continue
        if r["status"] == "out-of-subset":
            # the function left the engine's subset: no proof either way; a failing input found by the
            # directed search on the real code is still a replayed violation
            fake = {"name": r["task"] + "/out-of-subset", "kind": "F", "status": "unknown", "reason": "out of subset: " + r.get("detail", ""),
                    "note": "function outside the verified subset"}
            if spec.oos_structure:
                fake["name"] += "/F/structure"
            before = len(report["violations"])
            decide_undischarged(spec, known, report, r, fake, root)
            continue
        for ob in r["obligations"]:
            if not (spec.select(ob, r) or (r["task"] in carried and ob["kind"] in ("F", "S", "P", "L", "X") and "/F/structure" not in ob["name"])):
                continue
            rec = dict(ob)
            rec["task"] = r["task"]
            report["records"].append(rec)
            solver_time += ob.get("time_s", 0.0)
            if ob["status"] == "discharged":
                by_backend[ob.get("solver") or "z3"] = by_backend.get(ob.get("solver") or "z3", 0) + 1
                continue
            decide_undischarged(spec, known, report, r, ob, root)
    for rec in trecs:
        if rec["status"] == "discharged":
            by_backend["tables"] = by_backend.get("tables", 0) + 1
        else:
            decide_table_failure(spec, known, report, rec, root)
    if os.environ.get("VERIF_WRITE_BASELINE") == "1":
        # record what is discharged on this tree (run on the unchanged tree only; the file is committed)
        base = {"tree": repo.tree_hash() if repo else None, "tasks": {}}
        for r in results:
            base["tasks"][r["task"]] = {"dep": r.get("dep"), "status": r["status"],
                                        "discharged": sorted(ob["name"] for ob in r.get("obligations", []) if ob["status"] == "discharged" and
                                                             (spec.select(ob, r) or r["task"] in carried))}
        os.makedirs(BASELINE_DIR, exist_ok=True)
        with open(os.path.join(BASELINE_DIR, "%s.json" % pid), "w") as f:
            json.dump(base, f, indent=0, sort_keys=True)
    try:
        spec.extra(root, tier, report)
    except Exception as e:      # noqa
        import traceback
        report["crashes"].append({"task": "extra", "detail": traceback.format_exc()[-1500:]})
    for rec in report["records"]:
        if rec.get("kind") in ("L", "W", "R") and rec["status"] == "discharged":
            by_backend[rec.get("solver") or "frames"] = by_backend.get(rec.get("solver") or "frames", 0) + 1
    standins = []
    try:
        standins = spec.standins(root, tier) or []
    except Exception as e:      # noqa
        import traceback
        report["crashes"].append({"task": "standin", "detail": traceback.format_exc()[-1500:]})
    for sdn in standins:
        for f in sdn.get("failures", [])[:5]:
            kf = [k for k in known["findings"] if k.get("property") == pid and finding_matches(k, f)]
            if kf:
                report["known"].append({"finding": kf[0]["id"], "what": kf[0]["what"]})
                continue
            path = write_replay(pid, "standin-" + sdn["name"], {"property": pid, "obligation": "bounded:" + sdn["name"],
                                                                "kind": sdn.get("replay_kind", "kw"), "failure": f, "root": root})
            report["violations"].append({"obligation": "bounded:" + sdn["name"], "replay": path, "input": True})
    # vacuity guard
    obl = [r for r in report["records"] if r.get("kind") in ("F", "S", "X", "T", "P", "L", "W", "R")]
    if not obl and not report["crashes"]:
        report["undecided"].append({"name": "vacuity", "reason": "no obligation was generated"})
    discharged = sum(1 for r in obl if r["status"] == "discharged")
    wall = time.time() - t0
    # ---- output
    for k in report["known"]:
        print("KNOWN-FINDING: property=%s %s" % (pid, k["what"]))
    for v in report["violations"]:
        print("VIOLATION property=%s replay=%s%s" % (pid, v["replay"], "" if v.get("input") else " no-failing-input-found"))
    for u in report["undecided"]:
        print("UNDECIDED obligation=%s reason=%s" % (u["name"], str(u["reason"])[:300]))
    for c in report["crashes"]:
        print("CHECKER-CRASH task=%s\n%s" % (c["task"], c["detail"]))
    samples = []
    for r in obl:
        if r["status"] == "discharged" and len(samples) < 6 and (r.get("formula") or r.get("note")):
            samples.append({"obligation": r["name"], "kind": r["kind"], "statement": r.get("note", ""),
                            "formula": r.get("formula", "")[:300], "solver": r.get("solver"), "time_s": r.get("time_s")})
    if not samples:
        samples = [{"obligation": r["name"], "kind": r["kind"], "status": r["status"]} for r in obl[:5]] or [{"note": "no obligations"}]
    # callee contracts the tasks of this check applied: proved by a task of this same check, or assumed from another one
    used = sorted({k for r in results for k in (r.get("contracts_used") or [])})
    names = [r["task"] for r in results]
    proved_here, from_elsewhere = [], []
    for k in used:
        pv = contract_provers(k)
        if pv and any(any(frag in n for frag in pv) for n in names):
            proved_here.append(k)
        else:
            from_elsewhere.append(k + (" (no task proves this: assumed)" if pv is None else ""))
    level = spec.level
    cov = {
        "obligations": len(obl), "discharged": discharged,
        "checker_cmd": "bin/check %s --tier %s (python3-vt; z3 %s; cvc5 binary for unknowns)" % (pid, tier, _z3v()),
        "trusted_base": TRUSTED_COMMON + list(spec.trusted),
        "by_backend": by_backend, "solver_time_s": round(solver_time, 2),
        "by_kind": _count(obl, "kind"),
        "functions_under_contract": sorted(functions),
        "callee_contracts_proved_in_this_check": proved_here,
        "callee_contracts_assumed_here": from_elsewhere,
        "function_source_hashes": functions,
        "samples": samples,
        "bounded_standins": [{k: v for k, v in s.items() if k != "failures"} | {"failures": len(s.get("failures", []))} for s in standins],
        "undecided": report["undecided"], "known_findings": report["known"],
        "tasks": len(results), "tasks_cached": sum(1 for r in results if r.get("cached")),
        "explanation": spec.explanation,
        "tree": driver.tree_hash(root), "root": root,
    }
    ev = {"property_id": pid, "tier": tier, "seed": int(seed), "level": level, "coverage": cov,
          "assumptions": list(spec.assumptions), "wall_s": round(wall, 2), "violations": len(report["violations"])}
    os.makedirs(EVIDENCE_DIR, exist_ok=True)
    with open(os.path.join(EVIDENCE_DIR, "%s.json" % pid), "w") as f:
        json.dump(ev, f, indent=1, default=str)
    print("%s: %d obligations, %d discharged, %d violations, %d undecided, %d known findings, %.1fs"
          % (pid, len(obl), discharged, len(report["violations"]), len(report["undecided"]), len(report["known"]), wall))
    if report["violations"]:
        return 1      # a violation found stands, whatever else went wrong in the checker (the crash lines are printed too)
    if report["crashes"]:
        return 3
    if report["undecided"]:
        return 2
    return 0


def _z3v():
    try:
        import z3
        return z3.get_version_string()
    except Exception:      # noqa
        return "?"


def _count(recs, key):
    out = {}
    for r in recs:
        out[r.get(key)] = out.get(r.get(key), 0) + 1
    return out


def decide_undischarged(spec, known, report, r, ob, root):
    pid = spec.pid
    src = "search_errors" if ("/F/structure" in ob["name"] and r.get("search_errors")) else "search"
    fails = [f for f in (r.get(src) or {}).get("failures", []) if f.get("kind") in spec.failure_kinds()]
    if "/F/structure" in ob["name"] and not fails and src == "search":
        fails = []
    # prefer a failure of the obligation's own kind
    fails.sort(key=lambda f: 0 if f.get("kind") == ob["kind"] else 1)
    unknown_fail = None
    for f in fails:
        kf = [k for k in known["findings"] if k.get("property") == pid and finding_matches(k, f)]
        if kf:
            if not any(x["finding"] == kf[0]["id"] for x in report["known"]):
                report["known"].append({"finding": kf[0]["id"], "what": kf[0]["what"]})
            continue
        unknown_fail = f
        break
    payload = {"property": pid, "obligation": ob["name"], "function": r.get("function"), "draft": r.get("draft"),
               "kind": "kw", "mode": ("errors" if "/F/structure" in ob["name"] else "verdict"), "root": root, "solver": {"status": ob["status"], "backend": ob.get("solver"), "reason": ob.get("reason", "")},
               "model": ob.get("model"), "note": ob.get("note")}
    if unknown_fail is not None:
        payload["failure"] = unknown_fail
        path = write_replay(pid, ob["name"], payload)
        if not any(v["obligation"] == ob["name"] for v in report["violations"]):
            report["violations"].append({"obligation": ob["name"], "replay": path, "input": True})
        return
    if ob["status"] == "failed":
        # the verifier refuted the obligation but no failing input was confirmed on the real code
        model = ob.get("model") or {}
        confirmed = None
        if model.get("schema") is not None and "instance" in model:
            try:
                rr = driver.rt_call("pyvc.rt_kw", {"cmd": "replay", "root": root, "draft": model.get("draft", r.get("draft")),
                                                  "schema": model["schema"], "instance": model["instance"]}, root)
                if rr.get("status") == "fails":
                    confirmed = rr["failure"]
            except Exception:      # noqa
                pass
        if confirmed:
            payload["failure"] = confirmed
        path = write_replay(pid, ob["name"], payload)
        report["violations"].append({"obligation": ob["name"], "replay": path, "input": bool(confirmed)})
        return
    if fails and not unknown_fail:
        # every failure found is a listed known finding; the obligation itself stays open
        report["undecided"].append({"name": ob["name"], "reason": "only known findings reproduce; obligation not discharged outside them"})
        return
    # an obligation that was discharged on the baseline tree and is no longer discharged on CHANGED sources is reported
    # as a violation without input (the solver's output goes into the replay file); on unchanged sources an
    # `unknown` can only be the solver's doing and stays undecided
    # (a function that left the engine's subset, or a task that was stopped, generated no obligation: that stays undecided)
    oos = ob["name"].endswith(("/out-of-subset", "/out-of-subset/F/structure"))
    why = None if oos else changed_since_baseline(load_baseline(pid), r, ob["name"])
    if why:
        payload["baseline"] = why
        path = write_replay(pid, ob["name"], payload)
        if not any(v["obligation"] == ob["name"] for v in report["violations"]):
            report["violations"].append({"obligation": ob["name"], "replay": path, "input": False})
        return
    report["undecided"].append({"name": ob["name"], "reason": "solver %s (%s); directed search found no failing input" % (ob["status"], ob.get("reason", ""))})


def decide_table_failure(spec, known, report, rec, root):
    pid = spec.pid
    payload = {"property": pid, "obligation": rec["name"], "kind": "kw", "root": root, "note": rec.get("note"),
               "solver": {"status": "failed", "backend": "tables"}}
    f = None
    if rec.get("fmt_search"):
        try:
            sr = driver.rt_call("pyvc.rt_fmt", {"cmd": "search", "root": root, "limit": 1}, root, timeout=3000)
            f = (sr.get("failures") or [None])[0]
            payload["kind"] = "fmt"
        except Exception:      # noqa
            f = None
    elif rec.get("search"):
        try:
            sr = driver.rt_call("pyvc.rt_kw", dict(rec["search"], cmd="search", root=root, limit=1), root)
            f = (sr.get("failures") or [None])[0]
        except Exception:      # noqa
            f = None
    if not f and rec.get("rt_search"):
        # a run-time helper that can exhibit the broken fact on the real code: (module, job, replay kind)
        for mod, job, rkind in rec["rt_search"]:
            try:
                sr = driver.rt_call(mod, dict(job, root=root, limit=1), root, timeout=3000)
                f = (sr.get("failures") or [None])[0]
            except Exception:      # noqa
                f = None
            if f:
                payload["kind"] = rkind
                break
    if f:
        payload["failure"] = f
    path = write_replay(pid, rec["name"], payload)
    report["violations"].append({"obligation": rec["name"], "replay": path, "input": bool(f)})


def main(spec_by_id):
    import argparse
    ap = argparse.ArgumentParser()
    ap.add_argument("pid")
    ap.add_argument("--tier", default=os.environ.get("VERIF_TIER", "quick"))
    ap.add_argument("--repo", default="/repo")
    a = ap.parse_args()
    seed = int(os.environ.get("VERIF_SEED", "0") or 0)
    spec = spec_by_id[a.pid]()
    if a.tier == "thorough":
        os.environ.setdefault("PYVC_CROSSCHECK", "1")      # every obligation z3 discharges is also given to cvc5
    try:
        rc = run_check(spec, a.tier, os.path.abspath(a.repo), seed)
    except Exception:      # noqa
        import traceback
        traceback.print_exc()
        rc = 3
    sys.exit(rc)
